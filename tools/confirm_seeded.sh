#!/bin/bash
# usage: confirm_seeded.sh <PROPERTY> <agent out dir (contains patch.diff demo.py notes.md)> <name>
# Confirms an independently written seeded change in a scratch worktree of /repo:
#   demo passes on the clean tree, fails with the change, the repository's own
#   test-suite still passes with the change. On success copies it to /verif/seeded/<name>/.
set -u
PROP=$1; SRC=$2; NAME=$3
WT=/tmp/confirm_$NAME
LOG=/tmp/confirm_$NAME.log
rm -rf $WT; git -C /repo worktree prune
git -C /repo worktree add -q --detach $WT HEAD || exit 2
cd $WT
run_demo() { ( cd $SRC && PYTHONPATH=$WT OMP_NUM_THREADS=2 timeout 900 /venv/bin/python -u demo.py >$LOG.demo 2>&1; echo $? ); }
clean_rc=$(run_demo)
git -C $WT apply $SRC/patch.diff || { echo "$NAME: patch does not apply"; git -C /repo worktree remove --force $WT; exit 2; }
mut_rc=$(run_demo)
tests=$(cd $WT && PYTHONPATH=$WT OMP_NUM_THREADS=2 timeout 3000 /venv/bin/python -m pytest -q -p no:cacheprovider --timeout=900 tests 2>&1 | tail -1)
cd /tmp; git -C /repo worktree remove --force $WT
ok=0
if [ "$clean_rc" = "0" ] && [ "$mut_rc" != "0" ] && echo "$tests" | grep -q "101 passed" && ! echo "$tests" | grep -q failed; then ok=1; fi
echo "$NAME: demo_clean_rc=$clean_rc demo_mutant_rc=$mut_rc tests='$tests' confirmed=$ok"
if [ $ok = 1 ]; then
  mkdir -p /verif/seeded/$NAME
  cp $SRC/patch.diff $SRC/demo.py /verif/seeded/$NAME/
  [ -f $SRC/notes.md ] && cp $SRC/notes.md /verif/seeded/$NAME/
  python3 - "$PROP" "$NAME" "$clean_rc" "$mut_rc" "$tests" <<'PY'
import json, sys, os
prop, name, c, m, tests = sys.argv[1:6]
notes = ""
p = f"/verif/seeded/{name}/notes.md"
if os.path.exists(p): notes = open(p).read()
meta = {"property": prop, "name": name,
        "origin": "independent sub-agent given only the property text and a scratch worktree",
        "needs_to_manifest": notes[:1500],
        "confirmed_by": "tools/confirm_seeded.sh in a scratch worktree of /repo HEAD",
        "ran": {"demo_on_clean_tree_exit": int(c), "demo_with_change_exit": int(m), "repo_test_suite_with_change": tests},
        "caught_by": []}
json.dump(meta, open(f"/verif/seeded/{name}/meta.json", "w"), indent=1)
PY
fi
