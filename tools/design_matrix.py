#!/usr/bin/env python3
"""Regenerates section 9 of DESIGN.md (seeded changes x checks) from /verif/seeded/*/meta.json
and the own-mutant list, between the markers <!-- MATRIX-BEGIN --> / <!-- MATRIX-END -->."""
import json, os, glob, re
rows = []
for mp in sorted(glob.glob('/verif/seeded/*/meta.json')):
    m = json.load(open(mp))
    name = m['name']
    notes = " ".join(m.get('needs_to_manifest', '').split())
    # first sentence-ish description
    desc = re.sub(r'^#+\s*', '', notes)[:170]
    caught = ", ".join(f"{c['check']} ({c['violations']})" for c in m.get('caught_by', [])) or "–"
    missed = ", ".join(c['check'] for c in m.get('missed_by', [])) or "–"
    applies = m.get('applies_to_current_tree', True)
    rows.append(f"| `{name}` | {m['property']} | {desc} | {caught} | {missed}{'' if applies else ' (patch no longer applies)'} |")
own = sorted(os.path.basename(p) for p in glob.glob('/verif/mutants/*.patch'))
text = ["<!-- MATRIX-BEGIN -->",
        "| seeded change | property | what it needs to manifest (from the author's notes) | caught by (quick tier, #violations) | other checks run that do not see it |",
        "|---|---|---|---|---|"] + rows + ["",
        f"Own mutants and reversed fix commits under `mutants/` ({len(own)} patches; every one is reported by the check of its property, "
        "`python -m vp.selftest mutants/<name>.patch <ID>` resp. `--reverse` for `rev_*`): " + ", ".join(f"`{o[:-6]}`" for o in own) + ".",
        "<!-- MATRIX-END -->"]
s = open('/verif/DESIGN.md').read()
if '<!-- MATRIX-BEGIN -->' in s:
    a = s.index('<!-- MATRIX-BEGIN -->'); b = s.index('<!-- MATRIX-END -->') + len('<!-- MATRIX-END -->')
    s = s[:a] + "\n".join(text) + s[b:]
else:
    s = s.rstrip() + "\n\n## 9. Independently seeded changes against the checks\n\n" + \
        "Each change below was written by a separate sub-agent that was given only the text of one property and its own scratch\n" \
        "worktree of the repository (nothing from /verif). It was kept only after `tools/confirm_seeded.sh` had confirmed in a scratch\n" \
        "worktree that the demonstration passes on the clean tree, fails with the change, and the repository's own 101 tests still pass\n" \
        "with it (`seeded/<name>/meta.json`). Wave 1 (`Cxx_m*`) was written before the checks of that property existed or without\n" \
        "knowledge of them; wave 2 (`w2_Cxx_m*`) was asked for changes different from wave 1 and harder to notice. Where a check\n" \
        "missed a change it was strengthened (build log, section 8) and the row shows the result after strengthening.\n\n" + "\n".join(text) + "\n"
open('/verif/DESIGN.md', 'w').write(s)
print(len(rows), "rows")
