#!/usr/bin/env python3
"""Regenerate the 'cases per tier at the end of the build' block of DESIGN.md
from two sweep logs (output of tools/sweep.sh):

    tools/design_counts.py <quick sweep log> <thorough sweep log>

Only the first seed of each log is used."""
import re
import sys

PAT = re.compile(r"seed=(\d+) (C\d\d) rc=(\d+) C\d\d tier=(\w+) seed=\d+ "
                 r"cases=(\d+) evaluated=(\d+) distinct_nontrivial=(\d+) "
                 r"skipped=(\d+) wall=([\d.]+)s")


def parse(path):
    out = {}
    for line in open(path, errors="replace"):
        m = PAT.search(line)
        if m and m.group(2) not in out:
            out[m.group(2)] = dict(rc=int(m.group(3)), cases=int(m.group(5)),
                                   distinct=int(m.group(7)),
                                   wall=float(m.group(9)))
    return out


def main():
    q, t = parse(sys.argv[1]), parse(sys.argv[2])
    rows = ["| id | quick: cases / distinct non-trivial / wall s | "
            "thorough: cases / distinct non-trivial / wall s |", "|---|---|---|"]
    for cid in sorted(set(q) | set(t)):
        def cell(d):
            if cid not in d:
                return "-"
            x = d[cid]
            return f"{x['cases']} / {x['distinct']} / {x['wall']:.0f}"
        rows.append(f"| {cid} | {cell(q)} | {cell(t)} |")
    block = "\n".join(rows)
    p = "/verif/DESIGN.md"
    s = open(p).read()
    a, b = "<!-- COUNTS-BEGIN -->", "<!-- COUNTS-END -->"
    if a not in s:
        raise SystemExit("markers missing in DESIGN.md")
    s = s[:s.index(a) + len(a)] + "\n" + block + "\n" + s[s.index(b):]
    open(p, "w").write(s)
    print(len(rows) - 2, "rows")


if __name__ == "__main__":
    main()
