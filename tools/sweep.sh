#!/bin/bash
# usage: sweep.sh <tier> <seeds...> ; runs every claimed check, prints exit code and summary line
TIER=$1; shift
cd /verif
IDS=$(python3 -c "import json; print(' '.join(c['property_id'] for c in json.load(open('MANIFEST.json'))['checks']))")
for s in "$@"; do for id in $IDS; do
  out=$(VERIF_SEED=$s timeout 7200 /venv/bin/python -m vp.run $id --tier $TIER --no-evidence 2>&1); rc=$?
  echo "seed=$s $id rc=$rc $(echo "$out" | grep -m1 "^$id tier" | cut -c1-160)"
  if [ $rc != 0 ]; then echo "$out" | grep -E "violation:|INCONCLUSIVE|VIOLATION" | head -5 | cut -c1-400; fi
done; done
