#!/bin/bash
# regenerate every evidence file with the quick tier (seed 0) and validate against the schema
cd /verif
IDS=$(python3 -c "import json; print(' '.join(c['property_id'] for c in json.load(open('MANIFEST.json'))['checks']))")
for id in $IDS; do
  out=$(VERIF_SEED=${VERIF_SEED:-0} timeout 7200 /venv/bin/python -m vp.run $id --tier quick 2>&1); rc=$?
  echo "$id rc=$rc $(echo "$out" | grep -m1 "^$id tier" | cut -c1-150)"
  if [ $rc != 0 ]; then echo "$out" | grep -E "violation:|INCONCLUSIVE|VIOLATION" | head -5 | cut -c1-300; fi
done
python3-vt - <<'PY'
import json, jsonschema, glob
sch=json.load(open('/root/.vp/EVIDENCE.schema.json'))
for f in sorted(glob.glob('/verif/evidence/*.json')):
    try:
        jsonschema.validate(json.load(open(f)), sch); print(f, 'valid')
    except Exception as e:
        print(f, 'INVALID', str(e)[:200])
jsonschema.validate(json.load(open('/verif/MANIFEST.json')), json.load(open('/root/.vp/MANIFEST.schema.json'))); print('manifest valid')
PY
