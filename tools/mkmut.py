#!/usr/bin/env python3
"""mkmut.py <name> <repo-relative file> <old text> <new text> : writes /verif/mutants/<name>.patch
(a unified diff against the current /repo file) without touching /repo."""
import sys, difflib, os
name, rel, old, new = sys.argv[1:5]
old = old.encode().decode('unicode_escape'); new = new.encode().decode('unicode_escape')
src = open(os.path.join('/repo', rel)).read()
assert src.count(old) >= 1, "old text not found"
n = int(sys.argv[5]) if len(sys.argv) > 5 else 1
dst = src.replace(old, new, n) if n > 0 else src.replace(old, new)
diff = difflib.unified_diff(src.splitlines(True), dst.splitlines(True), 'a/' + rel, 'b/' + rel)
open(f'/verif/mutants/{name}.patch', 'w').write(''.join(diff))
print('wrote', name)
