#!/usr/bin/env python3
"""Regenerate the table of section 4 of DESIGN.md from known_findings.json."""
import json, re
d = json.load(open('/verif/known_findings.json'))
rows = []
for f in d["findings"]:
    what = " ".join(f["what"].split())
    if len(what) > 330:
        what = what[:327] + "..."
    what = what.replace("|", "\\|")
    rows.append(f"| {f['property']} | {f['status']} | {f.get('commit', '–') or '–'} | `{f['mechanism']}` | {what} |")
s = open('/verif/DESIGN.md').read()
head = "| property | status | fix commit | mechanism (classifier key) | what failed |\n|---|---|---|---|---|\n"
i = s.index(head) + len(head)
j = s.index("\nObservations that were judged", i)
s = s[:i] + "\n".join(rows) + "\n" + s[j:]
open('/verif/DESIGN.md', 'w').write(s)
print(len(rows), "rows")
