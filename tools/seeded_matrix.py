#!/usr/bin/env python3
"""Run the checks against every confirmed seeded change in /verif/seeded and record
which check catches it (meta.json: caught_by / missed_by). usage: seeded_matrix.py [names...]"""
import json, os, subprocess, sys, glob
sys.path.insert(0, '/verif')
from vp import selftest, common
EXTRA = {"C10": ["C20"], "C08": ["C20", "C13"], "C01": ["C02", "C20"], "C02": ["C01", "C14", "C13", "C03"], "C03": ["C18", "C16", "C01", "C02"], "C07": [], "C14": ["C18"],
         "C15": ["C07"], "C16": ["C03"], "C18": ["C03", "C20"], "C11": ["C04"], "C04": ["C11"],
         "C05": ["C06"], "C06": ["C05"], "C12": ["C01", "C11", "C20"], "C13": ["C14", "C16", "C20"], "C09": ["C14", "C13"], "C20": ["C14"]}
names = sys.argv[1:] or sorted(os.listdir('/verif/seeded'))
for name in names:
    d = f'/verif/seeded/{name}'
    mp = os.path.join(d, 'meta.json')
    if not os.path.exists(mp):
        print(name, 'no meta'); continue
    meta = json.load(open(mp))
    prop = meta['property']
    try:
        dst = selftest.make_copy(os.path.join(d, 'patch.diff'))
    except SystemExit as e:
        print(name, 'PATCH DOES NOT APPLY'); meta['applies_to_current_tree'] = False
        json.dump(meta, open(mp, 'w'), indent=1); continue
    caught, missed = [], []
    try:
        for chk in [prop] + EXTRA.get(prop, []):
            env = dict(os.environ, VP_REPO=dst, VERIF_SEED='0')
            r = subprocess.run([common.PYTHON, '-m', 'vp.run', chk, '--tier', 'quick', '--no-evidence'],
                               env=env, cwd='/verif', capture_output=True, text=True)
            viol = [l.strip() for l in r.stdout.splitlines() if l.strip().startswith('violation:')]
            if r.returncode == 1:
                caught.append({"check": chk, "tier": "quick", "violations": len(viol), "first": viol[0][:240] if viol else ""})
            else:
                missed.append({"check": chk, "tier": "quick", "exit": r.returncode})
    finally:
        import shutil; shutil.rmtree(dst, ignore_errors=True)
    meta['applies_to_current_tree'] = True
    meta['caught_by'] = caught
    meta['missed_by'] = missed
    json.dump(meta, open(mp, 'w'), indent=1)
    print(name, 'caught by', [c['check'] for c in caught], 'missed by', [m['check'] for m in missed], flush=True)
