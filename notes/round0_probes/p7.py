import os, sys
os.environ.setdefault("OMP_NUM_THREADS","1")
import numpy as np, oqupy, warnings
from oqupy import operators as op
np.set_printoptions(precision=6,linewidth=200)
corr = oqupy.PowerLawSD(alpha=0.1, zeta=1.0, cutoff=3.0, cutoff_type='gaussian', temperature=0.7)
bath = oqupy.Bath(0.5*op.sigma('z'), corr)
par = oqupy.TempoParameters(dt=0.1, epsrel=1e-10, dkmax=None)
# field eom linear in t, independent of state & field: da/dt = c0 + c1 t => exact a(t)= a0 + c0 (t-t0) + c1 (t^2-t0^2)/2 ; Heun exact
c0,c1=0.3-0.2j, 0.5+0.1j
eom=lambda t,states,a: c0+c1*t
hs=lambda t,a: 0.5*op.sigma('z')+0.2*op.sigma('x')   # no field dependence
s=oqupy.TimeDependentSystemWithField(hs)
mfs=oqupy.MeanFieldSystem([s],eom)
rho0=np.array([[0.5,0.5],[0.5,0.5]],dtype=complex)
for t0 in [0.0,1.0]:
    t1=t0+0.55
    mt=oqupy.MeanFieldTempo(mfs,[bath],par,[rho0],1.0+0j,start_time=t0)
    d=mt.compute(t1,progress_type='silent')
    exact=1.0+c0*(d.times-t0)+c1*(d.times**2-t0**2)/2
    print("MFTempo field err",np.abs(d.fields-exact).max())
    pt=oqupy.pt_tempo_compute(bath,t0,t1,par,progress_type='silent')
    d2=oqupy.compute_dynamics_with_field(mfs,1.0+0j,process_tensor_list=[pt],initial_state_list=[rho0],start_time=t0,progress_type='silent')
    exact2=1.0+c0*(d2.times-t0)+c1*(d2.times**2-t0**2)/2
    print("cdwf field err",np.abs(d2.fields-exact2).max(), "times", d2.times)
    print(" states dev", np.abs(d.system_dynamics[0].states-d2.system_dynamics[0].states).max())
    for ra in [False]:
        d3=oqupy.compute_dynamics_with_field(mfs,1.0+0j,process_tensor_list=[pt],initial_state_list=[rho0],start_time=t0,record_all=False,progress_type='silent')
        print(" record_all False times",d3.times, "expected", t0+len(pt)*0.1)
# C13
sysm=oqupy.System(0.5*op.sigma('x'))
for (dt,end) in [(0.1,0.3),(0.1,0.6),(0.1,0.7),(0.05,0.15),(0.2,0.6),(0.01,0.07)]:
    par = oqupy.TempoParameters(dt=dt, epsrel=1e-6, dkmax=2)
    d=oqupy.tempo_compute(sysm,bath,rho0,0.0,end,par,progress_type='silent')
    print(dt,end,"len",len(d),"last",d.times[-1])
pt=oqupy.pt_tempo_compute(bath,0.0,0.5,oqupy.TempoParameters(dt=0.1, epsrel=1e-6, dkmax=2),progress_type='silent')
d=oqupy.compute_dynamics(sysm,rho0,process_tensor=pt,record_all=False,progress_type='silent')
print("compute_dynamics record_all=False: times",d.times,"expected",len(pt)*0.1)
