import os, time
os.environ.setdefault("OMP_NUM_THREADS","1")
import numpy as np, oqupy, warnings
from oqupy import operators as op
t0=time.time()
corr = oqupy.PowerLawSD(alpha=0.3, zeta=1.0, cutoff=3.0, cutoff_type='gaussian', temperature=0.7)
bath = oqupy.Bath(0.5*op.sigma('z'), corr)
sysm = oqupy.System(0.7*op.sigma('z'))
par = oqupy.TempoParameters(dt=0.1, epsrel=1e-9, dkmax=None)
rho0 = np.array([[0.5,0.5],[0.5,0.5]],dtype=complex)
t=time.time()
dyn = oqupy.tempo_compute(sysm,bath,rho0,0.0,0.8,par,progress_type='silent')
print("tempo", time.time()-t, len(dyn))
t=time.time()
pt = oqupy.pt_tempo_compute(bath,0.0,0.8,par,progress_type='silent')
print("pt", time.time()-t, len(pt))
d2 = oqupy.compute_dynamics(sysm, rho0, process_tensor=pt, progress_type='silent')
print(np.abs(d2.states-dyn.states).max())
# analytic
def eta_num(t):
    # eta(t)= int_0^t int_0^t' C(t'-t'') 
    from scipy import integrate
    f=lambda s: (t-s)*corr.correlation(s)
    re=integrate.quad(lambda s: np.real(f(s)),0,t)[0]; im=integrate.quad(lambda s: np.imag(f(s)),0,t)[0]
    return re+1j*im
for k,tt in enumerate(dyn.times):
    if k==0: continue
    e=eta_num(tt)
    # coherence 01: s+=0.5 s-=-0.5: op_m = 1, op_p = 0 
    ana = 0.5*np.exp(-1j*1.4*tt)*np.exp(-e.real*1*1)
    print(k, dyn.states[k][0,1], ana, abs(dyn.states[k][0,1]-ana))
print("total",time.time()-t0)
