import sys, threading, time, io
import oqupy.util as u
# scale timers
class FastTimer(threading.Timer):
    def __init__(self, interval, function, args=None, kwargs=None):
        super().__init__(interval*0.02, function, args, kwargs)
u.Timer=FastTimer
mon=sys.monitoring; TID=mon.DEBUGGER_ID
mon.use_tool_id(TID,"vp")
code_update=u.ProgressBar.update.__code__
lines_seen=[]
target={'line':None}
gate=threading.Event(); reached=threading.Event()
main=threading.main_thread()
def on_line(code,line):
    if threading.current_thread() is main: return
    lines_seen.append(line)
    if line==target['line'] and not reached.is_set():
        reached.set(); gate.wait(5)
mon.register_callback(TID, mon.events.LINE, on_line)
mon.set_local_events(TID, code_update, mon.events.LINE)
def scenario(line):
    target['line']=line; gate.clear(); reached.clear()
    out=io.StringIO(); so=sys.stdout; sys.stdout=out
    pb=u.ProgressBar(10,"t"); sys.stdout=so
    pb.enter(); pb.update(0)
    ok=reached.wait(2)   # timer thread paused at line
    pb.exit()           # main finishes
    gate.set()
    time.sleep(0.2)
    alive=[t for t in threading.enumerate() if t is not main]
    n1=len(out.getvalue()); time.sleep(0.2); n2=len(out.getvalue())
    # cleanup leaked chain
    for _ in range(50):
        if pb._timer: pb._timer.cancel()
        time.sleep(0.01)
        if not [t for t in threading.enumerate() if t is not main]: break
    return ok, len(alive), n2-n1
import dis
ls=sorted({l for _,l in dis.findlinestarts(code_update) if l})
print("lines",ls)
for l in ls:
    print(l, scenario(l))
print(sorted(set(lines_seen)))
