import os, warnings, sys, time
os.environ.setdefault("OMP_NUM_THREADS","1")
import numpy as np, oqupy
from scipy.linalg import expm, expm_frechet
from oqupy import operators as op
warnings.simplefilter("ignore")
rng=np.random.default_rng(4)
corr=oqupy.PowerLawSD(0.2,1.0,3.0,'gaussian',0.5)
dt=0.1;N=3
par=oqupy.TempoParameters(dt=dt,epsrel=1e-10,dkmax=None)
pt=oqupy.pt_tempo_compute(oqupy.Bath(0.5*op.sigma('z'),corr),0.0,N*dt+1e-9,par,progress_type='silent')
sx,sy,sz,sm=op.sigma('x'),op.sigma('y'),op.sigma('z'),op.sigma('-')
H=lambda a,b: a*sx+b*sz+0.3*sy
gam=lambda a,b: 0.2+0.1*a*a
Lop=lambda a,b: sm+0.5*b*sz
def liou(a,b):
    Hm=H(a,b); g=gam(a,b); A=Lop(a,b); I=np.eye(2); AdA=A.conj().T@A
    return -1j*(np.kron(Hm,I)-np.kron(I,Hm.T))+g*(np.kron(A,A.conj())-0.5*np.kron(AdA,I)-0.5*np.kron(I,AdA.T))
def dliou(a,b,h=1e-6):
    return [(liou(a+h,b)-liou(a-h,b))/(2*h),(liou(a,b+h)-liou(a,b-h))/(2*h)]
def pderivs(dt_,params):
    a,b=params; L=liou(a,b)*dt_/2
    return [expm_frechet(L,dL*dt_/2,compute_expm=False) for dL in dliou(a,b)]
rho0=np.array([[0.7,0.2-0.1j],[0.2+0.1j,0.3]],dtype=complex)
params=rng.normal(size=(2*N,2))
def forward(p):
    def idx(t): return min(int(np.floor(t/(dt/2)+1e-9)),len(p)-1)
    ts=oqupy.TimeDependentSystem(lambda t:H(*p[idx(t)]),[lambda t:gam(*p[idx(t)])],[lambda t:Lop(*p[idx(t)])])
    return oqupy.compute_dynamics(ts,rho0,process_tensor=[pt],subdiv_limit=None,progress_type='silent')
sig=sx
Zfun=lambda rho: np.real(np.trace(sig@rho))**2 + np.real(np.trace(sz@rho))
tderiv=lambda rho: (2*np.real(np.trace(sig@rho))*sig.T + sz.T)
for label,pd in [('numdiff',None),('user',pderivs)]:
    ps=oqupy.ParameterizedSystem(H,[gam],[Lop],propagator_derivatives=pd)
    for tlabel,target in [('array',(sig.T).astype(complex)),('callable',tderiv)]:
        t0=time.time()
        r=oqupy.state_gradient(ps,rho0,target,[pt],params,progress_type='silent')
        g=r['gradient']; fd=np.zeros_like(g); h=1e-5
        for i in range(2*N):
            for j in range(2):
                p1=params.copy();p1[i,j]+=h;p2=params.copy();p2[i,j]-=h
                if tlabel=='array':
                    z=lambda p: np.dot(target.reshape(-1),forward(p).states[-1].reshape(-1))
                else:
                    z=lambda p: Zfun(forward(p).states[-1])
                fd[i,j]=(z(p1)-z(p2))/(2*h)
        print(label,tlabel,"rel err",np.abs(g-fd).max()/np.abs(fd).max(),"imag part of grad",np.abs(g.imag).max(),"dyn dev",np.abs(forward(params).states-r['dynamics'].states).max(), round(time.time()-t0,1),"s")
