import os, sys
os.environ.setdefault("OMP_NUM_THREADS","1")
import numpy as np, oqupy, warnings
from oqupy import operators as op
np.set_printoptions(precision=5,linewidth=200)
corr = oqupy.PowerLawSD(alpha=0.3, zeta=1.0, cutoff=3.0, cutoff_type='gaussian', temperature=0.7)
bathz = oqupy.Bath(0.5*op.sigma('z'), corr)
bathx = oqupy.Bath(0.5*op.sigma('x'), corr)
par = oqupy.TempoParameters(dt=0.1, epsrel=1e-10, dkmax=None)
ptz=oqupy.pt_tempo_compute(bathz,0.0,0.45,par,progress_type='silent')
ptx=oqupy.pt_tempo_compute(bathx,0.0,0.45,par,progress_type='silent')
N=len(ptz); print("N",N)
def H(a,b): return a*op.sigma('x')+b*op.sigma('z')
psys=oqupy.ParameterizedSystem(H)
rng=np.random.default_rng(0)
params=rng.normal(size=(2*N,2))
rho0=np.array([[0.7,0.2-0.1j],[0.2+0.1j,0.3]],dtype=complex)
target=np.array([[0.2,0.3+0.1j],[0.3-0.1j,0.8]],dtype=complex)
def forward(params, pts):
    dt=0.1
    def Ht(t):
        i=min(int(np.floor(t/(dt/2)+1e-9)),len(params)-1); return H(*params[i])
    ts=oqupy.TimeDependentSystem(Ht)
    d=oqupy.compute_dynamics(ts,rho0,process_tensor=pts,subdiv_limit=None,progress_type='silent')
    return d
for pts in [[ptz],[ptz,ptz],[ptz,ptx],[ptx,ptz]]:
    r=oqupy.state_gradient(psys,rho0,target.T,pts,params,progress_type='silent')
    g=r['gradient']
    fd=np.zeros_like(g)
    h=1e-5
    for i in range(2*N):
        for j in range(2):
            p1=params.copy();p1[i,j]+=h;p2=params.copy();p2[i,j]-=h
            # objective: sum target_derivative * final state (vector dot)
            z1=np.dot(target.T.reshape(-1),forward(p1,pts).states[-1].reshape(-1))
            z2=np.dot(target.T.reshape(-1),forward(p2,pts).states[-1].reshape(-1))
            fd[i,j]=(z1-z2)/(2*h)
    dyn=forward(params,pts)
    print(len(pts),"grad rel err",np.abs(g-fd).max()/np.abs(fd).max(),"dyn dev",np.abs(dyn.states-r['dynamics'].states).max())
