import os, time, warnings, sys
os.environ.setdefault("OMP_NUM_THREADS","1")
import numpy as np, oqupy
warnings.simplefilter("ignore")
seed=int(sys.argv[1]); rng=np.random.default_rng(seed)
def rh(d,s=1.0):
    a=rng.normal(size=(d,d))+1j*rng.normal(size=(d,d)); return s*(a+a.conj().T)/2
def rdm(d,rank=None):
    rank=rank or d
    a=rng.normal(size=(d,rank))+1j*rng.normal(size=(d,rank)); r=a@a.conj().T; return r/np.trace(r)
res=[]
for trial in range(12):
    d=int(rng.integers(2,4)); alpha=10**rng.uniform(-1.5,0.3); T=rng.choice([0.0,10**rng.uniform(-1,1)])
    ctype=rng.choice(['hard','exponential','gaussian']); zeta=rng.choice([1.0,3.0,0.5])
    eps=10.0**(-rng.integers(4,10)); dt=rng.choice([0.05,0.1,0.2]); N=int(rng.integers(4,12))
    dk=rng.choice([None,None,2,5])
    corr=oqupy.PowerLawSD(alpha,zeta,3.0,ctype,T)
    O=np.diag(rng.choice([-1,-0.5,0,0.5,1,2],size=d)).astype(complex)
    s=oqupy.System(rh(d),[0.2],[rh(d)+1j*rh(d)])
    rho0=rdm(d,rank=int(rng.integers(1,d+1)))
    par=oqupy.TempoParameters(dt=dt,epsrel=eps,dkmax=dk)
    dyn=oqupy.tempo_compute(s,oqupy.Bath(O,corr),rho0,0.0,N*dt+1e-9,par,progress_type='silent')
    st=dyn.states
    tr=np.abs(np.trace(st,axis1=1,axis2=2)-1).max(); he=np.abs(st-st.conj().transpose(0,2,1)).max()
    me=min(np.linalg.eigvalsh((x+x.conj().T)/2).min() for x in st)
    res.append((eps,dk,tr/eps,he/eps,-me/eps if me<0 else 0,alpha,N))
    print(f"eps={eps:.0e} dk={dk} a={alpha:.2f} N={N} tr/eps={tr/eps:.2e} herm/eps={he/eps:.2e} neg/eps={(-me/eps if me<0 else 0):.2e}")
