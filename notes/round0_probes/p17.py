import os, time
os.environ.setdefault("OMP_NUM_THREADS","1")
import numpy as np, oqupy
from scipy.linalg import expm
from oqupy import operators as op
rng=np.random.default_rng(3)
def rh(d):
    a=rng.normal(size=(d,d))+1j*rng.normal(size=(d,d)); return (a+a.conj().T)/2
def rdm(d):
    a=rng.normal(size=(d,d))+1j*rng.normal(size=(d,d)); r=a@a.conj().T; return r/np.trace(r)
corr = oqupy.PowerLawSD(alpha=0.3, zeta=1.0, cutoff=3.0, cutoff_type='gaussian', temperature=0.7)
dt=0.1; N=5
par = oqupy.TempoParameters(dt=dt, epsrel=1e-10, dkmax=None)
pt2=oqupy.pt_tempo_compute(oqupy.Bath(np.diag([0.5,-0.5]),corr),0.0,N*dt+1e-9,par,progress_type='silent')
pt3=oqupy.pt_tempo_compute(oqupy.Bath(rh(3),corr),0.0,N*dt+1e-9,par,progress_type='silent')
dims=[2,3,2]
Hs=[rh(d) for d in dims]; Ls=[rng.normal(size=(d,d)) for d in dims]; gs=[0.2,0.0,0.3]
rhos=[rdm(d) for d in dims]
pts=[pt2,pt3,None]
for order in [1,2]:
    chain=oqupy.SystemChain(dims)
    for i,d in enumerate(dims):
        chain.add_site_hamiltonian(i,Hs[i]); chain.add_site_dissipation(i,Ls[i],gs[i])
    p=oqupy.PtTebd(oqupy.AugmentedMPS(rhos),chain,pts,oqupy.PtTebdParameters(dt=dt,epsrel=1e-10,order=order),dynamics_sites=[0,1,2,(0,1),(0,2),(0,1,2)])
    r=p.compute(N,progress_type='silent')
    for i,d in enumerate(dims):
        s=oqupy.System(Hs[i],[gs[i]],[Ls[i]])
        dd=oqupy.compute_dynamics(s,rhos[i],dt=dt,num_steps=N,process_tensor=pts[i],progress_type='silent')
        print(order,i,"dev",np.abs(dd.states-r['dynamics'][i].states).max(),"times",np.abs(dd.times-r['dynamics'][i].times).max())
    r01=r['dynamics'][(0,1)].states; print(" (0,1) vs kron",np.abs(r01[-1]-np.kron(r['dynamics'][0].states[-1],r['dynamics'][1].states[-1])).max())
    r012=r['dynamics'][(0,1,2)].states[-1].reshape(2,3,2,2,3,2)
    print(" ptrace (0,1,2)->(0,2)",np.abs(np.einsum('abcdbf->acdf',r012).reshape(4,4)-r['dynamics'][(0,2)].states[-1]).max(), "norm",np.abs(r['norm']-1).max())
# two-site coupled, no PT: dense
dims=[2,3]
chain=oqupy.SystemChain(dims)
Hs=[rh(2),rh(3)]; 
for i in range(2): chain.add_site_hamiltonian(i,Hs[i])
A,B=rh(2),rh(3); chain.add_nn_hamiltonian(0,A,B)
La,Lb=rng.normal(size=(2,2)),rng.normal(size=(3,3)); chain.add_nn_dissipation(0,La,Lb,0.3); chain.add_site_dissipation(1,Lb,0.2)
rhos=[rdm(2),rdm(3)]
p=oqupy.PtTebd(oqupy.AugmentedMPS(rhos),chain,[None,None],oqupy.PtTebdParameters(dt=dt,epsrel=1e-12,order=2),dynamics_sites=[(0,1),0,1])
r=p.compute(N,progress_type='silent')
Htot=np.kron(Hs[0],np.eye(3))+np.kron(np.eye(2),Hs[1])+np.kron(A,B)
D=6; I=np.eye(D)
def diss(Lo,g):
    AdA=Lo.conj().T@Lo; return g*(np.kron(Lo,Lo.conj())-0.5*np.kron(AdA,I)-0.5*np.kron(I,AdA.T))
Ltot=-1j*(np.kron(Htot,I)-np.kron(I,Htot.T))+diss(np.kron(La,Lb),0.3)+diss(np.kron(np.eye(2),Lb),0.2)
rho=np.kron(rhos[0],rhos[1]).reshape(-1)
for k in range(N+1):
    ex=(expm(Ltot*dt*k)@rho).reshape(D,D)
    if k in (1,N): print("2-site dense dev step",k,np.abs(ex-r['dynamics'][(0,1)].states[k]).max())
