import os, time
os.environ.setdefault("OMP_NUM_THREADS","1")
import numpy as np, oqupy
from scipy.linalg import expm
from oqupy import operators as op
rng=np.random.default_rng(7)
d=2; N=5; dt=0.2
modes=[(1.3,0.35,0.4),(2.1,0.25,0.0)]   # (omega, g, T)
def C(t):
    s=0
    for w,g,T in modes:
        coth=1/np.tanh(w/(2*T)) if T>0 else 1.0
        s+=g*g*(coth*np.cos(w*t)-1j*np.sin(w*t))
    return s
corr=oqupy.CustomCorrelations(C)
O=np.diag([0.5,-0.5]).astype(complex)
H=0.4*op.sigma('x')+0.3*op.sigma('z')+0.1*op.sigma('y')
Lop=op.sigma('-'); gam=0.1
sysm=oqupy.System(H,[gam],[Lop])
a=rng.normal(size=(d,d))+1j*rng.normal(size=(d,d)); rho0=a@a.conj().T; rho0/=np.trace(rho0)
bath=oqupy.Bath(O,corr)
par=oqupy.TempoParameters(dt=dt,epsrel=1e-9,dkmax=None)
t=time.time()
dyn=oqupy.tempo_compute(sysm,bath,rho0,0.0,N*dt+1e-9,par,progress_type='silent')
print("tempo time",time.time()-t)
def ref(nmax):
    dims=[nmax]*len(modes); nB=int(np.prod(dims))
    def embed(opm,i):
        mats=[np.eye(n) for n in dims]; mats[i]=opm
        out=mats[0]
        for m in mats[1:]: out=np.kron(out,m)
        return out
    HB=np.zeros((nB,nB),complex); X=np.zeros((nB,nB),complex); rhoB=None
    rb=[]
    for i,(w,g,T) in enumerate(modes):
        a_=np.diag(np.sqrt(np.arange(1,nmax)),1)
        HB+=embed(w*a_.T@a_,i); X+=embed(g*(a_+a_.T),i)
        p=np.exp(-w*np.arange(nmax)/T) if T>0 else np.eye(nmax)[0]
        rb.append(np.diag(p/p.sum()))
    rhoB=rb[0]
    for m in rb[1:]: rhoB=np.kron(rhoB,m)
    W=expm(-1j*(np.kron(np.eye(d),HB)+np.kron(O,X))*dt)
    I=np.eye(d); AdA=Lop.conj().T@Lop
    L=-1j*(np.kron(H,I)-np.kron(I,H.T))+gam*(np.kron(Lop,Lop.conj())-0.5*np.kron(AdA,I)-0.5*np.kron(I,AdA.T))
    half=expm(L*dt/2).reshape(d,d,d,d)
    def apply_sys(R): return np.einsum('ijkl,kblc->ibjc',half,R.reshape(d,nB,d,nB)).reshape(d*nB,d*nB)
    R=np.kron(rho0,rhoB); out=[]
    for k in range(N+1):
        out.append(np.einsum('ibjb->ij',R.reshape(d,nB,d,nB)))
        if k==N: break
        R=apply_sys(R); R=W@R@W.conj().T; R=apply_sys(R)
    return np.array(out)
for nmax in [6,9,12]:
    t=time.time(); r=ref(nmax); print(nmax,"ref time",time.time()-t,"dev",np.abs(r-dyn.states).max(axis=(1,2)))
