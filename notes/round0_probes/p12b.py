import os
os.environ.setdefault("OMP_NUM_THREADS","1")
import numpy as np, oqupy, warnings
from scipy import integrate
from oqupy import operators as op
def make_eta(alpha,zeta,wc,ctype,T):
    X={'hard':lambda w:(w<wc)*1.0,'exponential':lambda w:np.exp(-w/wc),'gaussian':lambda w:np.exp(-(w/wc)**2)}[ctype]
    J=lambda w:2*alpha*w**zeta*wc**(1-zeta)*X(w)
    def eta(t):
        if t==0: return 0j
        def coth(x): return 1/np.tanh(x) if x<300 else 1.0
        fr=lambda w: J(w)/w**2*(coth(w/(2*T)) if T>0 else 1.0)*(1-np.cos(w*t))
        fi=lambda w: J(w)/w**2*(np.sin(w*t)-w*t)
        up= wc if ctype=='hard' else np.inf
        pts=None
        re=integrate.quad(fr,0,wc,limit=500,epsabs=1e-13,epsrel=1e-12)[0]+(0 if ctype=='hard' else integrate.quad(fr,wc,np.inf,limit=500,epsabs=1e-13,epsrel=1e-12)[0])
        im=integrate.quad(fi,0,wc,limit=500,epsabs=1e-13,epsrel=1e-12)[0]+(0 if ctype=='hard' else integrate.quad(fi,wc,np.inf,limit=500,epsabs=1e-13,epsrel=1e-12)[0])
        return re+1j*im
    return eta
def S_list(eta,dt,N,K,tau):
    # returns S_n for n=0..N
    tri=eta(dt)
    def sq(dk): return eta((dk+1)*dt)-2*eta(dk*dt)+eta((dk-1)*dt)
    def rect(t1,t2): return eta(t2)-eta(t1)-eta(t2-dt)+eta(t1-dt)
    S=[0j]
    for n in range(1,N+1):
        tot=0j
        kmax=n-1 if K is None else min(n-1,K)
        for dk in range(kmax+1):
            if dk==0: tot+=tri
            elif K is not None and dk==K and n>K and tau is not None:
                ext=min((n-K)*dt, dt+tau)
                tot+=rect(K*dt,K*dt+ext)
            else: tot+=sq(dk)
        S.append(S[-1]+tot)
    return S
import sys
alpha,zeta,wc,ctype,T=float(sys.argv[1]),float(sys.argv[2]),3.0,sys.argv[3],float(sys.argv[4])
eta=make_eta(alpha,zeta,wc,ctype,T)
corr = oqupy.PowerLawSD(alpha=alpha, zeta=zeta, cutoff=wc, cutoff_type=ctype, temperature=T)
o=np.array([1.0,-0.5,2.0]); E=np.array([0.3,-0.2,0.9])
bath = oqupy.Bath(np.diag(o), corr)
sysm = oqupy.System(np.diag(E))
rng=np.random.default_rng(0)
a=rng.normal(size=(3,3))+1j*rng.normal(size=(3,3)); rho0=a@a.conj().T; rho0/=np.trace(rho0)
dt=0.1;N=8
for K,tau in [(None,None),(3,None),(3,0.15),(3,np.inf)]:
    par = oqupy.TempoParameters(dt=dt, epsrel=1e-9, dkmax=K, add_correlation_time=tau)
    dyn = oqupy.tempo_compute(sysm,bath,rho0,0.0,N*dt+1e-9,par,progress_type='silent')
    S=S_list(eta,dt,N,K,tau)
    err=0
    for n in range(N+1):
        ph=np.exp(-1j*np.subtract.outer(E,E)*n*dt)
        om=np.subtract.outer(o,o); opl=np.add.outer(o,o)
        ana=rho0*ph*np.exp(-om*(S[n].real*om+1j*S[n].imag*opl))
        err=max(err,np.abs(ana-dyn.states[n]).max())
    R=6.25*sum(abs((eta(dt) if k==0 else eta((k+1)*dt)-2*eta(k*dt)+eta((k-1)*dt)).real) for k in range(N if K is None else min(K,N-1)+1)); print(K,tau,len(dyn),"max err",err,"R",round(R,1))
