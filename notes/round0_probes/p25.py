import os, warnings, sys, time
os.environ.setdefault("OMP_NUM_THREADS","1")
import numpy as np, oqupy
from oqupy import operators as op
warnings.simplefilter("ignore")
np.set_printoptions(precision=5,linewidth=200)
corr=oqupy.PowerLawSD(0.2,1.0,3.0,'gaussian',0.5)
bath=oqupy.Bath(0.5*op.sigma('z'),corr)
rho0=np.array([[0.6,0.3-0.1j],[0.3+0.1j,0.4]])
dt=0.1;N=6
def mk(tau,log):
    def H(t): log.append(('H',t)); return 0.5*op.sigma('z')+0.7*np.cos(5*(t-tau))*op.sigma('x')+0.2*(t-tau)*op.sigma('y')
    def g(t): log.append(('g',t)); return 0.1+0.05*np.sin(3*(t-tau))
    def A(t): log.append(('A',t)); return op.sigma('-')+0.3*(t-tau)*op.sigma('z')
    return oqupy.TimeDependentSystem(H,[g],[A])
for sub in [None,256]:
  for tau in [0.037,10.123,-3.3]:
    par=oqupy.TempoParameters(dt=dt,epsrel=1e-9,dkmax=3,subdiv_limit=sub)
    l0=[];l1=[]
    s0=mk(0.0,l0); s1=mk(tau,l1)
    del l0[:]; del l1[:]
    d0=oqupy.Tempo(s0,bath,par,rho0,0.4).compute(0.4+N*dt+1e-9,progress_type='silent')
    d1=oqupy.Tempo(s1,bath,par,rho0,0.4+tau).compute(0.4+tau+N*dt+1e-9,progress_type='silent')
    t0=np.array([t for _,t in l0]); t1=np.array([t for _,t in l1])
    print(sub,tau,"states dev",np.abs(d0.states-d1.states).max(),"times dev",np.abs(d1.times-tau-d0.times).max(),"calls",len(t0),len(t1),"arg-time dev",np.abs(t1-tau-t0).max() if len(t0)==len(t1) else None)
    # PT + compute_dynamics with float controls
    pt=oqupy.pt_tempo_compute(bath,0.4,0.4+N*dt+1e-9,par,progress_type='silent')
    c0=oqupy.Control(2); c0.add_single(0.4+0.31,op.left_super(op.sigma('x'))); c0.add_single(0.4+0.18,op.right_super(op.sigma('y')),post=True)
    c1=oqupy.Control(2); c1.add_single(0.4+tau+0.31,op.left_super(op.sigma('x'))); c1.add_single(0.4+tau+0.18,op.right_super(op.sigma('y')),post=True)
    import io, contextlib
    with contextlib.redirect_stdout(io.StringIO()):
        e0=oqupy.compute_dynamics(s0,rho0,process_tensor=pt,start_time=0.4,control=c0,subdiv_limit=sub,progress_type='silent')
        e1=oqupy.compute_dynamics(s1,rho0,process_tensor=pt,start_time=0.4+tau,control=c1,subdiv_limit=sub,progress_type='silent')
    print("   cd states dev",np.abs(e0.states-e1.states).max(),"times dev",np.abs(e1.times-tau-e0.times).max())
    with contextlib.redirect_stdout(io.StringIO()):
        k0=oqupy.compute_correlations(s0,pt,op.sigma('x'),op.sigma('z'),(0.4+0.1,0.4+0.3),(0.4+0.5,0.4+0.2),initial_state=rho0,start_time=0.4,progress_type='silent')
        k1=oqupy.compute_correlations(s1,pt,op.sigma('x'),op.sigma('z'),(0.4+tau+0.1,0.4+tau+0.3),(0.4+tau+0.5,0.4+tau+0.2),initial_state=rho0,start_time=0.4+tau,progress_type='silent')
    m=~np.isnan(k0[1])
    print("   corr shapes",k0[1].shape,k1[1].shape,"nan pattern same",np.array_equal(np.isnan(k0[1]),np.isnan(k1[1])),"dev",np.abs(k0[1][m]-k1[1][m]).max(), "t dev",np.abs(k1[0][0]-tau-k0[0][0]).max())
