import os, warnings, sys, time, itertools
os.environ.setdefault("OMP_NUM_THREADS","1")
import numpy as np, oqupy
from oqupy import operators as op
warnings.simplefilter("ignore")
corr=oqupy.PowerLawSD(0.2,1.0,3.0,'gaussian',0.5); bath=oqupy.Bath(0.5*op.sigma('z'),corr)
rho0=np.array([[0.7,0.2-0.1j],[0.2+0.1j,0.3]],dtype=complex)
dt=0.1;N=5
ts=oqupy.TimeDependentSystem(lambda t:0.5*op.sigma('z')+0.4*np.cos(3*t)*op.sigma('x'))
eom=lambda t,s,a:-0.5*a-0.3j*np.trace(op.sigma('x')@s[0]).real+0.1*t
mfs=oqupy.MeanFieldSystem([oqupy.TimeDependentSystemWithField(lambda t,a:0.5*op.sigma('z')+np.real(a)*op.sigma('x'))],eom)
worst={'tempo':0,'mf':0}; n=0
for K in [None,2]:
    par=oqupy.TempoParameters(dt=dt,epsrel=1e-9,dkmax=K,add_correlation_time=None if K is None else 0.15)
    ref=oqupy.Tempo(ts,bath,par,rho0,0.2).compute(0.2+N*dt+1e-9,progress_type='silent')
    refm=oqupy.MeanFieldTempo(mfs,[bath],par,[rho0],0.5+0j,start_time=0.2).compute(0.2+N*dt+1e-9,progress_type='silent')
    for seq in itertools.product(range(N+1),repeat=3):
        if max(seq)!=N or (n:=n+1)%4: continue
        t=oqupy.Tempo(ts,bath,par,rho0,0.2); m=oqupy.MeanFieldTempo(mfs,[bath],par,[rho0],0.5+0j,start_time=0.2)
        for tg in seq:
            t.compute(0.2+tg*dt+1e-9,progress_type='silent'); t.get_dynamics()
            m.compute(0.2+tg*dt+1e-9,progress_type='silent')
        d=t.get_dynamics(); dm=m.get_dynamics()
        ok=len(d)==len(ref) and np.allclose(d.times,ref.times,atol=1e-14)
        worst['tempo']=max(worst['tempo'],np.abs(d.states-ref.states).max() if ok else 9)
        okm=len(dm)==len(refm)
        worst['mf']=max(worst['mf'],max(np.abs(dm.fields-refm.fields).max(),np.abs(dm.system_dynamics[0].states-refm.system_dynamics[0].states).max()) if okm else 9)
print("histories checked",n//4,"worst dev",worst)
