import os, warnings, sys, time
os.environ.setdefault("OMP_NUM_THREADS","1")
import numpy as np, oqupy
from oqupy import operators as op
warnings.simplefilter("ignore")
np.set_printoptions(precision=6,linewidth=200)
alpha,wc,T=0.15,4.0,1.3
corr=oqupy.PowerLawSD(alpha,1.0,wc,'gaussian',T)
o=np.array([1.0,-0.5,0.25]); E=np.array([0.3,-0.2,0.9])
bath=oqupy.Bath(np.diag(o),corr); sysm=oqupy.System(np.diag(E))
p=np.array([0.5,0.3,0.2]); rho0=np.diag(p).astype(complex)
dt=0.1; N=10
par=oqupy.TempoParameters(dt=dt,epsrel=1e-9,dkmax=None)
pt=oqupy.pt_tempo_compute(bath,0.0,N*dt+1e-9,par,progress_type='silent')
bd=oqupy.TwoTimeBathCorrelations(sysm,bath,pt,initial_state=rho0)
O2=(p*o**2).sum()
J=lambda w:2*alpha*w*np.exp(-(w/wc)**2)
for w in [0.7,2.0,5.0]:
    t,occ=bd.occupation(w,dw=0.01,change_only=True,progress_type='silent')
    exact=J(w)*0.01*O2*2*(1-np.cos(w*t))/w**2
    print("occ w",w,"dev",np.abs(occ-exact).max(),"scale",np.abs(exact).max())
    t,occ=bd.occupation(w,dw=0.01,change_only=False,progress_type='silent')
    n0=1/(np.exp(w/T)-1)
    print("   with thermal: dev",np.abs(occ-exact-n0).max())
def f(w,t): return (np.exp(-1j*w*t)-1)/w
for (w1,t1,w2,t2) in [(0.7,0.3,0.7,0.3),(0.7,0.3,2.0,0.8),(2.0,0.2,2.0,0.9)]:
  for dagg in [(1,0),(0,1),(1,1),(0,0)]:
    c=bd.correlation(w1,t1,w2,t2,dw=(0.01,0.01),dagg=dagg,interaction_picture=False,change_only=False,progress_type='silent')
    g1=np.sqrt(J(w1))*0.01; g2=np.sqrt(J(w2))*0.01   # library: dw*sqrt(J)
    # operators: later op (index0 of dagg) at freq2,time2 ; earlier op (index1) at freq1,time1
    a1=f(w1,t1); a2=f(w2,t2)
    x2=np.conj(a2) if dagg[0] else a2; x1=np.conj(a1) if dagg[1] else a1
    ex=O2*g1*g2*x2*x1
    if w1==w2 and dagg in ((1,0),(0,1)):
        n0=1/(np.exp(w1/T)-1)
        ph=np.exp(1j*((2*dagg[0]-1)*w2*t2+(2*dagg[1]-1)*w1*t1))
        ex+= (n0 + (1 if dagg==(0,1) else 0))*ph
    print("corr",(w1,t1,w2,t2),dagg,"lib",c,"exact",ex,"dev",abs(c-ex))
