import os, sys, warnings
os.environ.setdefault("OMP_NUM_THREADS","1")
import numpy as np, oqupy
fn=sys.argv[1]
with warnings.catch_warnings(record=True) as w:
    warnings.simplefilter('always')
    try:
        q=oqupy.import_process_tensor(fn,'file')
        print("OPENED len",len(q),"caps",sum(1 for s in range(10) if q.get_cap_tensor(s) is not None),"warn",[str(x.message)[:30] for x in w])
        q.close()
    except Exception as e:
        print("FAILED",type(e).__name__,str(e)[:60])
