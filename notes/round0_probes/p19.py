import os, time, warnings
os.environ.setdefault("OMP_NUM_THREADS","1")
import numpy as np, oqupy
from scipy import integrate
from scipy.special import gamma as G
warnings.simplefilter("ignore")
rng=np.random.default_rng(11)
def wquad(f,a,b,pts=None):
    re=integrate.quad(lambda s:np.real(f(s)),a,b,limit=400,epsabs=1e-14,epsrel=1e-11,points=pts)[0]
    im=integrate.quad(lambda s:np.imag(f(s)),a,b,limit=400,epsabs=1e-14,epsrel=1e-11,points=pts)[0]
    return re+1j*im
worst=0
t0=time.time()
for trial in range(24):
    alpha=10**rng.uniform(-2,0.3); zeta=rng.choice([0.5,1.0,1.5,2.0,3.0,4.0,rng.uniform(0.1,4)]); wc=10**rng.uniform(-0.5,1.2)
    ctype=rng.choice(['hard','exponential','gaussian']); T=rng.choice([0.0,0.0,10**rng.uniform(-2.5,2)])
    dt=10**rng.uniform(-2,0)/wc*3; dk=int(rng.integers(0,6))
    c=oqupy.PowerLawSD(alpha,zeta,wc,ctype,T)
    t1=dk*dt
    Cf=lambda s:c.correlation(s)
    try:
        if dk==0:
            lib=c.correlation_2d_integral(dt,0.0,shape='upper-triangle')
            ref=wquad(lambda s:(dt-s)*Cf(s),0,dt)
        else:
            lib=c.correlation_2d_integral(dt,t1,shape='square')
            ref=wquad(lambda s:(dt-abs(s-t1))*Cf(s),t1-dt,t1+dt,pts=[t1])
    except Exception as e:
        print("EXC",type(e).__name__,alpha,zeta,wc,ctype,T,dt,dk); continue
    rel=abs(lib-ref)/max(abs(ref),1e-300)
    sym=abs(c.correlation(-0.3*dt)-np.conj(c.correlation(0.3*dt)))/abs(c.correlation(0.3*dt))
    worst=max(worst,rel)
    print(f"{ctype:12s} z={zeta:.2f} wc={wc:.2f} T={T:.3g} dt={dt:.3g} dk={dk} rel={rel:.2e} sym={sym:.1e} |ref|={abs(ref):.2e}")
print("worst",worst,"time",time.time()-t0)
# closed form
for zeta in [0.5,1,3]:
    a,wc=0.3,2.5; c=oqupy.PowerLawSD(a,zeta,wc,'exponential',0.0)
    for t in [0.0,0.3,2.0]:
        cf=2*a*wc**(1-zeta)*G(zeta+1)*(wc/(1+1j*wc*t))**(zeta+1)
        print(zeta,t,abs(c.correlation(t)-cf)/abs(cf))
