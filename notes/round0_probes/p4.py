import os
os.environ.setdefault("OMP_NUM_THREADS","1")
import numpy as np, oqupy, warnings
from oqupy import operators as op
corr = oqupy.PowerLawSD(alpha=0.3, zeta=1.0, cutoff=3.0, cutoff_type='gaussian', temperature=0.7)
bath = oqupy.Bath(0.5*op.sigma('z'), corr)
sysm = oqupy.System(0.7*op.sigma('z')+0.4*op.sigma('x'))
par = oqupy.TempoParameters(dt=0.1, epsrel=1e-10, dkmax=None)
pt = oqupy.pt_tempo_compute(bath,0.0,0.6,par,progress_type='silent')
rho0 = np.array([[0.5,0.5],[0.5,0.5]],dtype=complex)
A=op.sigma('x'); B=op.sigma('y')
kw=dict(system=sysm,process_tensor=pt,operator_a=A,operator_b=B,initial_state=rho0,progress_type='silent')
t,full=oqupy.compute_correlations(times_a=slice(None),times_b=slice(None),**kw)
print(t[0],t[1]); 
np.set_printoptions(precision=4,linewidth=200)
print(full.real)
for ta,tb in [([1,2],[4,3,2]),([2,1],[2,3,4]),([1,2],[2,4,3]),((0.2,0.0),(0.0,0.4)),((0.0,0.2),(0.4,0.0)),((0.0,0.2),(0.4,0.1))]:
    try:
        t,c=oqupy.compute_correlations(times_a=ta,times_b=tb,**kw)
    except Exception as e:
        print(ta,tb,"EXC",repr(e)); continue
    ia=np.round(t[0]/0.1).astype(int); ib=np.round(t[1]/0.1).astype(int)
    print(ta,tb,"times",t[0],t[1])
    exp=np.array([[full[a,b] for b in ib] for a in ia])
    print(" got",c.real, "\n exp",exp.real)
# dt
for dt in [0.1,0.2]:
  with warnings.catch_warnings(record=True) as w:
    warnings.simplefilter("always")
    try:
        t,c=oqupy.compute_correlations(times_a=1,times_b=slice(None),dt=dt,**kw)
        print("dt",dt,t[1],c.real,[str(x.message)[:40] for x in w])
    except Exception as e: print("dt",dt,"EXC",repr(e))
