import os, warnings, sys, signal, time
os.environ.setdefault("OMP_NUM_THREADS","1")
import numpy as np, oqupy
from scipy.stats import unitary_group
warnings.simplefilter("ignore")
rng=np.random.default_rng(int(sys.argv[1]))
def rh(d,s=1.0):
    a=rng.normal(size=(d,d))+1j*rng.normal(size=(d,d)); return s*(a+a.conj().T)/2
def rdm(d):
    a=rng.normal(size=(d,d))+1j*rng.normal(size=(d,d)); r=a@a.conj().T; return r/np.trace(r)
pats=[[0,1,3],[0,1,1,2],[-1,0,2,2],[1,1,1],[0,0.5,1,1.5],[0,1,2,4],[0.5,-0.5],[0,2,2],[1,0,0,1],[0,1,3,4,4]]
worst=0
for trial in range(10):
    o=np.array(pats[rng.integers(len(pats))],float); d=len(o)
    rot=rng.random()<0.4 and len(set(o))==d   # rotated only if nondegenerate (D1)
    V=unitary_group.rvs(d,random_state=int(rng.integers(1<<30))) if rot else np.eye(d)
    O=V@np.diag(o)@V.conj().T; O=(O+O.conj().T)/2
    corr=oqupy.PowerLawSD(0.1,1.0,3.0,rng.choice(['gaussian','exponential']),rng.choice([0.0,0.8]))
    K=rng.choice([None,2,3]); tau=rng.choice([None,0.15]) if K is not None else None
    par=oqupy.TempoParameters(dt=0.1,epsrel=1e-9,dkmax=K,add_correlation_time=tau)
    H=rh(d); rho0=rdm(d); N=5 if d<5 else 4
    b=oqupy.Bath(O,corr); s=oqupy.System(H,[0.1],[rh(d)])
    t0=time.time()
    r={}
    for u in [False,True]:
        r[u]=oqupy.Tempo(s,b,par,rho0,0.0,unique=u).compute(N*0.1+1e-9,progress_type='silent').states
    dv=np.abs(r[True]-r[False]).max()
    pt={}
    for u in [False,True]:
        p=oqupy.pt_tempo_compute(b,0.0,N*0.1+1e-9,par,unique=u,progress_type='silent')
        pt[u]=oqupy.compute_dynamics(s,rho0,process_tensor=p,progress_type='silent').states
    dp=np.abs(pt[True]-pt[False]).max(); dx=np.abs(pt[False]-r[False]).max()
    nn=len(set(b.north_degeneracy_map)); nw=len(set(b.west_degeneracy_map))
    print(f"o={o} rot={rot} K={K} tau={tau} north {nn}/{d*d} west {nw}/{d*d} tempo dev {dv:.1e} pt dev {dp:.1e} tempo-vs-pt {dx:.1e} t={time.time()-t0:.1f}",flush=True)
