import os, time
os.environ.setdefault("OMP_NUM_THREADS","1")
import numpy as np, oqupy
from scipy import integrate
E=np.array([0.3,-0.4,0.9]); o=np.array([1.0,-0.5,0.25])
for ctype,T,zeta in [('gaussian',0.8,1.0),('exponential',2.1,3.0),('hard',0.5,0.5)]:
    alpha,wc=0.2,3.0
    corr=oqupy.PowerLawSD(alpha,zeta,wc,ctype,T)
    X={'hard':lambda w:(w<wc)*1.0,'exponential':lambda w:np.exp(-w/wc),'gaussian':lambda w:np.exp(-(w/wc)**2)}[ctype]
    lam=integrate.quad(lambda w:2*alpha*w**(zeta-1)*wc**(1-zeta)*X(w),0,wc if ctype=='hard' else np.inf)[0]
    p=np.exp(-(E-lam*o**2)/T); p/=p.sum()
    for n in [2,3,5,20]:
        t=time.time()
        try:
            s=oqupy.gibbs_tempo_compute(oqupy.System(np.diag(E)),oqupy.Bath(np.diag(o),corr),oqupy.GibbsParameters(n,1e-10),progress_type='silent')
            print(ctype,T,zeta,n,"dev",np.abs(s-np.diag(p)).max(), round(time.time()-t,2))
        except Exception as ex: print(ctype,n,"EXC",type(ex).__name__,str(ex)[:80])
