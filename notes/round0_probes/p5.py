import os
os.environ.setdefault("OMP_NUM_THREADS","1")
import numpy as np, oqupy, warnings
from oqupy import operators as op
np.set_printoptions(precision=5,linewidth=200)
# C11 gibbs transpose
corr = oqupy.PowerLawSD(alpha=0.0, zeta=1.0, cutoff=3.0, cutoff_type='exponential', temperature=0.7)
bath = oqupy.Bath(0.5*op.sigma('z'), corr)
H=0.3*op.sigma('z')+0.5*op.sigma('y')+0.2*op.sigma('x')
from scipy.linalg import expm
g=expm(-H/0.7); g/=np.trace(g)
s=oqupy.gibbs_tempo_compute(oqupy.System(H),bath,oqupy.GibbsParameters(10,1e-10),progress_type='silent')
print("gibbs dev", np.abs(s-g).max(), "transposed dev", np.abs(s-g.T).max())
gt=oqupy.GibbsTempo(oqupy.System(H),bath,oqupy.GibbsParameters(10,1e-10))
gt.compute(progress_type='silent'); s1=gt.get_state(); n1=len(gt.get_dynamics())
try:
    gt.compute(progress_type='silent'); s2=gt.get_state(); print("second compute: len",n1,len(gt.get_dynamics()),"state change",np.abs(s1-s2).max())
except Exception as e: print("gibbs 2nd compute EXC",repr(e))
# C14 PtTempo second compute
corr = oqupy.PowerLawSD(alpha=0.3, zeta=1.0, cutoff=3.0, cutoff_type='gaussian', temperature=0.7)
bath = oqupy.Bath(0.5*op.sigma('z'), corr)
par = oqupy.TempoParameters(dt=0.1, epsrel=1e-10, dkmax=None)
p=oqupy.PtTempo(bath,0.0,0.55,par)
p.compute(progress_type='silent')
try:
    p.compute(progress_type='silent'); print("pt second compute ok")
except Exception as e: print("PtTempo 2nd compute EXC",type(e).__name__, str(e)[:80])
try:
    pt=p.get_process_tensor(); print(len(pt))
except Exception as e: print("get_process_tensor after EXC",type(e).__name__, str(e)[:80])
# C14 TEMPO retry after failure
class Boom(Exception): pass
cnt={'n':0,'fail_at':None}
def Ht(t):
    cnt['n']+=1
    if cnt['fail_at'] is not None and cnt['n']==cnt['fail_at']:
        raise Boom()
    return 0.7*op.sigma('z')+0.4*np.cos(3*t)*op.sigma('x')
tsys=oqupy.TimeDependentSystem(Ht)
rho0 = np.array([[0.5,0.5],[0.5,0.5]],dtype=complex)
par2 = oqupy.TempoParameters(dt=0.1, epsrel=1e-10, dkmax=None, subdiv_limit=None)
ref=oqupy.Tempo(tsys,bath,par2,rho0,0.0).compute(0.55,progress_type='silent')
cnt['n']=0
t=oqupy.Tempo(tsys,bath,par2,rho0,0.0)
cnt['fail_at']=cnt['n']+5
try: t.compute(0.55,progress_type='silent')
except Boom: print("boom at len",len(t.get_dynamics()))
cnt['fail_at']=None
d=t.compute(0.55,progress_type='silent')
print("after retry: times",d.times, "ref",ref.times)
m=min(len(d),len(ref)); print("dev",np.abs(d.states[:m]-ref.states[:m]).max(axis=(1,2)))
