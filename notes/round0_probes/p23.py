import os, time, warnings, sys, signal
os.environ.setdefault("OMP_NUM_THREADS","1")
import numpy as np, oqupy
warnings.simplefilter("ignore")
seed=int(sys.argv[1]); rng=np.random.default_rng(seed)
def rh(d,s=1.0):
    a=rng.normal(size=(d,d))+1j*rng.normal(size=(d,d)); return s*(a+a.conj().T)/2
def rdm(d,rank=None):
    rank=rank or d
    a=rng.normal(size=(d,rank))+1j*rng.normal(size=(d,rank)); r=a@a.conj().T; return r/np.trace(r)
class TO(Exception): pass
def h(*a): raise TO()
signal.signal(signal.SIGALRM,h)
for trial in range(60):
    d=int(rng.integers(2,4)); alpha=10**rng.uniform(-1.5,0.5); T=rng.choice([0.0,10**rng.uniform(-1,1)])
    ctype=rng.choice(['hard','exponential','gaussian']); zeta=rng.choice([1.0,3.0,0.5])
    eps=10.0**(-rng.integers(5,9)); dt=rng.choice([0.05,0.1,0.2]); N=int(rng.integers(4,11))
    dk=rng.choice([None,None,2,5])
    corr=oqupy.PowerLawSD(alpha,zeta,3.0,ctype,T)
    ov=rng.choice([-1,-0.5,0,0.5,1,2],size=d); O=np.diag(ov).astype(complex)
    s=oqupy.System(rh(d),[0.2],[rh(d)+1j*rh(d)])
    rho0=rdm(d,rank=int(rng.integers(1,d+1)))
    K=N if dk is None else min(dk,N)
    etas=[corr.correlation_2d_integral(dt,0.0,shape='upper-triangle')]+[corr.correlation_2d_integral(dt,k*dt,shape='square') for k in range(1,K+1)]
    dmax=(ov.max()-ov.min())**2
    R=dmax*sum(abs(e.real) for e in etas)
    par=oqupy.TempoParameters(dt=dt,epsrel=eps,dkmax=dk)
    signal.alarm(40)
    try:
        t0=time.time()
        dyn=oqupy.tempo_compute(s,oqupy.Bath(O,corr),rho0,0.0,N*dt+1e-9,par,progress_type='silent')
        signal.alarm(0)
    except TO:
        print(f"TIMEOUT R={R:.2f} d={d} N={N} eps={eps:.0e}",flush=True); continue
    st=dyn.states
    tr=np.abs(np.trace(st,axis1=1,axis2=2)-1).max()
    print(f"R={R:7.2f} tr/eps={tr/eps:9.2e} eps={eps:.0e} dk={dk} N={N} d={d} t={time.time()-t0:.1f}",flush=True)
