import os, sys, time, threading, subprocess, signal
os.environ.setdefault("OMP_NUM_THREADS","1")
import numpy as np, oqupy, warnings
from oqupy import operators as op
corr = oqupy.PowerLawSD(alpha=0.3, zeta=1.0, cutoff=3.0, cutoff_type='gaussian', temperature=0.7)
bath = oqupy.Bath(0.5*op.sigma('x'), corr)
par = oqupy.TempoParameters(dt=0.1, epsrel=1e-10, dkmax=None)
pt=oqupy.pt_tempo_compute(bath,0.0,0.45,par,progress_type='silent')
fn="/tmp/probe/x.hdf5"
if os.path.exists(fn): os.remove(fn)
pt.export(fn)
sysm=oqupy.System(0.5*op.sigma('z'))
rho0=np.array([[0.5,0.5],[0.5,0.5]],dtype=complex)
ref=oqupy.compute_dynamics(sysm,rho0,process_tensor=pt,progress_type='silent')
for typ in ['file','simple']:
    with warnings.catch_warnings(record=True) as w:
        warnings.simplefilter('always')
        q=oqupy.import_process_tensor(fn,typ)
        print(typ,"warnings",[str(x.message)[:50] for x in w], "initial",q.get_initial_tensor())
        try:
            d=oqupy.compute_dynamics(sysm,rho0,process_tensor=q,progress_type='silent')
            print(" dyn dev",np.abs(d.states-ref.states).max())
        except Exception as e: print(" EXC",type(e).__name__,str(e)[:80])
    if typ=='file': 
        import h5py
        print(" writing attr:", q._f.attrs['writing'], type(q._f.attrs['writing']))
        q.close()
# file-based PT-TEMPO
fn2="/tmp/probe/y.hdf5"
if os.path.exists(fn2): os.remove(fn2)
ptf=oqupy.pt_tempo_compute(bath,0.0,0.45,par,process_tensor_file=fn2,progress_type='silent')
print(type(ptf).__name__, len(ptf))
d=oqupy.compute_dynamics(sysm,rho0,process_tensor=ptf,progress_type='silent')
print(" file pt dyn dev",np.abs(d.states-ref.states).max())
for k in range(len(pt)):
    a=pt.get_mpo_tensor(k,transformed=False); b=ptf.get_mpo_tensor(k,transformed=False)
    print(k,a.shape,b.shape, np.abs(a-b).max() if a.shape==b.shape else None, np.abs(pt.get_cap_tensor(k)-ptf.get_cap_tensor(k)).max())
ptf.close()
