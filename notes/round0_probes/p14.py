import os
os.environ.setdefault("OMP_NUM_THREADS","1")
import numpy as np, oqupy
from scipy.linalg import expm
from scipy.stats import unitary_group
from oqupy import operators as op
rng=np.random.default_rng(5)
d,e,N,dt=2,3,5,0.13
# joint unitary on S(x)E, ordering index (s,b)
Hse=rng.normal(size=(d*e,d*e))+1j*rng.normal(size=(d*e,d*e)); Hse=(Hse+Hse.conj().T)/2
W=expm(-1j*Hse*0.7)
# Liouville superop for rho -> W rho W^dag, row-major vec: kron(W, W.conj())
Mjoint=np.kron(W,W.conj())         # acts on vec index ((s,b),(s',b'))
# reshape to M[s_out,b_out,s'_out,b'_out, s_in,b_in,s'_in,b'_in]
M=Mjoint.reshape(d,e,d,e,d,e,d,e)
# system Liouville index S=(s,s'), env Liouville index B=(b,b')
# tensor[B_in,B_out,S_in,S_out]
T=np.transpose(M,(5,7,1,3,4,6,0,2)).reshape(e*e,e*e,d*d,d*d)
a=rng.normal(size=(e,e))+1j*rng.normal(size=(e,e)); rhoE=a@a.conj().T; rhoE/=np.trace(rhoE)
a=rng.normal(size=(d,d))+1j*rng.normal(size=(d,d)); rho0=a@a.conj().T; rho0/=np.trace(rho0)
pt=oqupy.SimpleProcessTensor(d,dt=None)
trE=np.eye(e).reshape(-1).astype(complex)
for k in range(N):
    t=T
    if k==0: t=np.einsum('a,abcd->bcd',rhoE.reshape(-1),T)[None]
    pt.set_mpo_tensor(k,t)
for k in range(N+1):
    pt.set_cap_tensor(k, np.array([1.0+0j]) if k==0 else trE)
H=rng.normal(size=(d,d))+1j*rng.normal(size=(d,d)); H=(H+H.conj().T)/2
L1=rng.normal(size=(d,d))+1j*rng.normal(size=(d,d))
sysm=oqupy.System(H,[0.3],[L1])
dyn=oqupy.compute_dynamics(sysm,rho0,dt=dt,process_tensor=pt,progress_type='silent')
# dense reference: rho_SE as matrix (d e x d e)
def lind(H,gs,Ls):
    I=np.eye(d); L=-1j*(np.kron(H,I)-np.kron(I,H.T))
    for g,A in zip(gs,Ls):
        AdA=A.conj().T@A
        L+=g*(np.kron(A,A.conj())-0.5*np.kron(AdA,I)-0.5*np.kron(I,AdA.T))
    return L
half=expm(lind(H,[0.3],[L1])*dt/2)
def apply_sys(R,S):
    # R matrix (d e, d e) -> tensor [s,b,s',b']; S acts on (s,s')
    X=R.reshape(d,e,d,e); S4=S.reshape(d,d,d,d)
    return np.einsum('ijkl,kblc->ibjc',S4,X).reshape(d*e,d*e)
R=np.kron(rho0,rhoE); states=[]
for k in range(N+1):
    states.append(np.einsum('ibjb->ij',R.reshape(d,e,d,e)))
    if k==N: break
    R=apply_sys(R,half); R=W@R@W.conj().T; R=apply_sys(R,half)
print("max dev",np.abs(np.array(states)-dyn.states).max(), "times",dyn.times)
# compute_caps check
pt2=oqupy.SimpleProcessTensor(d,dt=dt)
for k in range(N): pt2.set_mpo_tensor(k,pt.get_mpo_tensor(k,transformed=False))
pt2.compute_caps()
print("caps dev",[np.abs(pt2.get_cap_tensor(k)/pt2.get_cap_tensor(k).flat[0]*pt.get_cap_tensor(k).flat[0]-pt.get_cap_tensor(k)).max() for k in range(N+1)], pt2.get_cap_tensor(N))
dyn2=oqupy.compute_dynamics(sysm,rho0,process_tensor=pt2,progress_type='silent')
print("with computed caps dev",np.abs(np.array(states)-dyn2.states).max())
