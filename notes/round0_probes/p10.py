import os, sys, time, threading
os.environ.setdefault("OMP_NUM_THREADS","1")
import numpy as np, oqupy, warnings, io
from oqupy import operators as op
class Boom(Exception): pass
cnt={'n':0}
def Ht(t):
    cnt['n']+=1
    if cnt['n']==6: raise Boom()
    return 0.5*op.sigma('z')
ts=oqupy.TimeDependentSystem(Ht)
rho0=np.array([[0.5,0.5],[0.5,0.5]],dtype=complex)
out=io.StringIO(); so=sys.stdout; sys.stdout=out
try:
    oqupy.compute_dynamics(ts,rho0,dt=0.1,num_steps=10,subdiv_limit=None,progress_type='bar')
except Boom: pass
sys.stdout=so
print("threads right after:",[ (t.name,type(t).__name__) for t in threading.enumerate()])
time.sleep(2.5)
print("threads after 2.5s:",[ (t.name,type(t).__name__) for t in threading.enumerate()])
print("output lines:", out.getvalue().count('\r'))
os._exit(0)
