import os
os.environ.setdefault("OMP_NUM_THREADS","1")
import numpy as np, oqupy, warnings
from scipy.stats import unitary_group
from oqupy import operators as op
corr = oqupy.PowerLawSD(alpha=0.3, zeta=1.0, cutoff=3.0, cutoff_type='gaussian', temperature=0.7)
rng=np.random.default_rng(1)
bad=0;fail=0;n=0
for trial in range(200):
    d=rng.integers(2,6)
    ev=rng.choice([0.0,1.0,-0.5,2.0],size=d)
    V=unitary_group.rvs(d,random_state=rng.integers(1<<30))
    O=V@np.diag(ev)@V.conj().T
    O=(O+O.conj().T)/2
    n+=1
    try:
        b=oqupy.Bath(O,corr)
    except AssertionError as e:
        fail+=1; continue
    U=b.unitary_transform
    dev=np.abs(U.conj().T@U-np.eye(d)).max()
    rec=np.abs(U@b.coupling_operator@U.conj().T-O).max()
    imag=np.abs(b.coupling_operator.imag).max()
    if dev>1e-8 or rec>1e-8 or imag>1e-10:
        bad+=1
        if bad<6: print(d,ev,dev,rec,imag)
print(n,fail,bad)
