import os, warnings, sys, time, io, threading
os.environ.setdefault("OMP_NUM_THREADS","1")
import numpy as np, oqupy
import oqupy.util as u
from oqupy import operators as op
warnings.simplefilter("ignore")
class FastTimer(threading.Timer):
    def __init__(self, interval, function, args=None, kwargs=None):
        super().__init__(interval*0.02, function, args, kwargs)
u.Timer=FastTimer
class Boom(Exception): pass
st={'n':0,'fail':None}
def tick():
    st['n']+=1
    if st['fail'] is not None and st['n']==st['fail']: raise Boom()
def Ht(t): tick(); return 0.5*op.sigma('z')+0.3*np.cos(t)*op.sigma('x')
def Hta(t,a): tick(); return 0.5*op.sigma('z')+np.real(a)*op.sigma('x')
def eom(t,s,a): tick(); return -a+0.1*t
def Hp(x): tick(); return x*op.sigma('x')+0.5*op.sigma('z')
corr=oqupy.PowerLawSD(0.1,1.0,3.0,'gaussian',0.5); bath=oqupy.Bath(0.5*op.sigma('z'),corr)
rho0=np.array([[0.6,0.3],[0.3,0.4]],dtype=complex)
par=oqupy.TempoParameters(dt=0.1,epsrel=1e-8,dkmax=3,subdiv_limit=None)
pt=oqupy.pt_tempo_compute(bath,0.0,0.6+1e-9,par,progress_type='silent')
ts=oqupy.TimeDependentSystem(Ht); mfs=oqupy.MeanFieldSystem([oqupy.TimeDependentSystemWithField(Hta)],eom); ps=oqupy.ParameterizedSystem(Hp)
apis={
 'Tempo': lambda pr: oqupy.Tempo(ts,bath,par,rho0,0.0).compute(0.6+1e-9,progress_type=pr),
 'compute_dynamics': lambda pr: oqupy.compute_dynamics(ts,rho0,process_tensor=pt,subdiv_limit=None,progress_type=pr),
 'MeanFieldTempo': lambda pr: oqupy.MeanFieldTempo(mfs,[bath],par,[rho0],1.0+0j).compute(0.6+1e-9,progress_type=pr),
 'cdwf': lambda pr: oqupy.compute_dynamics_with_field(mfs,1.0+0j,process_tensor_list=[pt],initial_state_list=[rho0],subdiv_limit=None,progress_type=pr),
 'state_gradient': lambda pr: oqupy.state_gradient(ps,rho0,op.sigma('x').T,[pt],np.linspace(0.1,1,2*len(pt)).reshape(-1,1),progress_type=pr),
}
main=threading.main_thread()
for name,fn in apis.items():
    st['n']=0; st['fail']=None
    so=sys.stdout; sys.stdout=io.StringIO(); 
    try: fn('silent')
    finally: sys.stdout=so
    total=st['n']
    leaks=[]
    for j in [2,total//2,total-1]:
        st['n']=0; st['fail']=j
        out=io.StringIO(); so=sys.stdout; sys.stdout=out
        try:
            fn('bar'); res='ok'
        except Boom: res='boom'
        except Exception as e: res=type(e).__name__
        finally: sys.stdout=so
        time.sleep(0.15)
        alive=[t for t in threading.enumerate() if t is not main]
        n1=len(out.getvalue()); time.sleep(0.1); n2=len(out.getvalue())
        leaks.append((j,res,len(alive),n2-n1))
        # kill chain
        for _ in range(200):
            al=[t for t in threading.enumerate() if t is not main]
            if not al: break
            for t in al: t.cancel()
            time.sleep(0.005)
    print(name,"calls",total,"-> (fault idx, outcome, alive threads, bytes after)",leaks)
os._exit(0)
