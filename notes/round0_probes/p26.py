import os, warnings, sys, time, io, contextlib
os.environ.setdefault("OMP_NUM_THREADS","1")
import numpy as np, oqupy
from oqupy import operators as op
warnings.simplefilter("ignore")
np.set_printoptions(precision=5,linewidth=200)
corr=oqupy.PowerLawSD(0.2,1.0,3.0,'gaussian',0.5)
bath=oqupy.Bath(0.5*op.sigma('z'),corr)
rho0=np.array([[0.6,0.3-0.1j],[0.3+0.1j,0.4]])
par=oqupy.TempoParameters(dt=0.1,epsrel=1e-9,dkmax=3,subdiv_limit=None)
class Boom(Exception): pass
state={'n':0,'fail':None}
def eom(t,states,a):
    state['n']+=1
    if state['fail'] is not None and state['n']==state['fail']: raise Boom()
    return -0.5*a-0.3j*np.trace(op.sigma('x')@states[0]).real+0.1*t
Hs=lambda t,a: 0.5*op.sigma('z')+np.real(a)*op.sigma('x')
mfs=oqupy.MeanFieldSystem([oqupy.TimeDependentSystemWithField(Hs)],eom)
state['n']=0
ref=oqupy.MeanFieldTempo(mfs,[bath],par,[rho0],0.5+0j,start_time=0.0).compute(0.5+1e-9,progress_type='silent')
total=state['n']; print("eom calls in clean run",total)
bad=[]
for j in range(1,total+1):
    state['n']=0; state['fail']=None
    m=oqupy.MeanFieldTempo(mfs,[bath],par,[rho0],0.5+0j,start_time=0.0)
    state['n']=0; state['fail']=j
    try:
        m.compute(0.5+1e-9,progress_type='silent'); out="nofail"
    except Boom: out="boom"
    state['fail']=None
    try:
        d=m.compute(0.5+1e-9,progress_type='silent')
        same=len(d)==len(ref) and np.allclose(d.times,ref.times) and np.abs(d.fields-ref.fields).max()<1e-9 and np.abs(d.system_dynamics[0].states-ref.system_dynamics[0].states).max()<1e-8
        if not same: bad.append((j,len(d),float(np.abs(d.fields[:min(len(d),len(ref))]-ref.fields[:min(len(d),len(ref))]).max())))
    except Exception as e:
        pass
print("mean-field retry mismatches at fault index:",bad)
# C18 mixed int/float
A=op.left_super(op.sigma('+')); B=op.left_super(op.sigma('x'))
sysm=oqupy.System(np.zeros((2,2)))
for order in ['int-then-float','float-then-int']:
  for post in [False,True]:
    c=oqupy.Control(2)
    if order=='int-then-float': c.add_single(1,A,post=post); c.add_single(0.1,B,post=post)
    else: c.add_single(0.1,A,post=post); c.add_single(1,B,post=post)
    with contextlib.redirect_stdout(io.StringIO()):
        d=oqupy.compute_dynamics(sysm,rho0,dt=0.1,num_steps=3,control=c,progress_type='silent')
    k=2 if post else 1
    AB=(B@A@rho0.reshape(-1)).reshape(2,2); BA=(A@B@rho0.reshape(-1)).reshape(2,2)
    print(order,"post" if post else "pre","A-then-B" if np.allclose(d.states[k],AB) else ("B-then-A" if np.allclose(d.states[k],BA) else "other"))
# C20 PtTebdParameters aliasing
chain=oqupy.SystemChain([2,2]); chain.add_site_hamiltonian(0,op.sigma('x')); chain.add_nn_hamiltonian(0,op.sigma('z'),op.sigma('z'))
mps=oqupy.AugmentedMPS([op.spin_dm('z-')]*2)
prm=oqupy.PtTebdParameters(dt=0.1,epsrel=1e-9)
p=oqupy.PtTebd(mps,chain,[None,None],prm,dynamics_sites=[0])
prm.dt=0.2
r=p.compute(2,progress_type='silent'); print("PtTebd built with dt=0.1, params.dt later set 0.2 -> times",r['time'])
