import os, time
os.environ.setdefault("OMP_NUM_THREADS","1")
import numpy as np, oqupy
from oqupy import operators as op
rng=np.random.default_rng(3)
corr = oqupy.PowerLawSD(alpha=0.3, zeta=1.0, cutoff=3.0, cutoff_type='gaussian', temperature=0.7)
dt=0.1; N=6
par = oqupy.TempoParameters(dt=dt, epsrel=1e-10, dkmax=None)
pt=oqupy.pt_tempo_compute(oqupy.Bath(0.5*op.sigma('z'),corr),0.0,N*dt+1e-9,par,progress_type='silent')
n=3
chain=oqupy.SystemChain([2]*n)
for i in range(n): chain.add_site_hamiltonian(i,0.3*(i+1)*op.sigma('x'))
for i in range(n-1): chain.add_nn_hamiltonian(i,0.7*op.sigma('z'),op.sigma('z')); chain.add_nn_hamiltonian(i,0.4*op.sigma('x'),op.sigma('x'))
mps=oqupy.AugmentedMPS([op.spin_dm('z-'),op.spin_dm('x+'),op.spin_dm('y+')])
pts=[pt,None,pt]
prm=oqupy.PtTebdParameters(dt=dt,epsrel=1e-10,order=2)
ref=oqupy.PtTebd(mps,chain,pts,prm,dynamics_sites=[0,1,2],start_time=0.5).compute(N,progress_type='silent')
# split calls
p=oqupy.PtTebd(mps,chain,pts,prm,dynamics_sites=[0,1,2],start_time=0.5)
for tgt in [2,2,1,4,6,3]:
    r=p.compute(tgt,progress_type='silent')
print("split dev",max(np.abs(r['dynamics'][s].states-ref['dynamics'][s].states).max() for s in range(3)), r['time'])
# restart
p=oqupy.PtTebd(mps,chain,pts,prm,dynamics_sites=[0,1,2],start_time=0.5)
p.compute(2,progress_type='silent')
m2=p.get_augmented_mps()
q=oqupy.PtTebd(m2,chain,pts,prm,dynamics_sites=[0,1,2],start_time=0.5+2*dt,start_step=2)
r2=q.compute(N,progress_type='silent')
print("restart times",r2['time'])
print("restart dev",max(np.abs(r2['dynamics'][s].states-ref['dynamics'][s].states[2:]).max() for s in range(3)))
