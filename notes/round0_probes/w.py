import os, sys, signal
os.environ.setdefault("OMP_NUM_THREADS","1")
import numpy as np, oqupy
import oqupy.process_tensor as ptm
from oqupy import operators as op
mode=sys.argv[1]; k=int(sys.argv[2]); fn=sys.argv[3]
pt=oqupy.SimpleProcessTensor(2,dt=0.1)
rng=np.random.default_rng(0)
for s in range(3):
    pt.set_mpo_tensor(s, rng.normal(size=(1 if s==0 else 3, 1 if s==2 else 3,4,4)))
pt.compute_caps()
cnt={'n':0}
orig=ptm._set_data_and_shape
def die():
    if mode=='kill': os.kill(os.getpid(),signal.SIGKILL)
    if mode=='_exit': os._exit(3)
    if mode=='exc': raise RuntimeError("boom")
    if mode=='term': os.kill(os.getpid(),signal.SIGTERM)
    if mode=='int': os.kill(os.getpid(),signal.SIGINT)
def hook(*a,**kw):
    cnt['n']+=1
    if cnt['n']==k: die()
    return orig(*a,**kw)
ptm._set_data_and_shape=hook
pt.export(fn)
print("completed", cnt['n'])
