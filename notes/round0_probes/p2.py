import os
os.environ.setdefault("OMP_NUM_THREADS","1")
import numpy as np, oqupy, warnings
from oqupy import operators as op
corr = oqupy.PowerLawSD(alpha=0.3, zeta=1.0, cutoff=3.0, cutoff_type='gaussian', temperature=0.7)
bath = oqupy.Bath(0.5*op.sigma('z'), corr)
rho0 = np.array([[0.5,0.5],[0.5,0.5]],dtype=complex)
for H in [0.7*op.sigma('z'), 0.7*op.sigma('z')+0.4*op.sigma('x')]:
  sysm = oqupy.System(H)
  for K,tau in [(None,None),(3,None),(3,0.0),(3,0.15),(3,0.25),(3,np.inf),(1,np.inf),(10,0.2),(8,0.2),(7,0.2)]:
    par = oqupy.TempoParameters(dt=0.1, epsrel=1e-10, dkmax=K, add_correlation_time=tau)
    dyn = oqupy.tempo_compute(sysm,bath,rho0,0.0,0.8,par,progress_type='silent')
    pt = oqupy.pt_tempo_compute(bath,0.0,0.8,par,progress_type='silent')
    d2 = oqupy.compute_dynamics(sysm, rho0, process_tensor=pt, progress_type='silent')
    print(K,tau,len(dyn),len(d2), np.abs(d2.states-dyn.states).max(axis=(1,2)).round(10))
