import os, warnings, sys, time, io, contextlib
os.environ.setdefault("OMP_NUM_THREADS","1")
import numpy as np, oqupy
from oqupy import operators as op
warnings.simplefilter("ignore")
def variants(a):
    a=np.array(a,dtype=complex)
    out={'C':np.ascontiguousarray(a),'F':np.asfortranarray(a),'Tview':np.ascontiguousarray(a.T).T}
    big=np.zeros((2*a.shape[0],2*a.shape[1]),complex); big[::2,::2]=a; out['strided']=big[::2,::2]
    ro=a.copy(); ro.setflags(write=False); out['readonly']=ro
    return out
corr=oqupy.PowerLawSD(0.2,1.0,3.0,'gaussian',0.5)
par=oqupy.TempoParameters(dt=0.1,epsrel=1e-9,dkmax=3)
H=0.4*op.sigma('x')+0.3*op.sigma('z')+0.2*op.sigma('y'); O=0.5*op.sigma('z')+0.2*op.sigma('y'); rho=np.array([[0.7,0.2-0.1j],[0.2+0.1j,0.3]])
L=op.sigma('-')+0.1j*op.sigma('z')
pt=oqupy.pt_tempo_compute(oqupy.Bath(O,corr),0.0,0.4+1e-9,par,progress_type='silent')
ref=None
def run(kind,hv,ov,rv,lv):
    res={}
    b=oqupy.Bath(ov,corr); s=oqupy.System(hv,[0.1],[lv])
    res['tempo']=oqupy.Tempo(s,b,par,rv,0.0).compute(0.4+1e-9,progress_type='silent').states
    res['cd']=oqupy.compute_dynamics(s,rv,process_tensor=pt,progress_type='silent').states
    res['corr']=np.nan_to_num(oqupy.compute_correlations(s,pt,hv,ov,slice(None),slice(None),initial_state=rv,progress_type='silent')[1])
    ps=oqupy.ParameterizedSystem(lambda x: x*hv)
    res['grad']=oqupy.state_gradient(ps,rv,ov,[pt],np.linspace(0.3,1,2*len(pt)).reshape(-1,1).copy(order='F'),progress_type='silent')['gradient']
    ch=oqupy.SystemChain([2,2]); ch.add_site_hamiltonian(0,hv); ch.add_nn_hamiltonian(0,ov,hv); ch.add_site_dissipation(1,lv,0.2)
    cc=oqupy.ChainControl([2,2]); cc.add_single_site_control(op.left_super(ov),0,1)
    p=oqupy.PtTebd(oqupy.AugmentedMPS([rv,rv]),ch,[None,pt],oqupy.PtTebdParameters(0.1,1e-9),chain_control=cc,dynamics_sites=[0,1])
    r=p.compute(3,progress_type='silent'); res['tebd']=np.array([r['dynamics'][0].states,r['dynamics'][1].states])
    c=oqupy.Control(2); c.add_single(1,op.left_super(ov))
    res['ctrl']=oqupy.compute_dynamics(s,rv,process_tensor=pt,control=c,progress_type='silent').states
    return res
hv,ov,rv,lv=variants(H),variants(O),variants(rho),variants(L)
ref=run('C',hv['C'],ov['C'],rv['C'],lv['C'])
for k in ['F','Tview','strided','readonly']:
    before=[x[k].copy() for x in (hv,ov,rv,lv)]
    for api in ref:
        pass
    try:
        r=run(k,hv[k],ov[k],rv[k],lv[k])
        print(k,{a:float(np.abs(r[a]-ref[a]).max()) for a in ref},"inputs unchanged",all(np.array_equal(b,x[k]) for b,x in zip(before,(hv,ov,rv,lv))))
    except Exception as e:
        import traceback; tb=traceback.extract_tb(e.__traceback__)[-1]
        print(k,"EXC",type(e).__name__,str(e)[:70],"at",tb.filename.split('/')[-1],tb.lineno)
