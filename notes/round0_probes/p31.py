import os, warnings
os.environ.setdefault("OMP_NUM_THREADS","1")
import numpy as np, oqupy
warnings.simplefilter("ignore")
np.set_printoptions(precision=3,linewidth=220)
exec(open('p12.py').read().split("alpha,zeta,wc,ctype,T=")[0])
alpha,zeta,wc,ctype,T=2.0,0.5,3.0,'hard',5.0
eta=make_eta(alpha,zeta,wc,ctype,T)
corr = oqupy.PowerLawSD(alpha=alpha, zeta=zeta, cutoff=wc, cutoff_type=ctype, temperature=T)
o=np.array([1.0,-0.5,2.0]); E=np.array([0.3,-0.2,0.9])
rho0=np.ones((3,3),complex)/3
dt=0.1;N=8
for eps in [1e-9,1e-12]:
  for K,tau in [(3,np.inf),(3,0.3)]:
    par = oqupy.TempoParameters(dt=dt, epsrel=eps, dkmax=K, add_correlation_time=tau)
    dyn = oqupy.tempo_compute(oqupy.System(np.diag(E)),oqupy.Bath(np.diag(o),corr),rho0,0.0,N*dt+1e-9,par,progress_type='silent')
    S=S_list(eta,dt,N,K,tau)
    for n in range(N+1):
        ph=np.exp(-1j*np.subtract.outer(E,E)*n*dt); om=np.subtract.outer(o,o); opl=np.add.outer(o,o)
        ana=rho0*ph*np.exp(-om*(S[n].real*om+1j*S[n].imag*opl))
        e=np.abs(ana-dyn.states[n])
        print(eps,K,tau,n,"err",e.max().round(12),"|ana| offdiag",np.abs(ana[0,1]).round(12),np.abs(ana[0,2]).round(12),"lib",np.abs(dyn.states[n][0,1]).round(12),np.abs(dyn.states[n][0,2]).round(12), "tr",np.trace(dyn.states[n]).real.round(6))
