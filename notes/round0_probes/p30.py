import os, warnings, sys, time, threading, itertools
os.environ.setdefault("OMP_NUM_THREADS","1")
import concurrent.futures
import numpy as np, oqupy
import oqupy.backends.pt_tebd_backend as be
from oqupy import operators as op
warnings.simplefilter("ignore")
N=6
chain=oqupy.SystemChain([2]*N)
rng=np.random.default_rng(0)
for n in range(N): chain.add_site_hamiltonian(n,0.3*(n+1)*op.sigma('x')+0.2*op.sigma('y'))
for n in range(N-1): chain.add_nn_hamiltonian(n,0.7*op.sigma('z'),op.sigma('z')); chain.add_nn_hamiltonian(n,0.3*op.sigma('x'),op.sigma('y'))
mps=oqupy.AugmentedMPS([op.spin_dm('z-'),op.spin_dm('x+')]*3)
def run(cfg):
    p=oqupy.PtTebd(mps,chain,[None]*N,oqupy.PtTebdParameters(dt=0.1,epsrel=1e-9,order=2),dynamics_sites=list(range(N)),backend_config=cfg)
    r=p.compute(2,progress_type='silent'); return np.array([r['dynamics'][s].states for s in range(N)])
ref=run({})
orig=be.apply_nn_gate
log=[]; lock=threading.Lock()
class Turnstile:
    def __init__(self,perm): self.perm=perm; self.reset()
    def reset(self): self.cv=threading.Condition(); self.done=0; self.batch=None
pol={'perm':None}
layer_state={'sites':None,'cv':threading.Condition(),'finished':[]}
def wrapped(input_data):
    out=orig(input_data)
    site=input_data[0]
    ls=layer_state
    with ls['cv']:
        # order rank of this site among the sites in its layer (even or odd layer)
        sites=sorted(range(site%2, N-1, 2)); g=len(sites)
        perm=pol['perm'][:g] if len(pol['perm'])>=g else pol['perm']
        order=[sites[i] for i in sorted(range(g),key=lambda i: perm[i] if i<len(perm) else i)]
        # wait until all sites before me in 'order' have finished in this layer round
        my=order.index(site)
        ok=ls['cv'].wait_for(lambda: len(ls['finished'])%g==my, timeout=5)
        ls['finished'].append(site)
        log.append((site,ok))
        ls['cv'].notify_all()
    return out
be.apply_nn_gate=wrapped
seen=set()
for perm in itertools.permutations(range(3)):
    pol['perm']=list(perm); layer_state['finished']=[]; del log[:]
    r=run({'parallel':'multithread'})
    # observed completion order of first even layer
    first=[s for s,_ in log[:3]]
    seen.add(tuple(first))
    print(perm,"first even layer completion order",first,"all waits ok",all(o for _,o in log),"dev",np.abs(r-ref).max())
print("distinct orders observed",len(seen))
