import os, sys, signal
os.environ.setdefault("OMP_NUM_THREADS","1")
import numpy as np, oqupy
import oqupy.process_tensor as ptm
mode=sys.argv[1]; k=int(sys.argv[2]); fn=sys.argv[3]; bond=int(sys.argv[4]); n=int(sys.argv[5])
pt=oqupy.SimpleProcessTensor(2,dt=0.1)
rng=np.random.default_rng(0)
for s in range(n):
    pt.set_mpo_tensor(s, rng.normal(size=(1 if s==0 else bond, 1 if s==n-1 else bond,4,4)))
pt._cap_tensors=[np.ones(1 if s in (0,n) else bond,complex) for s in range(n+1)]
cnt={'n':0}
orig=ptm._set_data_and_shape
def hook(*a,**kw):
    cnt['n']+=1
    if cnt['n']==k:
        if mode=='kill': os.kill(os.getpid(),signal.SIGKILL)
        if mode=='exc': raise RuntimeError("boom")
    return orig(*a,**kw)
ptm._set_data_and_shape=hook
pt.export(fn)
print("completed", cnt['n'])
