import os, sys, time
os.environ.setdefault("OMP_NUM_THREADS","1")
import numpy as np, oqupy, warnings, io
from oqupy import operators as op
np.set_printoptions(precision=5,linewidth=200)
# C18: Control order: prepare |x+> then apply sz-left map, non commuting
A=op.left_super(op.sigma('+'))   # rho -> s+ rho
B=op.left_super(op.sigma('x'))
rho0=np.array([[0.3,0.1],[0.1,0.7]],dtype=complex)
sysm=oqupy.System(np.zeros((2,2)))
c=oqupy.Control(2); c.add_single(1,A); c.add_single(1,B)
d=oqupy.compute_dynamics(sysm,rho0,dt=0.1,num_steps=2,control=c,progress_type='silent')
expAB=(B@A@rho0.reshape(-1)).reshape(2,2)
print("Control: A then B?",np.allclose(d.states[1],expAB), "B then A?",np.allclose(d.states[1],(A@B@rho0.reshape(-1)).reshape(2,2)))
cc=oqupy.ChainControl([2,2]); cc.add_single_site_control(A,0,1); cc.add_single_site_control(B,0,1)
chain=oqupy.SystemChain([2,2])
mps=oqupy.AugmentedMPS([rho0,rho0])
p=oqupy.PtTebd(mps,chain,[None,None],oqupy.PtTebdParameters(dt=0.1,epsrel=1e-12),chain_control=cc,dynamics_sites=[0,1])
r=p.compute(2,progress_type='silent')
s=r['dynamics'][0].states[1]
# normalisation? norm of chain
print("Chain: A then B?",np.allclose(s,expAB*np.trace(rho0)), "B then A?",np.allclose(s,(A@B@rho0.reshape(-1)).reshape(2,2)),s, r['norm'])
# C20 cache
corr = oqupy.PowerLawSD(alpha=0.3, zeta=1.0, cutoff=3.0, cutoff_type='exponential', temperature=0.0)
e1=corr.correlation_2d_integral(0.1,0.0,shape='upper-triangle'); c1=corr.correlation(0.1)
bath=oqupy.Bath(op.sigma('z'),corr)
corr.alpha=0.6
e2=corr.correlation_2d_integral(0.1,0.0,shape='upper-triangle'); c2=corr.correlation(0.1)
print("after alpha*2: corr ratio",c2/c1,"eta ratio",e2/e1)
print("bath's correlations (built earlier) corr ratio", bath.correlations.correlation(0.1)/c1, "eta ratio",bath.correlations.correlation_2d_integral(0.1,0.0,shape='upper-triangle')/e1)
corr2 = oqupy.PowerLawSD(alpha=0.3, zeta=1.0, cutoff=3.0, cutoff_type='exponential', temperature=0.5)
e1=corr2.correlation_2d_integral(0.1,0.0,shape='upper-triangle'); c1=corr2.correlation(0.1)
corr2.temperature=5.0
e2=corr2.correlation_2d_integral(0.1,0.0,shape='upper-triangle'); c2=corr2.correlation(0.1)
print("after T change: corr ratio",c2/c1,"eta ratio",e2/e1)
