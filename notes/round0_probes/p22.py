import os, warnings
os.environ.setdefault("OMP_NUM_THREADS","1")
import numpy as np, oqupy
warnings.simplefilter("ignore")
np.set_printoptions(precision=4,linewidth=200)
corr=oqupy.PowerLawSD(0.26,0.5,3.0,'exponential',7.77)
ov=np.array([0.5,1.0,-1.0]); 
rng=np.random.default_rng(0)
for Hscale in [0.0,1.0]:
  for eps in [1e-6,1e-8]:
    a=rng.normal(size=(3,3))+1j*rng.normal(size=(3,3)); Hs=Hscale*(a+a.conj().T)/2
    s=oqupy.System(Hs)
    rho0=np.ones((3,3),complex)/3
    par=oqupy.TempoParameters(dt=0.2,epsrel=eps,dkmax=None)
    t=oqupy.Tempo(s,oqupy.Bath(np.diag(ov),corr),par,rho0,0.0)
    dyn=t.compute(2.0+1e-9,progress_type='silent')
    tr=np.trace(dyn.states,axis1=1,axis2=2)
    print(Hscale,eps,"trace:",np.abs(tr-1).round(6), "bond",t._backend_instance._mps.bond_dimensions)
