import os, warnings, sys, time
os.environ.setdefault("OMP_NUM_THREADS","1")
import numpy as np, oqupy
from scipy.linalg import expm
from oqupy import operators as op
warnings.simplefilter("ignore")
np.set_printoptions(precision=6,linewidth=200)
rng=np.random.default_rng(2)
def rh(d):
    a=rng.normal(size=(d,d))+1j*rng.normal(size=(d,d)); return (a+a.conj().T)/2
rho0=np.array([[0.6,0.3-0.1j],[0.3+0.1j,0.4]])
dt=0.1;N=6
par=oqupy.TempoParameters(dt=dt,epsrel=1e-10,dkmax=None)
c1=oqupy.PowerLawSD(0.1,1.0,3.0,'gaussian',0.5); c2=oqupy.PowerLawSD(0.25,1.0,3.0,'gaussian',0.5); c12=oqupy.PowerLawSD(0.35,1.0,3.0,'gaussian',0.5)
c3=oqupy.PowerLawSD(0.2,3.0,2.0,'exponential',0.5)
csum=oqupy.CustomSD(lambda w: 2*0.1*w*np.exp(-(w/3.0)**2)+2*0.2*w**3/4.0*np.exp(-w/2.0),120.0,'hard',0.5)
Oz=0.5*op.sigma('z'); Ox=0.5*op.sigma('x')
mk=lambda O,c: oqupy.pt_tempo_compute(oqupy.Bath(O,c),0.0,N*dt+1e-9,par,progress_type='silent')
p1,p2,p12=mk(Oz,c1),mk(Oz,c2),mk(Oz,c12)
s=oqupy.System(rh(2),[0.1],[rh(2)])
run=lambda pts: oqupy.compute_dynamics(s,rho0,process_tensor=pts,progress_type='silent').states
print("sum of SD (alpha add):",np.abs(run([p1,p2])-run([p12])).max(), "order swap (same op):",np.abs(run([p1,p2])-run([p2,p1])).max())
p3=mk(Oz,c3); ps=mk(Oz,csum)
print("sum of SD (custom j1+j3):",np.abs(run([p1,p3])-run([ps])).max())
px=mk(Ox,c2)
print("non-commuting envs order swap:",np.abs(run([p1,px])-run([px,p1])).max(), "(expected O(dt^2) Trotter difference, not a defect)")
# C09 autonomous eom differential
eom=lambda t,st,a: -(1j+1)*a-0.5j*np.trace(op.sigma('x')@st[0]).real
Hs=lambda t,a: 0.5*op.sigma('z')+np.real(a)*op.sigma('x')
mfs=oqupy.MeanFieldSystem([oqupy.TimeDependentSystemWithField(Hs)],eom)
b=oqupy.Bath(Oz,c1)
par2=oqupy.TempoParameters(dt=dt,epsrel=1e-10,dkmax=None,subdiv_limit=None)
m=oqupy.MeanFieldTempo(mfs,[b],par2,[rho0],1.0+0j,start_time=0.3).compute(0.3+N*dt+1e-9,progress_type='silent')
pt=oqupy.pt_tempo_compute(b,0.3,0.3+N*dt+1e-9,par2,progress_type='silent')
d=oqupy.compute_dynamics_with_field(mfs,1.0+0j,process_tensor_list=[pt],initial_state_list=[rho0],start_time=0.3,subdiv_limit=None,progress_type='silent')
print("autonomous eom: field dev",np.abs(m.fields-d.fields).max(),"state dev",np.abs(m.system_dynamics[0].states-d.system_dynamics[0].states).max())
# C11 phase covariance + weak coupling
T=0.7
H=np.array([[0.3,0.4-0.3j],[0.4+0.3j,-0.2]])
V=np.diag([1,np.exp(0.9j)])
def gib(H,alpha,n=12):
    return oqupy.gibbs_tempo_compute(oqupy.System(H),oqupy.Bath(np.diag([0.5,-0.5]),oqupy.PowerLawSD(alpha,1.0,3.0,'exponential',T)),oqupy.GibbsParameters(n,1e-10),progress_type='silent')
r=gib(H,0.2); rv=gib(V@H@V.conj().T,0.2)
print("gibbs phase covariance dev (alpha=0.2):",np.abs(rv-V@r@V.conj().T).max(), " vs transposed relation:",np.abs(rv-V.conj()@r@V.T).max())
g0=expm(-H/T); g0/=np.trace(g0)
for a in [1e-2,1e-3,1e-4,0.0]:
    r=gib(H,a,40); print("alpha",a,"dev from canonical",np.abs(r-g0).max(),"dev from transposed canonical",np.abs(r-g0.T).max())
