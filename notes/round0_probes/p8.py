import os, sys, time, threading
os.environ.setdefault("OMP_NUM_THREADS","1")
import concurrent.futures
import numpy as np, oqupy, warnings
print("concurrent.futures preloaded:", 'concurrent.futures' in sys.modules)
from oqupy import operators as op
np.set_printoptions(precision=6,linewidth=200)
N=4
chain=oqupy.SystemChain([2]*N)
for n in range(N): chain.add_site_hamiltonian(n,0.3*(n+1)*op.sigma('x'))
for n in range(N-1): chain.add_nn_hamiltonian(n,0.7*op.sigma('z'),op.sigma('z'))
mps=oqupy.AugmentedMPS([op.spin_dm('z-')]*N)
res={}
for mode in [None,'multithread','multiprocess']:
    cfg={} if mode is None else {'parallel':mode}
    t=time.time()
    try:
        p=oqupy.PtTebd(mps,chain,[None]*N,oqupy.PtTebdParameters(dt=0.1,epsrel=1e-9,order=2),dynamics_sites=list(range(N)),backend_config=cfg)
        r=p.compute(3,progress_type='silent')
        res[mode]=np.array([r['dynamics'][s].states for s in range(N)])
        print(mode,"ok",time.time()-t, "norm",r['norm'])
    except Exception as e:
        print(mode,"EXC",type(e).__name__,str(e)[:100])
for m in res:
    print(m, np.abs(res[m]-res[None]).max())
# C20 transposed dm
try:
    oqupy.AugmentedMPS([op.spin_dm('y+').T]*N); print("transposed ok")
except Exception as e: print("AugmentedMPS transposed EXC",type(e).__name__,str(e)[:100])
