"""pytest plugin: runs the repository's own tests with the harness contracts
attached (Bath class invariant; physicality of Tempo / MeanFieldTempo results
with the epsrel the test itself requested). Violations are recorded, never
raised, and written to $VP_CONTRACT_OUT.<pid>.json at session end.

    pytest -p vp.pytest_contracts <repo>/tests
"""
import json
import os


def pytest_configure(config):
    import icontract
    import numpy as np
    import oqupy
    from vp.mon import contracts
    contracts.install_bath_contract()
    phys = contracts.PHYS

    def tempo_post(self, result):
        try:
            phys.epsrel = float(self._parameters.epsrel)
            phys.positive = self._parameters.dkmax is None
            phys.c = 1000.0      # repository tests use loose tolerances and
            #                      strong couplings outside the conditioning
            #                      guard: only gross defects are reported here
            phys.check_states("repo-tests:Tempo.compute", list(result.states))
        except Exception:
            pass
        return True

    def mf_post(self, result):
        try:
            phys.epsrel = float(self._parameters.epsrel)
            phys.positive = self._parameters.dkmax is None
            phys.c = 1000.0
            for dyn in result.system_dynamics:
                phys.check_states("repo-tests:MeanFieldTempo.compute",
                                  list(dyn.states))
        except Exception:
            pass
        return True
    oqupy.Tempo.compute = icontract.ensure(
        tempo_post, error=contracts.ContractViolation)(oqupy.Tempo.compute)
    oqupy.MeanFieldTempo.compute = icontract.ensure(
        mf_post, error=contracts.ContractViolation)(
            oqupy.MeanFieldTempo.compute)


def pytest_sessionfinish(session, exitstatus):
    from vp.mon import contracts
    out = os.environ.get("VP_CONTRACT_OUT")
    if not out:
        return
    rec = contracts.REC
    with open(f"{out}.{os.getpid()}.json", "w") as f:
        json.dump({"evals": rec.evals, "violations": rec.violations,
                   "worst": rec.worst, "exitstatus": int(exitstatus)}, f)
