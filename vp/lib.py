"""Thin drivers around the library's three propagation methods, shared by the
differential / metamorphic checks (C04, C05, C06, C09, C15 ...)."""
import numpy as np

from vp import gen
from vp.ref import bath as rbath
from vp.ref import models


def tempo_params(dt, epsrel, kmax=None, tau=None, subdiv_limit=256,
                 as_tcut=None):
    """as_tcut: give the memory length as a time - "literal" (kmax*dt as a
    user writes it, e.g. 0.3 for three steps of 0.1) or "inside" (a time
    0.4 dt short of kmax steps, which rounds to kmax)."""
    import oqupy
    kw = dict(dt=dt, epsrel=epsrel, dkmax=kmax, subdiv_limit=subdiv_limit)
    if kmax is not None and as_tcut is not None:
        del kw["dkmax"]
        kw["tcut"] = float(repr(round(kmax * dt, 10))) \
            if as_tcut == "literal" else (kmax - 0.4) * dt
    if kmax is not None and tau is not None:
        kw["add_correlation_time"] = tau
    return oqupy.TempoParameters(**kw)


def pt_growth(nsteps):
    """Amplification of the PT-TEMPO truncation error with the number of
    steps. Calibrated on the unchanged tree (weak-coupling commuting model vs
    closed form, epsrel 1e-7..1e-10): err/(epsrel*scale) <= 1, 4.5, 7, 30, 161
    for N = 3, 5, 7, 9, 11 (TEMPO itself stays <= 2 for all N): the relative
    SVD cut-off refers to the norm of the process tensor, not to the physical
    state. (N/5)^6 follows that growth; the constant c=100 stays on top."""
    return max(1.0, nsteps / 5.0) ** 6


def end_time(start, dt, nsteps, on_grid=False):
    """An end time safely inside step N (insensitive to grid rounding), or
    the grid point itself as a user computes it (start + N*dt in floats)."""
    if on_grid:
        return start + nsteps * dt
    return start + (nsteps + 0.4) * dt


def run_tempo(system, oper, corr, rho0, start, dt, nsteps, params, unique,
              on_grid=False):
    import oqupy
    bath = oqupy.Bath(oper, corr)
    t = oqupy.Tempo(system, bath, params, rho0, start, unique=unique)
    return t.compute(end_time(start, dt, nsteps, on_grid),
                     progress_type="silent")


def run_pt(system, oper, corr, rho0, start, dt, nsteps, params, unique,
           subdiv_limit=256, file_backed=False, reimport=None, on_grid=False,
           used_before=False):
    """PT-TEMPO + compute_dynamics; with file_backed the process tensor is
    computed straight into an HDF5 file (removed afterwards)."""
    import oqupy
    return run_pt_bath(system, oqupy.Bath(oper, corr), rho0, start, dt,
                       nsteps, params, unique, subdiv_limit, file_backed,
                       reimport, on_grid, used_before=used_before)


def run_pt_bath(system, bath, rho0, start, dt, nsteps, params, unique,
                subdiv_limit=256, file_backed=False, reimport=None,
                on_grid=False, num_steps=None, end=None, reopen=None,
                used_before=False):
    """run_pt for a ready-made Bath. file_backed: True (own temporary file
    name) or "auto" (process_tensor_file=True: the library picks the file).
    used_before: the process tensor object has served another propagation
    (other initial state) before the one that is returned."""
    import os
    import tempfile
    import oqupy
    fn = None
    if file_backed == "auto":
        fn = True
    elif file_backed:
        fd, fn = tempfile.mkstemp(prefix="vp_pt_", suffix=".hdf5")
        os.close(fd)
        os.remove(fn)
    try:
        pt = oqupy.pt_tempo_compute(bath, start,
                                    end if end is not None else
                                    end_time(start, dt, nsteps, on_grid),
                                    params, unique=unique,
                                    process_tensor_file=fn,
                                    progress_type="silent")
        fn2 = None
        pt_orig = pt
        if reopen is not None and isinstance(fn, str):
            # the file written by the computation, closed and opened again
            pt.close()
            pt = oqupy.import_process_tensor(fn, reopen)
            pt_orig = pt
        if reimport is not None:
            fd, fn2 = tempfile.mkstemp(prefix="vp_pt_", suffix=".hdf5")
            os.close(fd)
            os.remove(fn2)
            pt.export(fn2)
            pt = oqupy.import_process_tensor(fn2, reimport)
        try:
            if used_before:
                dd_ = np.asarray(rho0).shape[0]
                oqupy.compute_dynamics(
                    system, np.identity(dd_, dtype=complex) / dd_,
                    start_time=start, process_tensor=pt,
                    subdiv_limit=subdiv_limit, progress_type="silent")
            dyn = oqupy.compute_dynamics(system, rho0, start_time=start,
                                         process_tensor=pt,
                                         num_steps=num_steps,
                                         subdiv_limit=subdiv_limit,
                                         progress_type="silent")
        finally:
            if fn2 is not None:
                if hasattr(pt, "close"):
                    pt.close()
                import gc
                gc.collect()
                if os.path.exists(fn2):
                    os.remove(fn2)
    finally:
        if fn is True:
            try:
                pt_orig.remove()  # the library's own temporary file
            except Exception:   # noqa
                pass
        elif fn is not None:
            try:
                pt_orig.close()
            except Exception:   # noqa
                pass
            if os.path.exists(fn):
                os.remove(fn)
    return dyn


def guard_coupling(p, o, dt, nsteps, kmax, tau, rng):
    """Rescale the coupling eigenvalues into the conditioning guard; returns
    (o, R, scale) where scale is the magnitude for tolerance bounds."""
    eta_f = lambda t: rbath.eta(p, t)
    _, re_abs = models.memory_sums(eta_f, dt, nsteps, kmax, tau)
    o = np.array(o, float)
    rm = gen.conditioning(re_abs, o)
    if rm > gen.R_MAX:
        o = o * np.sqrt(gen.R_MAX * rng.uniform(0.3, 0.95) / rm)
        rm = gen.conditioning(re_abs, o)
    spread = float(o.max() - o.min())
    eta_mag = sum(abs(eta_f(k * dt)) for k in range(1, nsteps + 2))
    return o, rm, 1.0 + spread ** 2 * eta_mag


class MeanFieldModel:
    """A mean-field model with nsys systems that can be written in a rotated
    basis (per-system unitary V_k) and shifted in time (tshift):
        H_k(t,a) = V_k [H0_k + (Re a) X_k + cos(w (t-ts)) Y_k] V_k^dag
        da/dt   = -(kappa + i om) a - i sum_k g_k Tr(V_k Z_k V_k^dag rho_k)
                  + c0 + c1 (t - ts)
    """

    def __init__(self, rng, dims, time_dependent=True, state_dependent=True,
                 field_coupled=True):
        self.dims = dims
        self.h0 = [gen.rand_herm(rng, d, 0.6) for d in dims]
        self.x = [gen.rand_herm(rng, d, 0.4) for d in dims]
        self.y = [gen.rand_herm(rng, d, 0.3) for d in dims]
        self.z = [gen.rand_herm(rng, d, 0.5) for d in dims]
        self.w = float(rng.uniform(1.0, 3.0))
        self.kappa = float(rng.uniform(0.1, 0.5))
        self.om = float(rng.uniform(-1, 1))
        self.g = [float(rng.uniform(0.2, 0.6)) for _ in dims]
        self.c0 = complex(rng.normal(), rng.normal()) * 0.3
        self.c1 = complex(rng.normal(), rng.normal()) * 0.4 \
            if time_dependent else 0.0
        self.td = time_dependent
        self.sd = state_dependent
        self.fc = field_coupled
        self.gamma = [float(rng.uniform(0.05, 0.2)) for _ in dims]
        self.lop = [gen.cplx(rng, (d, d), 0.5) for d in dims]
        # explicit time dependence of the dissipators too (own generator so
        # that the other draws stay what they were)
        rng2 = np.random.default_rng(int(rng.integers(2 ** 31)))
        self.gw = float(rng2.uniform(1.5, 4.0))
        self.gamp = float(rng2.uniform(0.5, 0.9)) if time_dependent else 0.0
        self.lop1 = [gen.cplx(rng2, (d, d), 0.3 if time_dependent else 0.0)
                     for d in dims]

    def gamma_fn(self, k, tshift=0.0):
        g0, amp, w = self.gamma[k], self.gamp, self.gw
        return lambda t: g0 * (1.0 + amp * np.sin(w * (t - tshift) + 0.4 * k))

    def lop_fn(self, k, v=None, tshift=0.0):
        l0, l1, w = self.lop[k], self.lop1[k], self.gw

        def lk(t):
            op = l0 + np.cos(0.7 * w * (t - tshift)) * l1
            return op if v is None else v @ op @ v.conj().T
        return lk

    def build(self, vs=None, tshift=0.0, probe=None):
        import oqupy
        vs = vs or [np.eye(d, dtype=complex) for d in self.dims]
        systems = []
        for k, d in enumerate(self.dims):
            v = vs[k]

            def hk(t, a, k=k, v=v):
                h = self.h0[k].copy()
                if self.fc:
                    h = h + np.real(a) * self.x[k]
                if self.td:
                    h = h + np.cos(self.w * (t - tshift)) * self.y[k]
                pulse = getattr(self, "pulse", None)
                if pulse is not None:
                    # rectangular pulse train (edges inside the time steps:
                    # not smooth on the scale of dt)
                    period, duty = pulse
                    if ((t - tshift) / period) % 1.0 < duty:
                        h = h + 1.5 * self.x[k]
                return v @ h @ v.conj().T
            hkw = probe.wrap(f"H{k}", hk) if probe is not None else hk
            systems.append(oqupy.TimeDependentSystemWithField(
                hkw, gammas=[self.gamma_fn(k, tshift)],
                lindblad_operators=[self.lop_fn(k, v, tshift)]))

        def eom(t, states, a):
            val = -(self.kappa + 1j * self.om) * a + self.c0 \
                + self.c1 * (t - tshift)
            if self.sd:
                for k, rho in enumerate(states):
                    zk = vs[k] @ self.z[k] @ vs[k].conj().T
                    val = val - 1j * self.g[k] * np.trace(zk @ rho)
            return val
        eomw = probe.wrap("eom", eom) if probe is not None else eom
        return oqupy.MeanFieldSystem(systems, field_eom=eomw), eom
