"""CLI of the checks.

    python -m vp.run C07 [--tier quick|thorough] [--seed N] [--replay file]

exit 0: property held on everything explored (possibly with KNOWN-FINDING
        lines); exit 1: `VIOLATION property=<id> replay=<path>`; exit 2:
        `INCONCLUSIVE property=<id> reason=...` (never a VIOLATION line).
"""
import argparse
import importlib
import json
import os
import sys
import time

from vp import common
from vp.common import jsonable


class Inconclusive(Exception):
    """Raised by a check when it cannot decide (reference self-test failed,
    monitor not reached); never reported as a violation."""


def load_known():
    try:
        with open(common.KNOWN_FINDINGS) as f:
            return json.load(f).get("findings", [])
    except FileNotFoundError:
        return []


def main(argv=None):
    ap = argparse.ArgumentParser()
    ap.add_argument("prop")
    ap.add_argument("--tier", default=os.environ.get("VERIF_TIER", "quick"))
    ap.add_argument("--seed", type=int,
                    default=int(os.environ.get("VERIF_SEED", "0") or 0))
    ap.add_argument("--replay")
    ap.add_argument("--limit", type=int, default=None,
                    help="only run the first N cases (debugging)")
    ap.add_argument("--no-evidence", action="store_true")
    args = ap.parse_args(argv)
    pid = args.prop.upper()
    tier = args.tier if args.tier in ("quick", "thorough") else "quick"
    common.ensure_deps()
    sys.path.insert(0, common.DEPS)
    mod = importlib.import_module("vp.checks." + pid.lower())

    if args.replay:
        return replay(mod, pid, args.replay)

    t0 = time.time()
    cases = mod.cases(tier, args.seed)
    if args.limit:
        cases = cases[:args.limit]
    from vp import pool
    results = pool.run_cases(mod, cases)
    wall = time.time() - t0

    known = [k for k in load_known()
             if k.get("property") == pid and k.get("status") == "open"]
    known_mech = {k["mechanism"]: k for k in known}

    violations = []      # (case, violation)
    known_hits = {}
    inconclusive = []
    cells = {}
    monitors = {}
    obs_max = {}
    signatures = set()
    skipped = {}
    samples = []
    maxratio = 0.0
    n_eval = 0
    walls = []
    for case, res in zip(cases, results):
        if res is None:
            inconclusive.append(("no result", case))
            continue
        if "inconclusive" in res:
            inconclusive.append((res["inconclusive"] + " " +
                                 str(res.get("stderr", ""))[-400:], case))
            continue
        if "error" in res:
            inconclusive.append(("harness error: " + res["error"][-1500:],
                                 case))
            continue
        if res.get("skipped"):
            skipped[res["skipped"]] = skipped.get(res["skipped"], 0) + 1
            continue
        n_eval += 1
        walls.append((float(res.get("wall", 0.0)), case.get("_i", -1)))
        for c in res.get("cells", []):
            cells[c] = cells.get(c, 0) + 1
        for m, n in res.get("monitors", {}).items():
            monitors[m] = monitors.get(m, 0) + n
        for k, v in res.get("obs", {}).items():
            if isinstance(v, (int, float)):
                obs_max[k] = max(obs_max.get(k, v), v)
        maxratio = max(maxratio, float(res.get("maxratio", 0.0) or 0.0))
        if res.get("nontrivial", True):
            signatures.add(res.get("signature") or common.stable_hash(
                {k: v for k, v in case.items() if k != "_i"}))
        if len(samples) < 4 and res.get("sample") is not None:
            samples.append(res["sample"])
        for v in res.get("violations", []):
            mech = v.get("mechanism", "unclassified")
            if mech in known_mech:
                known_hits.setdefault(mech, []).append((case, v))
            else:
                violations.append((case, v))

    # required coverage cells / monitor counters
    required = mod.required_cells(tier) if hasattr(mod, "required_cells") \
        else {}
    missing = [c for c, n in required.items()
               if cells.get(c, 0) + monitors.get(c, 0) < n]
    if not violations and missing and not args.limit:
        inconclusive.append(("required cells/monitors not reached: "
                             + ", ".join(missing), None))
    if n_eval == 0:
        inconclusive.append(("no case evaluated", None))
    if len(signatures) < 2 and not violations and not args.limit:
        inconclusive.append(("fewer than 2 distinct non-trivial cases", None))

    # replay files
    os.makedirs(common.REPLAY_DIR, exist_ok=True)
    replay_paths = []
    for n, (case, v) in enumerate(violations[:20]):
        path = os.path.join(common.REPLAY_DIR,
                            f"{pid}_{tier}_s{args.seed}_{n}.json")
        with open(path, "w") as f:
            json.dump(jsonable({"property": pid, "case": case,
                                "violation": v}), f, indent=1)
        replay_paths.append(path)

    if not samples:
        samples = [jsonable({k: v for k, v in c.items() if k != "_i"})
                   for c in cases[:2]]
    coverage = {
        "evaluations": n_eval,
        "distinct_nontrivial": len(signatures),
        "rule": getattr(mod, "RULE", ""),
        "samples": samples,
        "cells": dict(sorted(cells.items())),
        "required_cells": required,
        "monitor_evaluations": dict(sorted(monitors.items())),
        "observed_max": obs_max,
        "worst_deviation_over_bound": maxratio,
        "skipped": skipped,
        "cases_generated": len(cases),
        "known_findings_hit": {m: len(v) for m, v in known_hits.items()},
        "inconclusive": [r for r, _ in inconclusive][:5],
        "case_wall_s_total": round(sum(w for w, _ in walls), 1),
        "slowest_cases": [{"case_index": i, "wall_s": round(w, 1)}
                          for w, i in sorted(walls, reverse=True)[:3]],
    }
    if hasattr(mod, "extra_coverage"):
        coverage.update(mod.extra_coverage(results, tier))
    evidence = {
        "property_id": pid,
        "tier": tier,
        "seed": args.seed,
        "level": mod.LEVEL,
        "coverage": jsonable(coverage),
        "assumptions": getattr(mod, "ASSUMPTIONS", []),
        "wall_s": round(wall, 2),
        "violations": len(violations),
    }
    if not args.no_evidence:
        os.makedirs(common.EVIDENCE_DIR, exist_ok=True)
        with open(os.path.join(common.EVIDENCE_DIR, pid + ".json"), "w") as f:
            json.dump(evidence, f, indent=1)

    print(f"{pid} tier={tier} seed={args.seed} cases={len(cases)} "
          f"evaluated={n_eval} distinct_nontrivial={len(signatures)} "
          f"skipped={sum(skipped.values())} wall={wall:.1f}s "
          f"worst_ratio={maxratio:.3g}")
    print("  slowest cases:", coverage["slowest_cases"],
          "cpu total", coverage["case_wall_s_total"])
    print("  cells:", json.dumps(coverage["cells"]))
    print("  monitors:", json.dumps(coverage["monitor_evaluations"]))
    for mech, hits in known_hits.items():
        k = known_mech[mech]
        print(f"KNOWN-FINDING: property={pid} {k.get('what', mech)} "
              f"[mechanism={mech}, {len(hits)} cases]")
    if violations:
        for (case, v), path in zip(violations, replay_paths):
            print(f"  violation: {v.get('what')} mechanism="
                  f"{v.get('mechanism')} detail={json.dumps(jsonable(v.get('detail')))[:400]}")
            print(f"VIOLATION property={pid} replay={path}")
        if len(violations) > len(replay_paths):
            print(f"  ... and {len(violations) - len(replay_paths)} more")
        return 1
    if inconclusive:
        for reason, case in inconclusive[:5]:
            print(f"INCONCLUSIVE property={pid} reason={reason}")
            if case is not None:
                print("   case:", json.dumps(jsonable(case))[:300])
        return 2
    return 0


def replay(mod, pid, path):
    """Re-execute exactly the case stored in a replay file (in a fresh worker
    so that the tree under test is imported as in the original run)."""
    with open(path) as f:
        data = json.load(f)
    case = data["case"]
    from vp import pool
    res = pool.run_cases(mod, [case])[0]
    print(json.dumps(jsonable(res), indent=1)[:6000])
    if res and res.get("violations"):
        print(f"VIOLATION property={pid} replay={path}")
        return 1
    if res is None or "error" in res or "inconclusive" in res:
        print(f"INCONCLUSIVE property={pid} reason=replay did not complete")
        return 2
    return 0


if __name__ == "__main__":
    sys.exit(main())
