"""The repository's own tests run under the harness contracts
(vp/pytest_contracts.py); shared by the thorough tiers of C04 and C05."""
import glob
import json
import os
import shutil
import subprocess
import tempfile

from vp import common


def run(keep):
    """keep(mechanism) -> bool selects the violations the calling check is
    responsible for."""
    tmpd = tempfile.mkdtemp(prefix="vp_repotests_")
    try:
        env = common.worker_env({"VP_CONTRACT_OUT": os.path.join(tmpd, "rec")})
        env["OMP_NUM_THREADS"] = "2"
        res = subprocess.run(
            [common.PYTHON, "-m", "pytest", "-q", "-p", "no:cacheprovider",
             "-p", "vp.pytest_contracts", "--timeout=900", "tests"],
            env=env, cwd=common.REPO, capture_output=True, text=True,
            timeout=3000)
        evals, violations = {}, []
        for f in glob.glob(os.path.join(tmpd, "rec.*.json")):
            d = json.load(open(f))
            for k, v in d["evals"].items():
                evals[k] = evals.get(k, 0) + v
            violations += d["violations"]
        tail = res.stdout.strip().splitlines()[-1] if res.stdout.strip() \
            else ""
    finally:
        shutil.rmtree(tmpd, ignore_errors=True)
    if not evals:
        return {"inconclusive": "repository tests under contracts produced "
                "no contract evaluations: " + tail}
    mine = [v for v in violations if keep(v.get("mechanism", ""))]
    return {"violations": [dict(v, what="repository test-suite under "
                                "contracts: " + v["what"])
                           for v in mine[:10]],
            "cells": ["repo-tests"], "monitors": evals, "nontrivial": True,
            "signature": "repotests", "maxratio": 0.0, "obs": {},
            "sample": {"kind": "repotests", "pytest": tail,
                       "contract_evaluations": evals}}
