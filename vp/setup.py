"""setup_cmd: install the contract libraries from the offline wheelhouse."""
from vp import common

if __name__ == "__main__":
    common.ensure_deps()
    print("vp setup ok: icontract/deal in", common.DEPS)
