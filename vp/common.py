"""Shared paths, environment handling and small helpers of the framework."""
import hashlib
import json
import os
import subprocess
import sys

VERIF = os.path.dirname(os.path.dirname(os.path.abspath(__file__)))
REPO = os.environ.get("VP_REPO", "/repo")
PYTHON = os.environ.get("VP_PYTHON", "/venv/bin/python")
DEPS = os.path.join(VERIF, ".deps")
WHEELS = "/opt/veriftools/wheels"
EVIDENCE_DIR = os.path.join(VERIF, "evidence")
REPLAY_DIR = os.path.join(VERIF, "replays")
KNOWN_FINDINGS = os.path.join(VERIF, "known_findings.json")
GUARD = "OQUPY_VERIF"


def ensure_deps():
    """Install icontract/deal into the git-ignored .deps directory (offline,
    idempotent). A fresh restore has only committed files, so every check
    calls this first."""
    marker = os.path.join(DEPS, "icontract", "__init__.py")
    if os.path.exists(marker):
        return
    os.makedirs(DEPS, exist_ok=True)
    cmd = [PYTHON, "-m", "pip", "install", "--quiet", "--no-index",
           "--find-links", WHEELS, "--target", DEPS, "icontract", "deal"]
    env = dict(os.environ, PIP_NO_INDEX="1", PIP_DISABLE_PIP_VERSION_CHECK="1")
    res = subprocess.run(cmd, env=env, capture_output=True, text=True)
    if res.returncode != 0 and not os.path.exists(marker):
        sys.stderr.write(res.stdout + res.stderr)
        raise SystemExit("INCONCLUSIVE reason=cannot-install-icontract")


def worker_env(extra=None):
    """Environment of a worker interpreter: the working tree under test first
    on the import path, single-threaded BLAS, fixed hash seed."""
    env = dict(os.environ)
    pp = [REPO, VERIF, DEPS]
    if env.get("PYTHONPATH"):
        pp.append(env["PYTHONPATH"])
    env["PYTHONPATH"] = os.pathsep.join(pp)
    env["OMP_NUM_THREADS"] = "1"
    env["OPENBLAS_NUM_THREADS"] = "1"
    env["MKL_NUM_THREADS"] = "1"
    env["PYTHONHASHSEED"] = "0"
    env["VP_REPO"] = REPO
    env[GUARD] = "1"
    env.setdefault("TMPDIR", "/dev/shm" if os.path.isdir("/dev/shm") else "/tmp")
    if extra:
        env.update(extra)
    return env


def stable_hash(obj) -> str:
    """Short stable hash of a JSON-able object (used for distinctness)."""
    return hashlib.sha1(
        json.dumps(obj, sort_keys=True, default=str).encode()).hexdigest()[:12]


def jsonable(x):
    """Convert numpy scalars/arrays and complex numbers for json.dump."""
    import numpy as np
    if isinstance(x, dict):
        return {str(k): jsonable(v) for k, v in x.items()}
    if isinstance(x, (list, tuple, set)):
        return [jsonable(v) for v in x]
    if isinstance(x, np.ndarray):
        if np.iscomplexobj(x):
            return {"re": x.real.tolist(), "im": x.imag.tolist()}
        return x.tolist()
    if isinstance(x, (np.integer,)):
        return int(x)
    if isinstance(x, (np.floating,)):
        return float(x)
    if isinstance(x, (np.bool_,)):
        return bool(x)
    if isinstance(x, complex):
        return {"re": x.real, "im": x.imag}
    if isinstance(x, slice):
        return "slice(%r,%r,%r)" % (x.start, x.stop, x.step)
    if isinstance(x, float) and (x != x or x in (float("inf"), float("-inf"))):
        return repr(x)
    return x
