"""Writes /verif/MANIFEST.json from the table below (single source of truth).

    python -m vp.manifest
"""
import json
import os

from vp import common

PY = "/venv/bin/python"

# id -> (level category, technique, level text, level note, design ref)
CHECKS = {}


def add(pid, category, technique, text, note, ref):
    CHECKS[pid] = dict(category=category, technique=technique, text=text,
                       note=note, ref=ref)


add("C01", "exploration",
    "runtime reference-model monitor (closed form R2 / explicit modes R3) on "
    "seeded random workloads",
    "Every step of Tempo.compute and pt_tempo_compute+compute_dynamics is "
    "compared with an independently written exact model over seeded random "
    "spectral densities, cutoffs, temperatures, bases, degeneracies, memory "
    "settings, tolerances and both APIs; the cell shapes the library really "
    "requested are observed by a counting wrapper. Held = no deviation above "
    "100*epsrel*scale on the executions listed in the evidence.",
    "scipy.quad reference integrals (self-tested), conditioning guard R<=8, "
    "Fock truncation self-test; nothing about inputs not generated",
    "DESIGN.md 3/C01")

add("C02", "exploration",
    "differential runtime monitor (TEMPO vs PT-TEMPO per step, prefix, epsrel "
    "ladder) + offline trace check of recorded callable sample times",
    "Two executions of the real code that must agree are compared at every "
    "step on seeded random non-commuting (time-dependent, dissipative) "
    "systems; prefixes of a long process tensor against exact-n process "
    "tensors; the bound is required at three tolerances with one constant; "
    "recording probes on H(t), gamma(t), A(t) must show exactly the sample "
    "times start+k dt+dt/4,+3dt/4 in both back-ends.",
    "conditioning guard R<=8; bound constant calibrated on the unchanged tree",
    "DESIGN.md 3/C02")
add("C03", "exploration",
    "runtime reference-model monitor: hand-built ancilla process tensors vs "
    "dense joint density-matrix evolution",
    "compute_dynamics is compared at every step with an independent dense "
    "evolution of system+ancillas for 0..3 environments, all list "
    "permutations, rank-3/4 tensors, transforms, explicit/computed caps, "
    "export/import round trips, time-dependent systems and stacked controls; "
    "order independence only where exact; summed spectral densities on "
    "PT-TEMPO tensors.",
    "dense model is independent einsum/Kraus code; order independence judged "
    "only for commuting environment maps",
    "DESIGN.md 3/C03")
add("C05", "exploration",
    "icontract class invariant on Bath + metamorphic (rotated basis) runtime "
    "monitor for three methods",
    "Every Bath constructed in the workload is checked by an invariant "
    "(unitary transform, real diagonal eigenvalues) and for reconstruction / "
    "acceptance over engineered degenerate spectra; rotated simulations must "
    "equal V rho V^dag for Tempo, PT-TEMPO and MeanFieldTempo.",
    "conditioning guard; eigenvalues closer than 1e-10 treated as degenerate",
    "DESIGN.md 3/C05")
add("C06", "exploration",
    "differential runtime monitor unique=True vs unique=False",
    "Same computation with and without degeneracy reduction for three "
    "methods over lattice spectra with many coincidences of sums and "
    "differences; non-trivial only if the library's own degeneracy maps "
    "really merged classes.",
    "conditioning guard; bound 200*epsrel*scale for two truncated runs",
    "DESIGN.md 3/C06")

add("C09", "exploration",
    "differential runtime monitor + exact-quadratic reference + offline Heun "
    "trace specification over recorded field_eom events",
    "MeanFieldTempo and compute_dynamics_with_field (PT-TEMPO tensors) are "
    "compared on states and field at every time for 1-3 systems, non-zero "
    "start times and both record_all settings; linear-in-t field equations "
    "must give the exact quadratic; every recorded evaluation of the field "
    "equation must fit the Heun pattern derived from the returned fields; "
    "field-independent systems must equal plain Tempo.",
    "conditioning guard; bound 200*epsrel*scale", "DESIGN.md 3/C09")
add("C11", "exploration",
    "runtime reference-model monitor (Gibbs closed forms), metamorphic phase "
    "covariance, history monitor over repeated compute()",
    "Gibbs states are compared with the closed form for commuting models at "
    "n_steps 2..100 and temperatures wc/40..3wc, with exp(-H/T)/Z at zero "
    "and weak coupling for complex Hermitian H, under diagonal-phase "
    "rotations at finite coupling, for physicality, and across histories of "
    "repeated compute()/get_state()/get_dynamics().",
    "independent quadrature of the reorganisation energy; truncation errors "
    "accumulate ~n_steps^2, bound scaled accordingly", "DESIGN.md 3/C11")
add("C15", "exploration",
    "metamorphic runtime monitor (shifted time origin) + trace comparison of "
    "recorded callable argument times",
    "Every method is run with (start, f(t)) and (start+tau, f(t-tau)) for "
    "positive/negative/non-multiple shifts; states, fields and correlations "
    "must agree, reported times must be shifted by tau to a few ulp, and the "
    "argument times recorded by probes on H, gamma, A and the field equation "
    "must be the shifted ones; float control and correlation times included.",
    "tensor-network methods compared at 100*epsrel*scale (truncation "
    "decisions may differ between two runs), exact methods at 1e-9",
    "DESIGN.md 3/C15")

add("C04", "exploration",
    "icontract postconditions (invariant at the API boundary) on every entry "
    "point under a stress workload",
    "Postconditions attached from the harness to Tempo.compute, "
    "compute_dynamics, MeanFieldTempo.compute, compute_dynamics_with_field, "
    "PtTebd.compute, GibbsTempo.get_state and gibbs_tempo_compute evaluate "
    "every returned state (trace, Hermiticity, positivity with full memory, "
    "PT-TEBD norm) while seeded stress workloads drive strong coupling, T=0 "
    "and T>0, pure/rank-deficient states, cut-offs, unique, 1-3 mean-field "
    "systems and 2-5 site chains; evaluation counts per entry point are "
    "required coverage.",
    "bound 100*epsrel (chains x number of sites, Gibbs x (n_steps/5)^2); "
    "conditioning guard R<=8", "DESIGN.md 3/C04")
add("C18", "exploration",
    "runtime reference-model monitor: dense joint models with the stated "
    "control semantics (single systems and chains)",
    "For every (step 0..N, pre/post, int/float key, stack 1..3, kind) the "
    "states returned by compute_dynamics (0-2 ancilla environments, "
    "time-dependent dissipative systems) and by PtTebd+ChainControl "
    "(uncoupled, two-site coupled and commuting chains, every site) are "
    "compared with independent dense evolutions that apply the controls "
    "exactly once, on the stated side, in order of addition; a violation is "
    "classified by which alternative semantics the library followed.",
    "mixed int/float stacks on one step are not judged (documented "
    "interpretation)", "DESIGN.md 3/C18")

add("C07", "exploration",
    "runtime reference-model monitor: exact ancilla correlation tables (R4) "
    "+ independent time-specification interpreter (R8); exhaustive "
    "enumeration of the specification space",
    "Every int, slice, list permutation, float and float interval (both "
    "directions) over a grid of N=4 (thorough also N=5) steps is passed as "
    "times_a and as times_b, ordered and anti-ordered, with start_time not a "
    "multiple of dt; returned time axes, values and the exact NaN pattern "
    "are compared with the exact table; plus 2..4-operator correlations with "
    "all left/right patterns, the caller-dt clause, the anti=conj(ordered) "
    "identity on PT-TEMPO tensors and bath observables vs the "
    "displaced-oscillator closed form.",
    "specifications that denote nothing / lie outside the grid are not "
    "judged; dense model independent", "DESIGN.md 3/C07")
add("C08", "exploration",
    "finite-difference oracle through an independent forward path (dense R4 "
    "model / piecewise-constant compute_dynamics)",
    "The gradient returned by state_gradient is compared entry by entry "
    "(every half step, every parameter) with central finite differences of "
    "the objective computed by an independent forward model, for 1..3 "
    "non-commuting ancilla environments in two representations, PT-TEMPO "
    "sigma_z/sigma_x baths in both orders, parameter-dependent dissipators, "
    "user-supplied and numerically differentiated propagator derivatives, "
    "array and callable targets, and a system object reused with another "
    "time step; reported dynamics must equal the forward path.",
    "finite differences with two step sizes (self-check 1e-7); bound 2e-6 "
    "relative", "DESIGN.md 3/C08")

add("C10", "exploration",
    "runtime reference-model monitors (per-site / dense chain), fresh-"
    "interpreter execution-mode runs, forced-schedule monitor with logged "
    "completion orders",
    "PT-TEBD results are compared with per-site computations and the exact "
    "propagator of the full Liouvillian wherever its own splitting is exact "
    "(uncoupled chains with none/ancilla/PT-TEMPO environments, two-site "
    "chains, commuting-gate chains), every recorded subset (also "
    "non-contiguous) is checked for partial-trace consistency and norm one; "
    "the three execution modes run in fresh interpreters importing only "
    "oqupy; a turnstile forces each of the 3! completion orders of a layer's "
    "gates in the thread pool (staggered delays in the process pool) and "
    "the observed orders are read from an O_APPEND log.",
    "schedules beyond one layer of <=3 gates and races inside a gate are "
    "not driven; an order that was not realised counts as not covered",
    "DESIGN.md 3/C10")
add("C14", "fault_enumeration",
    "history monitor (exhaustive bounded call sequences) + failpoint "
    "enumeration in user callables with retry",
    "Every sequence of <=3 (thorough <=4) compute targets over a 4-step grid "
    "is run for Tempo (full memory and across the dkmax boundary), "
    "MeanFieldTempo and PtTebd with interleaved get_dynamics and compared "
    "with the single call; PtTempo/GibbsTempo idempotence; PT-TEBD restart "
    "from the exported chain state at every step with controls around the "
    "restart point; a fault is raised at every call index of H, gamma, A, "
    "H(t,a), the field equation (and sampled indices of a correlation "
    "function) and the compute call is repeated: identical dynamics or an "
    "exception again.",
    "split and single runs perform the same floating-point operations "
    "(1e-11); correlation-function fault indices are sampled",
    "DESIGN.md 3/C14")
add("C16", "exploration",
    "round-trip identity monitor (export -> import, two generations, both "
    "types) + differential consumers + gauge-invariant comparison of "
    "file-backed PT-TEMPO",
    "Hand-built (ancilla), random and PT-TEMPO process tensors of length "
    "1..8, bond 1..9, rank 3/4, with and without dt/transforms/names/caps "
    "are exported and re-imported as 'file' and 'simple' (twice); "
    "attributes, raw and transformed tensors, caps, bond dimensions and the "
    "results of compute_dynamics, correlations, gradient and PT-TEBD are "
    "compared with the original; file-backed PT-TEMPO against the in-memory "
    "computation (tensor-wise within one run, gauge-invariantly across "
    "runs); overwrite semantics.",
    "two separate PT-TEMPO runs are not tensor-wise identical (singular "
    "vector gauge), so cross-run identity is decided on gauge-invariant "
    "functionals and consumer results", "DESIGN.md 3/C16")

add("C13", "exploration",
    "exact rational-arithmetic oracle observed at the step-count hooks (whole "
    "lattice) and end to end (closed-form states aligned with labels)",
    "For dt in {0.1,0.05,0.01,0.2,0.25,0.3,0.7,1e-3,1/3,random} x start in "
    "{0,0.1,-0.3,1.7} x m=0..1000 with the end time written as a decimal "
    "literal, a float sum and off-grid values, the number of steps observed "
    "at Tempo/MeanFieldTempo._get_num_step, PtTempo and tcut->dkmax is "
    "compared with exact Fraction arithmetic; end to end, every API returns "
    "states whose labels are start+k dt to 4 ulp, sorted, and whose content "
    "equals the closed-form state of the labelled time (record_all True and "
    "False), incl. PtTebd.",
    "points whose exact quotient lies between 1e-12 and 1e-6 of an integer "
    "are not judged; hooks read private attributes", "DESIGN.md 3/C13")
add("C17", "fault_enumeration",
    "crash-point enumeration with killed writer processes and a classifying "
    "reader process",
    "A dry run records the file-operation sequence of export() and of a "
    "file-backed PT-TEMPO run; at every operation boundary (thorough: every "
    "executed source line) a writer process dies by SIGKILL, _exit, SIGTERM, "
    "exception, SIGINT or sys.exit; a reader process imports the file as "
    "'file' and 'simple' with warnings recorded, reads every tensor and runs "
    "a consumer; a file that opens without the corruption warning although "
    "it is incomplete is a violation; clean files must open unwarned and "
    "complete; mode matrix {write, overwrite, read} x {existing, missing} "
    "with content hashes; remove() entitlement.",
    "crash points are Python-level boundaries; tmpfs (no power-loss model)",
    "DESIGN.md 3/C17")
add("C19", "fault_enumeration",
    "thread/timer census, output-stream monitor and exit watchdog in fresh "
    "interpreters under fault injection; sys.monitoring line pre-emption of "
    "the progress timer callback",
    "Every timer the library creates is registered by a Timer subclass "
    "(virtual time); after each call returned or raised no timer may be "
    "armed, no thread alive after a grace period and no byte written; "
    "faults are injected at every call index of the user callables of a "
    "clean run, as missing caps and wrong shapes at every step, for 10 APIs "
    "x 4 progress types; the timer callback and the caller are held at "
    "every source line of ProgressBar.update/_print_status/exit while the "
    "other side finishes or updates; a process-exit watchdog runs selected "
    "scenarios without clean-up.",
    "line granularity, context bound 1; timer intervals scaled 1 s -> 20 ms",
    "DESIGN.md 3/C19")

add("C20", "exploration",
    "byte-snapshot immutability monitor, memory-layout sweep, caller-array "
    "scribbling (aliasing), history replay against fresh objects, attribute "
    "update monitor",
    "Every caller array and the public attributes of caller parameter "
    "objects are snapshotted before and compared after the library calls of "
    "8 API groups; the same values are passed C-ordered, F-ordered, as "
    "transposed view, strided slice, read-only, real dtype and nested list; "
    "caller arrays are overwritten after objects were built from them; "
    "random sequences of computations on shared objects are compared with "
    "replays on fresh equal objects; after changing alpha, temperature, "
    "cutoff, zeta, cutoff_type or j_function a correlations object must "
    "answer like a fresh one in all methods while baths/Tempo objects built "
    "earlier are unaffected; PtTebdParameters setters vs an existing PtTebd.",
    "tensor-network results are reproducible only to the truncation "
    "tolerance (2e-6), exact paths to 1e-12", "DESIGN.md 3/C20")

add("C12", "exploration",
    "runtime reference-model monitor (independent quadrature, closed forms, "
    "weighted 1-D quadrature of the object's own correlation function) with "
    "evidence-based classification of known quadrature findings",
    "Triangle, square and rectangle cells at 14 position classes (incl. "
    "cells touching or straddling the diagonal, negative differences, "
    "TEMPO-style rectangles) of PowerLawSD, CustomSD and CustomCorrelations "
    "objects are compared with second differences of an independent eta, "
    "with weighted quadrature of the object's own correlation(), tiling "
    "sums, Hermitian symmetry, T=0 closed forms, the PowerLawSD/CustomSD "
    "twin and imaginary-time (Matsubara) integrals, over alpha, zeta in "
    "[0.1,4], three cutoffs and eight temperature classes across the "
    "overflow-guard crossover. Deviations caused by three documented open "
    "findings are recognised only when a replica of the pinned integrand "
    "reproduces the library value and a cancellation-free / finite-tail "
    "integrand reproduces the reference.",
    "bound 100*epsrel*sum|c_i||eta(t_i)| + 4*1.49e-8*nquad*sum|c_i| "
    "(scipy's default epsabs is part of what the library requests)",
    "DESIGN.md 3/C12")

NOT_APPLICABLE = []


def build():
    checks = []
    for pid in sorted(CHECKS):
        c = CHECKS[pid]
        checks.append({
            "property_id": pid,
            "quick_cmd": f"{PY} -m vp.run {pid} --tier quick",
            "thorough_cmd": f"{PY} -m vp.run {pid} --tier thorough",
            "evidence_file": f"/verif/evidence/{pid}.json",
            "replay_cmd_template": f"{PY} -m vp.run {pid} --replay {{path}}",
            "engine": "vp",
            "level_claimed": {"category": c["category"], "text": c["text"],
                              "design_ref": c["ref"]},
            "level_note": c["note"],
            "technique": c["technique"],
        })
    with open(os.path.join(common.VERIF, "properties.jsonl")) as f:
        all_ids = [json.loads(l)["id"] for l in f if l.strip()]
    na = list(NOT_APPLICABLE)
    na_ids = {n["property_id"] for n in na}
    for pid in all_ids:
        if pid not in CHECKS and pid not in na_ids:
            na.append({"property_id": pid,
                       "reason": "check not built yet in this round (planned "
                                 "in DESIGN.md section 3); not claimed"})
    manifest = {
        "version": 1,
        "setup_cmd": f"{PY} -m vp.setup",
        "hooks": {
            "guard": common.GUARD,
            "enable": "no source hooks: all instrumentation (contracts, "
                      "recording probes, sys.monitoring pre-emption, "
                      "failpoints) is attached from the harness at run time; "
                      "workers set OQUPY_VERIF=1 for uniformity",
            "baseline_off_cmd": "cd /repo && /venv/bin/python -m pytest -ra -q "
                                "-p no:cacheprovider --timeout=900 "
                                "--continue-on-collection-errors",
            "source_commits": [],
            "add_only": True,
        },
        "engines": [{
            "name": "vp",
            "path": "/verif/vp",
            "serves_properties": sorted(CHECKS),
            "kind_free_text": "runtime monitoring framework: seeded workload "
                              "generators, independent reference models, "
                              "icontract contracts, recording probes, fault / "
                              "crash / schedule injection, fresh-interpreter "
                              "workers",
        }],
        "checks": checks,
        "not_applicable": na,
        "notes": "See DESIGN.md. Exit 0 held / 1 VIOLATION / 2 INCONCLUSIVE. "
                 "known_findings.json lists fixed and open findings.",
    }
    with open(os.path.join(common.VERIF, "MANIFEST.json"), "w") as f:
        json.dump(manifest, f, indent=1)
    return manifest


if __name__ == "__main__":
    m = build()
    print("claimed:", [c["property_id"] for c in m["checks"]])
    print("not applicable:", [n["property_id"] for n in m["not_applicable"]])
