"""Writes /verif/MANIFEST.json from the table below (single source of truth).

    python -m vp.manifest
"""
import json
import os

from vp import common

PY = "/venv/bin/python"

# id -> (level category, technique, level text, level note, design ref)
CHECKS = {}


def add(pid, category, technique, text, note, ref):
    CHECKS[pid] = dict(category=category, technique=technique, text=text,
                       note=note, ref=ref)


add("C01", "exploration",
    "runtime reference-model monitor (closed form R2 / explicit modes R3) on "
    "seeded random workloads",
    "Every step of Tempo.compute and pt_tempo_compute+compute_dynamics is "
    "compared with an independently written exact model over seeded random "
    "spectral densities, cutoffs, temperatures, bases, degeneracies, memory "
    "settings, tolerances and both APIs; the cell shapes the library really "
    "requested are observed by a counting wrapper. Held = no deviation above "
    "100*epsrel*scale on the executions listed in the evidence.",
    "scipy.quad reference integrals (self-tested), conditioning guard R<=8, "
    "Fock truncation self-test; nothing about inputs not generated",
    "DESIGN.md 3/C01")

NOT_APPLICABLE = []


def build():
    checks = []
    for pid in sorted(CHECKS):
        c = CHECKS[pid]
        checks.append({
            "property_id": pid,
            "quick_cmd": f"{PY} -m vp.run {pid} --tier quick",
            "thorough_cmd": f"{PY} -m vp.run {pid} --tier thorough",
            "evidence_file": f"/verif/evidence/{pid}.json",
            "replay_cmd_template": f"{PY} -m vp.run {pid} --replay {{path}}",
            "engine": "vp",
            "level_claimed": {"category": c["category"], "text": c["text"],
                              "design_ref": c["ref"]},
            "level_note": c["note"],
            "technique": c["technique"],
        })
    with open(os.path.join(common.VERIF, "properties.jsonl")) as f:
        all_ids = [json.loads(l)["id"] for l in f if l.strip()]
    na = list(NOT_APPLICABLE)
    na_ids = {n["property_id"] for n in na}
    for pid in all_ids:
        if pid not in CHECKS and pid not in na_ids:
            na.append({"property_id": pid,
                       "reason": "check not built yet in this round (planned "
                                 "in DESIGN.md section 3); not claimed"})
    manifest = {
        "version": 1,
        "setup_cmd": f"{PY} -m vp.setup",
        "hooks": {
            "guard": common.GUARD,
            "enable": "no source hooks: all instrumentation (contracts, "
                      "recording probes, sys.monitoring pre-emption, "
                      "failpoints) is attached from the harness at run time; "
                      "workers set OQUPY_VERIF=1 for uniformity",
            "baseline_off_cmd": "cd /repo && /venv/bin/python -m pytest -ra -q "
                                "-p no:cacheprovider --timeout=900 "
                                "--continue-on-collection-errors",
            "source_commits": [],
            "add_only": True,
        },
        "engines": [{
            "name": "vp",
            "path": "/verif/vp",
            "serves_properties": sorted(CHECKS),
            "kind_free_text": "runtime monitoring framework: seeded workload "
                              "generators, independent reference models, "
                              "icontract contracts, recording probes, fault / "
                              "crash / schedule injection, fresh-interpreter "
                              "workers",
        }],
        "checks": checks,
        "not_applicable": na,
        "notes": "See DESIGN.md. Exit 0 held / 1 VIOLATION / 2 INCONCLUSIVE. "
                 "known_findings.json lists fixed and open findings.",
    }
    with open(os.path.join(common.VERIF, "MANIFEST.json"), "w") as f:
        json.dump(manifest, f, indent=1)
    return manifest


if __name__ == "__main__":
    m = build()
    print("claimed:", [c["property_id"] for c in m["checks"]])
    print("not applicable:", [n["property_id"] for n in m["not_applicable"]])
