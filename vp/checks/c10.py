"""C10 - PT-TEBD chain dynamics are exact where checkable, in every execution
mode.

Reference monitors: uncoupled chains vs per-site compute_dynamics and vs the
dense chain model R6 (ancilla environments), two-site and commuting-gate
chains vs the exact propagator of the full Liouvillian; partial-trace
consistency of every recorded subset and norm one on generic entangled chains;
Trotter orders 1 and 2. Execution modes {absent, multithread, multiprocess}
each in a fresh interpreter that imports only oqupy; schedule monitor: a
turnstile forces every completion permutation of the (<=3) gates of a layer,
the observed completion orders are logged, results must be identical.
"""
import itertools
import json
import os
import shutil
import subprocess
import tempfile

import numpy as np

from vp import common, gen
from vp.ref import ancilla, chain, models

ID = "C10"
LEVEL = "exploration"
BATCH = 3
CASE_TIMEOUT = 600
RULE = ("seeded chains of 2..6 sites: uncoupled (per-site none / ancilla / "
        "PT-TEMPO environments), two-site coupled, commuting ZZ chains, "
        "generic XYZ chains with dissipation and PT-TEMPO baths (consistency "
        "of all recorded subsets incl. non-contiguous ones); orders 1,2; "
        "three execution modes in fresh interpreters; all completion "
        "permutations of the gates of a layer (threads: forced by a "
        "turnstile, processes: staggered delays), observed orders logged. "
        "Non-trivial iff sites are entangled / environment acts (state "
        "change >=1e-2); distinct = (variant, dims, order, env pattern, "
        "mode, permutation)")
ASSUMPTIONS = ["dense chain model exact only where PT-TEBD's own splitting "
               "is exact (uncoupled, two-site, commuting gates)",
               "completion orders in process pools are driven by delays and "
               "verified from the log; an order that was not observed is "
               "reported as not covered, not as held"]


def required_cells(tier):
    return {"variant:uncoupled": 4, "variant:exact2": 3,
            "variant:commuting": 3, "variant:consistency": 3,
            "mode:none": 1, "mode:multithread": 1, "mode:multiprocess": 1,
            "schedule:threads": 6, "orders_observed_threads": 6,
            "env:pttempo": 2, "env:ancilla": 3, "order:1": 3, "order:2": 3,
            "subset:noncontiguous": 3, "state-query-between-computes": 4,
            "truncation:coarse": 1, "coarse-run-before": 2,
            "site-liouvillian:after-hamiltonian": 3,
            "site-liouvillian:before-hamiltonian": 3}


def cases(tier, seed):
    out = []
    n = 24 if tier == "quick" else 200
    for i in range(n):
        out.append({"kind": ["uncoupled", "exact2", "commuting",
                             "consistency"][i % 4], "seed": seed, "idx": i,
                    "tier": tier})
    nm = 2 if tier == "quick" else 10      # chain lengths 2,5,3,4,6 (a
    #                 two-site chain has an EMPTY odd layer in every step)
    for i in range(nm):
        out.append({"kind": "modes", "seed": seed, "idx": i, "tier": tier})
    perms = list(itertools.permutations(range(3)))
    for k, perm in enumerate(perms):
        out.append({"kind": "schedule", "seed": seed, "idx": k,
                    "perm": list(perm), "mode": "multithread", "tier": tier})
    pp = perms[:2] if tier == "quick" else perms
    for k, perm in enumerate(pp):
        out.append({"kind": "schedule", "seed": seed, "idx": k,
                    "perm": list(perm), "mode": "multiprocess", "tier": tier})
    return out


def _pt_tempo(rng, d, dt, nsteps, epsrel=1e-10):
    import oqupy
    from vp import lib
    p = gen.sd_params(rng)
    o, rm, scale = lib.guard_coupling(p, rng.normal(size=d), dt, nsteps, None,
                                      None, rng)
    v = gen.haar_unitary(rng, d) if rng.random() < 0.5 else np.eye(d)
    oper = v @ np.diag(o) @ v.conj().T
    oper = (oper + oper.conj().T) / 2
    return oqupy.pt_tempo_compute(
        oqupy.Bath(oper, gen.make_power_law(p)), 0.0,
        lib.end_time(0.0, dt, nsteps), lib.tempo_params(dt, epsrel),
        progress_type="silent")


def check_consistency(res, record, dims, violations, tol, what,
                      norm_tol=None):
    """Partial traces of recorded subsets must agree with recorded smaller
    subsets (and the trace of every recorded state with the reported norm);
    norm one up to norm_tol."""
    norm_tol = tol if norm_tol is None else norm_tol
    n_checked = 0
    worst = 0.0
    for big in record:
        if isinstance(big, int):
            continue
        bs = np.array(res["dynamics"][big].states)
        bd = [dims[s] for s in big]
        for small in record:
            ss = (small,) if isinstance(small, int) else tuple(small)
            if set(ss) < set(big):
                keep = [big.index(s) for s in ss]
                sm = np.array(res["dynamics"][small].states)
                for k in range(bs.shape[0]):
                    red = models.partial_trace(bs[k], bd, keep)
                    dev = float(np.abs(red - sm[k]).max())
                    worst = max(worst, dev)
                    n_checked += 1
                    if dev > tol:
                        violations.append({
                            "what": f"{what}: reduced state of {big} traced "
                                    f"to {ss} differs from the recorded "
                                    f"state of {small} by {dev:.3e} at step "
                                    f"{k}", "mechanism": "partial-trace",
                            "detail": {}})
                        return n_checked, worst
    nrm = np.array(res["norm"])
    # the trace of every recorded state is the reported norm of that step
    for key in record:
        st = np.array(res["dynamics"][key].states)
        tr = np.trace(st, axis1=1, axis2=2)
        dtr = float(np.abs(tr - nrm[:len(tr)]).max())
        n_checked += 1
        worst = max(worst, dtr)
        if dtr > tol:
            violations.append({
                "what": f"{what}: the trace of the recorded state of {key} "
                        f"differs from the reported norm by {dtr:.3e}",
                "mechanism": "partial-trace", "detail": {}})
            return n_checked, worst
    dn = float(np.abs(nrm - 1).max())
    if dn > norm_tol:
        violations.append({"what": f"{what}: norm deviates from one by "
                           f"{dn:.3e}", "mechanism": "norm", "detail": {}})
    return n_checked, worst


def run_physics(case):
    import oqupy
    i = case["idx"]
    kind = case["kind"]
    rng = gen.rng_for(case["seed"], "c10", i)
    order = 1 + (i // 4) % 2
    dt = float(rng.choice([0.05, 0.1, 0.2]))
    nsteps = int(rng.integers(2, 5))
    sz = np.diag([1.0, -1.0]).astype(complex)
    sx = np.array([[0, 1], [1, 0]], complex)
    sm = np.array([[0, 0], [1, 0]], complex)
    violations, cells, monitors, obs = [], ["variant:" + kind,
                                            f"order:{order}"], {}, {}
    teps = 1e-11
    coarse = bool(kind == "consistency" and (i // 4) % 2 == 1)
    if coarse:
        # a coarse truncation: the recorded reduced states all derive from
        # ONE truncated chain state, so they stay mutually consistent under
        # partial trace to rounding, whatever the truncation error is
        teps = float([1e-4, 1e-3][(i // 8) % 2])
    if kind == "uncoupled":
        dims = [[2, 3], [2, 2, 3], [3, 2, 2, 2], [2] * 5, [2, 3, 2, 2, 2, 2]][
            (i // 4) % 5]
    elif kind == "exact2":
        dims = [[2, 2], [2, 3], [3, 2]][(i // 4) % 3]
    elif kind == "commuting":
        dims = [2] * int(rng.integers(3, 6))
    else:
        dims = [2] * int(rng.integers(3, 6))
    n = len(dims)
    sys_chain = oqupy.SystemChain(dims)
    site_h, nn, diss = [], [], []
    for s, d in enumerate(dims):
        h = float(rng.normal()) * sz if kind == "commuting" else \
            gen.rand_herm(rng, d, 0.7)
        site_h.append(h)
        if kind != "commuting" and rng.random() < 0.6:
            lop = gen.cplx(rng, (d, d), 0.5)
            g = float(rng.uniform(0.05, 0.3))
            # the dissipator reaches the chain as a Lindblad operator or as
            # a ready-made single-site Liouvillian, added after or before
            # the Hamiltonian of that site (the terms of a site add up)
            route = (i + s) % 3
            dsup = gen.lindblad_super(np.zeros((d, d), complex), [g], [lop])
            if route == 0:
                sys_chain.add_site_hamiltonian(s, h)
                sys_chain.add_site_dissipation(s, lop, g)
            elif route == 1:
                sys_chain.add_site_hamiltonian(s, h)
                sys_chain.add_site_liouvillian(s, dsup)
                cells.append("site-liouvillian:after-hamiltonian")
            else:
                sys_chain.add_site_liouvillian(s, dsup)
                sys_chain.add_site_hamiltonian(s, h)
                cells.append("site-liouvillian:before-hamiltonian")
            diss.append((s, g, lop))
        else:
            sys_chain.add_site_hamiltonian(s, h)
    nn_diss = []
    if kind == "exact2":
        a, b = gen.rand_herm(rng, dims[0], 0.6), gen.rand_herm(rng, dims[1],
                                                               0.6)
        sys_chain.add_nn_hamiltonian(0, a, b)
        nn.append((0, a, b))
        if i % 2:
            la, lb = gen.cplx(rng, (dims[0],) * 2, 0.5), \
                gen.cplx(rng, (dims[1],) * 2, 0.5)
            g = float(rng.uniform(0.05, 0.3))
            sys_chain.add_nn_dissipation(0, la, lb, g)
            nn_diss.append((0, la, lb, g))
    elif kind == "commuting":
        for s in range(n - 1):
            j = float(rng.normal())
            sys_chain.add_nn_hamiltonian(s, j * sz, sz)
            nn.append((s, j * sz, sz))
    elif kind == "consistency":
        for s in range(n - 1):
            for pa in (sx, sz, np.array([[0, -1j], [1j, 0]])):
                j = float(rng.normal()) * 0.6
                sys_chain.add_nn_hamiltonian(s, j * pa, pa)
            if rng.random() < 0.4:
                sys_chain.add_nn_dissipation(s, sm, sm.conj().T,
                                             float(rng.uniform(0.05, 0.2)))
    # environments
    envs, pts, env_desc = [], [], []
    for s, d in enumerate(dims):
        choice = ["none", "ancilla", "pttempo"][(i + s) % 3]
        if kind == "commuting":
            choice = "none" if s % 2 else "deph"
        if kind == "consistency":
            choice = "pttempo" if (s % 2 == 0 and d == 2) else "none"
        if choice == "ancilla":
            env = ancilla.random_env(rng, d, 2, ["unitary", "channel"][s % 2])
            envs.append(env)
            pts.append(ancilla.build_process_tensor(env, nsteps, dt=dt))
            cells.append("env:ancilla")
        elif choice == "deph":
            env = ancilla.random_env(rng, d, 2, "dephasing")
            envs.append(env)
            pts.append(ancilla.build_process_tensor(env, nsteps, dt=dt,
                                                    rank3=bool(s % 4 == 0)))
            cells.append("env:ancilla")
        elif choice == "pttempo":
            envs.append("pttempo")
            pts.append(_pt_tempo(rng, d, dt, nsteps))
            cells.append("env:pttempo")
        else:
            envs.append(None)
            pts.append(None)
        env_desc.append(choice)
    rhos = [gen.rand_state(rng, d, ["mixed", "pure"][s % 2])
            for s, d in enumerate(dims)]
    record = list(range(n))
    if n >= 2:
        record.append((0, 1))
    if n >= 3:
        record += [(0, 2), (0, n - 1), tuple(range(n))] if n <= 4 else \
            [(0, 2), (1, 3), (0, 1, 3)]
        cells.append("subset:noncontiguous")
    record = list(dict.fromkeys(record))
    if kind in ("exact2", "commuting") and (i // 4) % 2 == 0:
        # a convergence study in one process: the same chain was run with a
        # coarse tolerance just before (the requested tolerance of THIS run
        # is what counts)
        oqupy.PtTebd(oqupy.AugmentedMPS(rhos), sys_chain, pts,
                     oqupy.PtTebdParameters(dt=dt, epsrel=1e-3, order=order),
                     dynamics_sites=[0]).compute(1, progress_type="silent")
        cells.append("coarse-run-before")
    params = oqupy.PtTebdParameters(dt=dt, epsrel=teps, order=order)
    tebd = oqupy.PtTebd(oqupy.AugmentedMPS(rhos), sys_chain, pts, params,
                        dynamics_sites=record, start_time=0.25)
    if i % 2:
        # split computation with state queries in between (they must not
        # influence what is recorded afterwards)
        kmid = max(1, nsteps // 2)
        tebd.compute(kmid, progress_type="silent")
        mid0 = tebd.get_current_density_matrix(0)
        tebd.get_current_density_matrix((0, n - 1) if n > 1 else 0)
        cells.append("state-query-between-computes")
    res = tebd.compute(nsteps, progress_type="silent")
    if i % 2:
        rec0 = np.array(res["dynamics"][0].states)[kmid]
        if np.abs(mid0 - rec0).max() > 1e-10:
            violations.append({
                "what": "get_current_density_matrix(0) after compute(k) "
                        "differs from the state recorded for step k",
                "mechanism": "current-state-query", "detail": {}})
    texp = 0.25 + dt * np.arange(nsteps + 1)
    if not np.allclose(res["time"], texp, rtol=0, atol=1e-12):
        violations.append({"what": "time axis wrong", "mechanism": "times",
                           "detail": {"time": res["time"]}})
    tol = 1e-8
    nchk, worst = check_consistency(
        res, record, dims, violations, tol, kind,
        norm_tol=(1e3 * teps * n * nsteps) if coarse else None)
    if coarse:
        cells.append("truncation:coarse")
    monitors["partial_traces_checked"] = nchk
    obs["consistency_dev"] = worst
    effect = 1.0
    if kind == "uncoupled":
        # per-site compute_dynamics with the same process tensors
        for s, d in enumerate(dims):
            gs = [g for (ss, g, lop) in diss if ss == s]
            ls = [lop for (ss, g, lop) in diss if ss == s]
            sysm = oqupy.System(site_h[s], gs, ls)
            dd = oqupy.compute_dynamics(sysm, rhos[s], dt=dt,
                                        num_steps=nsteps, start_time=0.25,
                                        process_tensor=pts[s],
                                        progress_type="silent")
            got = np.array(res["dynamics"][s].states)
            dev = float(np.abs(got - np.array(dd.states)).max())
            obs["uncoupled_dev"] = max(obs.get("uncoupled_dev", 0.0), dev)
            monitors["site_runs_compared"] = monitors.get(
                "site_runs_compared", 0) + 1
            if dev > 1e-8:
                violations.append({
                    "what": f"uncoupled chain {dims}: site {s} ({env_desc[s]}"
                            f" environment) differs from the single-site "
                            f"computation by {dev:.3e}",
                    "mechanism": "uncoupled-vs-single", "detail": {}})
        # product structure of joint states
        if (0, 1) in record:
            j = np.array(res["dynamics"][(0, 1)].states)
            a = np.array(res["dynamics"][0].states)
            b = np.array(res["dynamics"][1].states)
            dev = max(float(np.abs(j[k] - np.kron(a[k], b[k])).max())
                      for k in range(j.shape[0]))
            if dev > 1e-8:
                violations.append({"what": f"joint state of uncoupled sites "
                                   f"is not a product ({dev:.3e})",
                                   "mechanism": "uncoupled-product",
                                   "detail": {}})
    if kind in ("exact2", "commuting") or (
            kind == "uncoupled" and "pttempo" not in env_desc):
        renvs = [e if not isinstance(e, str) else None for e in envs]
        if "pttempo" in env_desc:
            renvs = None
        if renvs is not None:
            liou = models.chain_liouvillian(dims, site_h, nn, diss)
            for (s, la, lb, g) in nn_diss:
                op_full = models.embed_site(la, s, dims) \
                    @ models.embed_site(lb, s + 1, dims)
                liou = liou + gen.lindblad_super(
                    np.zeros_like(op_full), [g], [op_full])
            ref, norms = chain.chain_dynamics(dims, renvs, rhos, nsteps, liou,
                                              dt, record)
            free, _ = chain.chain_dynamics(dims, [None] * n, rhos, nsteps,
                                           liou, dt, record)
            for s in record:
                got = np.array(res["dynamics"][s].states)
                dev = float(np.abs(got - ref[s]).max())
                obs["exact_dev"] = max(obs.get("exact_dev", 0.0), dev)
                effect = max(float(np.abs(ref[s] - free[s]).max()), 0.0) \
                    if any(e is not None for e in renvs) else 1.0
                monitors["exact_states_compared"] = monitors.get(
                    "exact_states_compared", 0) + got.shape[0]
                if dev > 1e-8:
                    violations.append({
                        "what": f"{kind} chain {dims} (order {order}, "
                                f"environments {env_desc}): recorded sites "
                                f"{s} differ from the exact propagator of "
                                f"the full Liouvillian by {dev:.3e}",
                        "mechanism": "exact-chain-deviation", "detail": {}})
                    break
    sig = (kind, tuple(dims), order, tuple(env_desc))
    return {"violations": violations[:6], "cells": cells,
            "monitors": monitors, "nontrivial": True, "signature": str(sig),
            "maxratio": max(obs.values()) / 1e-8 if obs else 0.0, "obs": obs,
            "sample": gen.nice({"kind": kind, "dims": dims, "order": order,
                                "envs": env_desc, "dt": dt, "N": nsteps,
                                "recorded": [list(r) if isinstance(r, tuple)
                                             else r for r in record], **obs})}


def _run_worker(spec, tmpd, tag, timeout=240):
    specf = os.path.join(tmpd, f"spec_{tag}.json")
    outf = os.path.join(tmpd, f"out_{tag}.npz")
    with open(specf, "w") as f:
        json.dump(spec, f)
    script = os.path.join(common.VERIF, "vp", "mon", "c10_worker.py")
    env = common.worker_env()
    # only the tree under test on the path: the worker imports nothing of vp
    env["PYTHONPATH"] = common.REPO
    res = subprocess.run([common.PYTHON, "-u", script, specf, outf], env=env,
                         capture_output=True, text=True, timeout=timeout,
                         cwd=tmpd)
    if res.returncode != 0:
        return None, res.stderr[-1500:]
    data = np.load(outf)
    return {k: data[k] for k in data.files}, ""


def run_modes(case):
    i = case["idx"]
    tmpd = tempfile.mkdtemp(prefix="vp_c10_")
    violations, cells, monitors = [], [], {}
    try:
        base = {"seed": 1000 * case["seed"] + i, "n": [2, 5, 3, 4, 6][i % 5], "steps": 2,
                "order": 1 + i % 2, "perm": None, "log": None}
        ref = None
        worst = 0.0
        for mode in (None, "multithread", "multiprocess"):
            spec = dict(base, mode=mode)
            try:
                out, err = _run_worker(spec, tmpd, str(mode))
            except subprocess.TimeoutExpired:
                return {"inconclusive": f"mode {mode}: watchdog"}
            cells.append("mode:" + (mode or "none"))
            if out is None:
                violations.append({
                    "what": f"execution mode {mode!r} is unusable in a fresh "
                            f"interpreter: {err.strip().splitlines()[-1][:200]}",
                    "mechanism": "parallel-mode-unusable",
                    "detail": {"stderr": err[-800:]}})
                continue
            monitors["fresh_interpreter_runs"] = monitors.get(
                "fresh_interpreter_runs", 0) + 1
            if bool(out["preloaded"]):
                return {"inconclusive": "concurrent.futures was preloaded in "
                        "the fresh interpreter"}
            if ref is None:
                ref = out["states"]
            else:
                dev = float(np.abs(out["states"] - ref).max())
                worst = max(worst, dev)
                if dev > 1e-10:
                    violations.append({
                        "what": f"mode {mode!r} differs from the sequential "
                                f"result by {dev:.3e}",
                        "mechanism": "parallel-mode-differs", "detail": {}})
    finally:
        shutil.rmtree(tmpd, ignore_errors=True)
    return {"violations": violations, "cells": cells, "monitors": monitors,
            "nontrivial": True, "signature": f"modes-{i}",
            "maxratio": worst / 1e-10, "obs": {"mode_dev": worst},
            "sample": {"kind": "modes", "n": base["n"], "order": base["order"],
                       "mode_dev": worst}}


def run_schedule(case):
    perm, mode = case["perm"], case["mode"]
    tmpd = tempfile.mkdtemp(prefix="vp_c10_")
    violations, cells, monitors = [], [], {}
    n = 6          # layers of 3 (even) and 2 (odd) gates
    try:
        base = {"seed": 77 + case["seed"], "n": n, "steps": 1, "order": 2}
        ref, err = _run_worker(dict(base, mode=None, perm=None, log=None),
                               tmpd, "ref")
        if ref is None:
            return {"inconclusive": "sequential reference run failed: " + err}
        logf = os.path.join(tmpd, "order.log")
        out, err = _run_worker(dict(base, mode=mode, perm=perm, log=logf),
                               tmpd, "perm", timeout=400)
        if out is None:
            violations.append({
                "what": f"{mode} run with forced completion order {perm} "
                        f"failed: {err.strip().splitlines()[-1][:200]}",
                "mechanism": "parallel-mode-unusable", "detail": {}})
            observed = []
        else:
            with open(logf) as f:
                observed = [int(x) for x in f.read().split()]
            dev = float(np.abs(out["states"] - ref["states"]).max())
            if dev > 1e-10:
                violations.append({
                    "what": f"{mode}: completion order {observed[:3]} of the "
                            f"first layer changes the result by {dev:.3e}",
                    "mechanism": "completion-order-dependence",
                    "detail": {"perm": perm}})
        # first even layer: sites 0,2,4 -> expected completion order
        sites = [0, 2, 4]
        want = [sites[k] for k in perm]
        first = [s for s in observed if s % 2 == 0][:3]
        cells.append("schedule:" + ("threads" if mode == "multithread"
                                    else "processes"))
        if first == want:
            monitors["orders_observed_" + ("threads" if mode == "multithread"
                                           else "processes")] = 1
        else:
            cells.append("schedule:order-not-realised")
    finally:
        shutil.rmtree(tmpd, ignore_errors=True)
    return {"violations": violations, "cells": cells, "monitors": monitors,
            "nontrivial": True,
            "signature": f"schedule-{mode}-{tuple(first)}",
            "maxratio": 0.0, "obs": {},
            "sample": {"kind": "schedule", "mode": mode, "forced": want,
                       "observed_first_layer": first,
                       "all_completions": observed[:20]}}


def run_case(case):
    if case["kind"] == "modes":
        return run_modes(case)
    if case["kind"] == "schedule":
        return run_schedule(case)
    return run_physics(case)
