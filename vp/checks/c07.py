"""C07 - multi-time correlations are exact and aligned with the returned time
axes.

Reference monitors: R4 gives the exact correlation table of an ancilla
environment for every ordered index tuple; R8 gives, independently of the
library's parser, the step indices each time specification denotes. Expected
return of compute_correlations(_nt): times start+dt*idx, entry = table value
where the requested ordering holds, NaN exactly elsewhere. The specification
space (every int, slice, list permutation, float, float interval in both
directions over a grid of N steps) is enumerated completely at N=4 (quick) and
N=4,5 (thorough). Further: n-operator correlations with all left/right
patterns, the dt clause, the anti = conj(ordered) identity on PT-TEMPO process
tensors, and bath occupations / two-time bath correlations vs the
displaced-oscillator closed form (R9).
"""
import itertools

import numpy as np

from vp import gen, scen
from vp.ref import ancilla, timespec

ID = "C07"
LEVEL = "exploration"
BATCH = 2
CASE_TIMEOUT = 600
TOL = 1e-10
RULE = ("exhaustive time-specification space at N=4 (thorough also N=5) for "
        "both operator positions and both time orders on ancilla process "
        "tensors with random dissipative systems and start_time != 0; n=2..4 "
        "operator correlations with all left/right patterns (N=3); dt "
        "clause; PT-TEMPO anti/ordered identity; bath observables vs closed "
        "form. Non-trivial iff the table value differs between the requested "
        "index and its neighbours by >=1e-3 (so that a misaligned entry is "
        "visible); distinct = distinct specification (type, denoted index "
        "tuple) per role")
ASSUMPTIONS = ["dense joint model independent of the library",
               "specifications that denote an empty set or lie outside the "
               "grid are not judged", "float times are kept away from "
               "rounding ties"]

CHUNK = 60


def required_cells(tier):
    return {"spec:int": 5, "spec:slice": 100, "spec:list": 50,
            "spec:float": 10, "spec:interval": 40, "spec:interval-reversed": 10,
            "spec:list-descending": 10, "order:ordered": 100,
            "order:anti": 100, "nt:2": 1, "nt:3": 1, "nt:4": 1,
            "nt:time-dependent": 2,
            "dt:none+caller": 1, "dt:equal": 1, "dt:mismatch": 1,
            "pt-tempo-identity": 1, "bath-observables": 1,
            "bath-observables:rotated": 1,
            "entries_compared": 2000, "nan_entries_checked": 200}


def cases(tier, seed):
    out = []
    grids = [4] if tier == "quick" else [4, 5]
    models = 1 if tier == "quick" else 3
    for m in range(models):
        for nmax in grids:
            nspec = len(timespec.all_specs(nmax, 0.1, 0.0))
            for c in range(0, nspec, CHUNK):
                out.append({"kind": "spec", "seed": seed, "model": m,
                            "N": nmax, "lo": c, "hi": min(nspec, c + CHUNK),
                            "tier": tier})
    nnt = 12 if tier == "quick" else 60
    out += [{"kind": "nt", "seed": seed, "idx": i, "tier": tier}
            for i in range(nnt)]
    out += [{"kind": "dt", "seed": seed, "idx": i, "tier": tier}
            for i in range(3 if tier == "quick" else 12)]
    out += [{"kind": "pttempo", "seed": seed, "idx": i, "tier": tier}
            for i in range(2 if tier == "quick" else 10)]
    out += [{"kind": "bath", "seed": seed, "idx": i, "tier": tier}
            for i in range(4 if tier == "quick" else 16)]
    return out


def _model(seed, m, nmax, d=2):
    rng = gen.rng_for(seed, "c07m", m, nmax)
    e = 2
    env = ancilla.random_env(rng, d, e, ["unitary", "channel"][m % 2], 0.9)
    dt = [0.1, 0.2, 0.13][m % 3]
    # start times that are not multiples of dt (the float -> step mapping
    # must be relative to start_time)
    start = [0.537, 0.0, -0.71][m % 3]
    sysd = scen.random_system(rng, d, "const", n_lind=1)
    rho0 = gen.rand_state(rng, d)
    ops = [gen.cplx(rng, (d, d)) for _ in range(4)]
    return dict(rng=rng, env=env, dt=dt, start=start, sysd=sysd, rho0=rho0,
                ops=ops, d=d)


def _tables(md, nmax):
    hp = scen.halfprops(md["sysd"], md["dt"], md["start"], 256)
    a, b = md["ops"][0], md["ops"][1]
    t_ord = ancilla.dense_correlation_table(
        md["d"], [md["env"]], md["rho0"], nmax, hp, [a, b], ["left", "left"])
    t_anti = ancilla.dense_correlation_table(
        md["d"], [md["env"]], md["rho0"], nmax, hp, [b, a], ["right", "left"])
    return t_ord, t_anti


def run_spec(case):
    import oqupy
    nmax = case["N"]
    md = _model(case["seed"], case["model"], nmax)
    dt, start = md["dt"], md["start"]
    pt = ancilla.build_process_tensor(md["env"], nmax, dt=dt)
    t_ord, t_anti = _tables(md, nmax)
    a, b = md["ops"][0], md["ops"][1]
    specs = timespec.all_specs(nmax, dt, start)[case["lo"]:case["hi"]]
    rng = gen.rng_for(case["seed"], "c07s", case["model"], nmax, case["lo"])
    partners = [("slice", slice(None)), ("list", [nmax, 0, 2]),
                ("interval", (float(start + nmax * dt), float(start))),
                ("int", 2)]
    violations, cells, monitors = [], [], {"entries_compared": 0,
                                           "nan_entries_checked": 0,
                                           "calls": 0}
    sigs = set()
    nontrivial_specs = 0

    def denote(kind, spec):
        try:
            return timespec.interpret(spec, nmax, dt, start)
        except LookupError:
            return None

    for (kind, spec) in specs:
        idx = denote(kind, spec)
        if idx is None or len(idx) == 0:
            cells.append("spec:not-judged")
            continue
        for role in ("a", "b"):
            pk, pspec = partners[int(rng.integers(0, len(partners)))]
            pidx = denote(pk, pspec)
            for order in ("ordered", "anti"):
                ta_spec, tb_spec = (spec, pspec) if role == "a" else \
                    (pspec, spec)
                ia, ib = (idx, pidx) if role == "a" else (pidx, idx)
                monitors["calls"] += 1
                try:
                    times, corr = oqupy.compute_correlations(
                        md["sysd"]["oq"], pt, a, b, ta_spec, tb_spec,
                        time_order=order, initial_state=md["rho0"],
                        start_time=float(start), progress_type="silent")
                except Exception as exc:   # noqa
                    violations.append({
                        "what": f"compute_correlations raised "
                                f"{type(exc).__name__} for times_a={ta_spec!r} "
                                f"times_b={tb_spec!r} ({order}) although the "
                                f"specification denotes steps {ia} / {ib}",
                        "mechanism": "spec-rejected",
                        "detail": {"msg": str(exc)[:200]}})
                    continue
                ok = check_result(times, corr, ia, ib, order, t_ord, t_anti,
                                  dt, start, monitors)
                if ok is not True:
                    violations.append({
                        "what": f"times_a={ta_spec!r} times_b={tb_spec!r} "
                                f"({order}, N={nmax}): {ok}",
                        "mechanism": classify(kind, spec, idx, ok),
                        "detail": {"denoted_a": ia, "denoted_b": ib}})
                cells.append("order:" + order)
        cells.append("spec:" + kind)
        if kind == "interval" and idx[0] > idx[-1]:
            cells.append("spec:interval-reversed")
        if kind == "list" and len(idx) > 1 and idx != sorted(idx):
            cells.append("spec:list-descending")
        sigs.add((kind, tuple(idx)))
        nontrivial_specs += 1
        if len(violations) > 8:
            break
    return {"violations": violations[:10], "cells": cells,
            "monitors": monitors, "nontrivial": nontrivial_specs > 0,
            "signature": f"spec-{case['model']}-{nmax}-{case['lo']}",
            "maxratio": 0.0,
            "obs": {"distinct_specs": len(sigs)},
            "sample": {"kind": "spec", "N": nmax, "model": case["model"],
                       "chunk": [case["lo"], case["hi"]],
                       "examples": [repr(s[1]) for s in specs[:3]],
                       "denoted": [denote(*s) for s in specs[:3]]}}


def classify(kind, spec, idx, msg):
    if "time axis" in msg:
        return "time-axis"
    if kind == "list" and idx != sorted(idx):
        return "misaligned-entries"
    if kind == "interval" and len(idx) > 1 and idx[0] > idx[-1]:
        return "reversed-interval"
    if "NaN" in msg:
        return "nan-pattern"
    return "correlation-value"


def check_result(times, corr, ia, ib, order, t_ord, t_anti, dt, start,
                 monitors):
    """True or a message."""
    exp_ta = start + dt * np.array(ia, float)
    exp_tb = start + dt * np.array(ib, float)
    if len(times) != 2:
        return "returned time list has wrong length"
    ta, tb = np.asarray(times[0], float), np.asarray(times[1], float)
    if ta.shape != exp_ta.shape or tb.shape != exp_tb.shape \
            or (ta.size and np.abs(ta - exp_ta).max() > 1e-12) \
            or (tb.size and np.abs(tb - exp_tb).max() > 1e-12):
        return (f"time axis wrong: got {ta.tolist()} / {tb.tolist()}, "
                f"expected {exp_ta.tolist()} / {exp_tb.tolist()}")
    corr = np.asarray(corr)
    if corr.shape != (len(ia), len(ib)):
        return f"shape {corr.shape} != {(len(ia), len(ib))}"
    for n, i in enumerate(ia):
        for m, j in enumerate(ib):
            val = corr[n, m]
            if order == "ordered":
                valid = i <= j
                exp = t_ord.get((i, j))
            else:
                valid = j <= i
                exp = t_anti.get((j, i))
            if valid:
                monitors["entries_compared"] += 1
                if np.isnan(val):
                    return (f"entry [{n},{m}] (steps {i},{j}) is NaN but the "
                            f"requested ordering holds")
                if abs(val - exp) > TOL:
                    return (f"entry [{n},{m}] (steps {i},{j}) = {val:.6g} "
                            f"differs from the exact correlation {exp:.6g}")
            else:
                monitors["nan_entries_checked"] += 1
                if not np.isnan(val):
                    return (f"entry [{n},{m}] (steps {i},{j}) = {val:.6g} "
                            f"should be NaN (outside the requested ordering)")
    return True


def run_nt(case):
    import oqupy
    i = case["idx"]
    rng = gen.rng_for(case["seed"], "c07n", i)
    nops = 2 + i % 3
    nmax = 3
    d = 2
    env = ancilla.random_env(rng, d, 2, "unitary", 0.9)
    dt, start = 0.1, [0.0, 0.4][i % 2]
    pt = ancilla.build_process_tensor(env, nmax, dt=dt)
    # every second case: explicitly time-dependent system (the dynamics
    # behind the correlations must start at start_time); the library
    # integrates the Liouvillian to liouvillian_epsrel ~ 1.5e-8
    td = bool(i % 2)
    sysd = scen.random_system(rng, d, "td" if td else "const", n_lind=1)
    tol = 1e-7 if td else TOL
    rho0 = gen.rand_state(rng, d)
    ops = [gen.cplx(rng, (d, d)) for _ in range(nops)]
    hp = scen.halfprops(sysd, dt, start, 256)
    violations = []
    monitors = {"entries_compared": 0, "nan_entries_checked": 0, "calls": 0}
    patterns = list(itertools.product(["left", "right"], repeat=nops - 1))
    if case["tier"] == "quick":
        patterns = [patterns[k] for k in sorted(set(
            int(x) for x in rng.integers(0, len(patterns), size=2)))]
    for pat in patterns:
        sides = list(pat) + ["left"]
        table = ancilla.dense_correlation_table(d, [env], rho0, nmax, hp, ops,
                                                sides)
        # time specs per operator: mix of types
        choices = [slice(None), [3, 1, 0], [0, 2], slice(None, None, -1),
                   (float(start + 3 * dt), float(start)), 1,
                   float(start + 2.2 * dt), [2, 2, 0]]
        specs = [choices[int(rng.integers(0, len(choices)))]
                 for _ in range(nops)]
        idxs = [timespec.interpret(s, nmax, dt, start) for s in specs]
        monitors["calls"] += 1
        times, corr = oqupy.compute_correlations_nt(
            sysd["oq"], pt, ops, specs, sides, initial_state=rho0,
            start_time=float(start), progress_type="silent")
        corr = np.asarray(corr)
        if corr.shape != tuple(len(x) for x in idxs):
            violations.append({"what": f"nt: shape {corr.shape}",
                               "mechanism": "shape", "detail": {}})
            continue
        for k, (t, ix) in enumerate(zip(times, idxs)):
            if np.abs(np.asarray(t, float)
                      - (start + dt * np.array(ix, float))).max() > 1e-12:
                violations.append({"what": f"nt: time axis {k} wrong",
                                   "mechanism": "time-axis", "detail": {}})
        for pos in itertools.product(*[range(len(x)) for x in idxs]):
            steps = tuple(ix[p] for ix, p in zip(idxs, pos))
            valid = all(steps[k] <= steps[k + 1] for k in range(nops - 1))
            val = corr[pos]
            if valid:
                monitors["entries_compared"] += 1
                exp = table[steps]
                if np.isnan(val) or abs(val - exp) > tol:
                    violations.append({
                        "what": f"{nops}-operator correlation sides={sides} "
                                f"specs={specs!r}: entry {pos} (steps "
                                f"{steps}) = {val:.6g}, exact {exp:.6g}",
                        "mechanism": "nt-value", "detail": {}})
                    break
            else:
                monitors["nan_entries_checked"] += 1
                if not np.isnan(val):
                    violations.append({
                        "what": f"{nops}-operator correlation sides={sides} "
                                f"specs={specs!r}: entry {pos} (steps "
                                f"{steps}, not time ordered) = {val:.6g} "
                                f"should be NaN",
                        "mechanism": "nan-pattern", "detail": {}})
                    break
    return {"violations": violations[:6],
            "cells": [f"nt:{nops}"] + (["nt:time-dependent"] if td else []),
            "monitors": monitors, "nontrivial": True,
            "signature": f"nt-{nops}-{i}", "maxratio": 0.0, "obs": {},
            "sample": {"kind": "nt", "nops": nops,
                       "patterns": [list(p) for p in patterns]}}


def run_dt(case):
    """A time step passed by the caller governs both the returned time axes
    and the dynamics (or the call raises)."""
    import oqupy
    import warnings
    i = case["idx"]
    rng = gen.rng_for(case["seed"], "c07d", i)
    d, nmax = 2, 3
    env = ancilla.random_env(rng, d, 2, "unitary", 0.9)
    sysd = scen.random_system(rng, d, "const", n_lind=1)
    rho0 = gen.rand_state(rng, d)
    a, b = gen.cplx(rng, (d, d)), gen.cplx(rng, (d, d))
    dt_caller = [0.2, 0.1, 0.05][i % 3]
    start = 0.3
    violations, cells = [], []
    monitors = {"entries_compared": 0, "nan_entries_checked": 0, "calls": 0}
    hp = scen.halfprops(sysd, dt_caller, start, 256)
    t_ord = ancilla.dense_correlation_table(d, [env], rho0, nmax, hp, [a, b],
                                            ["left", "left"])
    for variant, stored in (("dt:none+caller", None),
                            ("dt:equal", dt_caller),
                            ("dt:mismatch", dt_caller * 2)):
        pt = ancilla.build_process_tensor(env, nmax, dt=stored)
        cells.append(variant)
        monitors["calls"] += 1
        try:
            with warnings.catch_warnings():
                warnings.simplefilter("ignore")
                times, corr = oqupy.compute_correlations(
                    sysd["oq"], pt, a, b, slice(None), slice(None),
                    initial_state=rho0, start_time=start, dt=dt_caller,
                    progress_type="silent")
        except Exception as exc:   # noqa
            if variant == "dt:mismatch":
                continue          # refusing a contradictory request is fine
            violations.append({
                "what": f"{variant}: compute_correlations raised "
                        f"{type(exc).__name__}: {str(exc)[:100]}",
                "mechanism": "caller-dt-rejected", "detail": {}})
            continue
        idx = list(range(nmax + 1))
        ok = check_result(times, corr, idx, idx, "ordered", t_ord, {},
                          dt_caller, start, monitors)
        if ok is not True:
            violations.append({
                "what": f"{variant} (caller dt={dt_caller}, stored "
                        f"{stored}): {ok}", "mechanism": "caller-dt-ignored",
                "detail": {}})
    return {"violations": violations, "cells": cells, "monitors": monitors,
            "nontrivial": True, "signature": f"dt-{i}", "maxratio": 0.0,
            "obs": {}, "sample": {"kind": "dt", "caller_dt": dt_caller}}


def run_pttempo(case):
    """Anti-ordered correlations are the complex conjugates of the ordered
    ones with daggered, exchanged operators (on PT-TEMPO process tensors)."""
    import oqupy
    i = case["idx"]
    rng = gen.rng_for(case["seed"], "c07p", i)
    d = 2
    p = gen.sd_params(rng)
    from vp import lib
    dt, nsteps, epsrel = 0.1, 4, 1e-9
    o, rm, scale = lib.guard_coupling(p, rng.normal(size=d), dt, nsteps, None,
                                      None, rng)
    v = gen.haar_unitary(rng, d) if i % 2 else np.eye(d)
    oper = v @ np.diag(o) @ v.conj().T
    oper = (oper + oper.conj().T) / 2
    start = 0.2
    pt = oqupy.pt_tempo_compute(
        oqupy.Bath(oper, gen.make_power_law(p)), start,
        lib.end_time(start, dt, nsteps), lib.tempo_params(dt, epsrel),
        progress_type="silent")
    sysd = scen.random_system(rng, d, "const", n_lind=1)
    rho0 = gen.rand_state(rng, d)
    a, b = gen.cplx(rng, (d, d)), gen.cplx(rng, (d, d))
    ta, tb = [3, 0, 4, 1], slice(None)
    _, anti = oqupy.compute_correlations(
        sysd["oq"], pt, a, b, ta, tb, time_order="anti", initial_state=rho0,
        start_time=start, progress_type="silent")
    # <B(tb) A(ta)>, tb<=ta  ==  conj <A^dag(ta) B^dag(tb)> (ordered, tb<=ta)
    _, ordr = oqupy.compute_correlations(
        sysd["oq"], pt, b.conj().T, a.conj().T, tb, ta, time_order="ordered",
        initial_state=rho0, start_time=start, progress_type="silent")
    anti, ordr = np.asarray(anti), np.asarray(ordr).T
    violations = []
    if anti.shape != ordr.shape:
        violations.append({"what": "shapes differ", "mechanism": "shape",
                           "detail": {}})
        dev = float("inf")
    else:
        nan_a, nan_o = np.isnan(anti), np.isnan(ordr)
        if (nan_a != nan_o).any():
            violations.append({"what": "NaN patterns of anti and ordered "
                               "(daggered, exchanged) differ",
                               "mechanism": "nan-pattern", "detail": {}})
        dev = float(np.nanmax(np.abs(anti - np.conj(ordr)))) \
            if (~nan_a).any() else 0.0
        bound = 100 * epsrel * scale
        if dev > bound:
            violations.append({
                "what": f"anti-ordered differs from conj(ordered with "
                        f"daggered exchanged operators) by {dev:.3e}",
                "mechanism": "anti-identity", "detail": {}})
    return {"violations": violations, "cells": ["pt-tempo-identity"],
            "monitors": {"entries_compared": int((~np.isnan(anti)).sum())},
            "nontrivial": True, "signature": f"pttempo-{i}", "maxratio": 0.0,
            "obs": {"anti_identity_dev": dev},
            "sample": gen.nice({"kind": "pttempo", "sd": p, "dev": dev})}


def run_bath(case):
    """Bath-mode occupations and two-time bath correlations of a
    pure-dephasing model vs the displaced-oscillator closed form (R9)."""
    import oqupy
    from vp import lib
    i = case["idx"]
    rng = gen.rng_for(case["seed"], "c07b", i)
    d = 2 + i % 2
    alpha = float(rng.uniform(0.05, 0.2))
    wc = float(rng.uniform(2.0, 5.0))
    temp = float(rng.uniform(0.5, 2.0))
    ctype = ["gaussian", "exponential"][i % 2]
    p = dict(alpha=alpha, zeta=1.0, cutoff=wc, cutoff_type=ctype,
             temperature=temp)
    dt, nsteps, epsrel = 0.1, 8, 1e-9
    o, rm, scale = lib.guard_coupling(p, rng.normal(size=d), dt, nsteps, None,
                                      None, rng)
    e = rng.normal(size=d)
    pr = rng.uniform(0.1, 1.0, size=d)
    pr /= pr.sum()
    # pure dephasing written in a rotated (complex) basis for odd cases: H, O
    # and rho0 share the eigenbasis V
    vrot = gen.haar_unitary(rng, d) if i % 2 else np.eye(d, dtype=complex)

    def rotm(a):
        m = vrot @ a @ vrot.conj().T
        return (m + m.conj().T) / 2
    rho0 = rotm(np.diag(pr).astype(complex))
    corr = gen.make_power_law(p)
    bath = oqupy.Bath(rotm(np.diag(o).astype(complex)), corr)
    sysm = oqupy.System(rotm(np.diag(e).astype(complex)))
    pt = oqupy.pt_tempo_compute(bath, 0.0, lib.end_time(0.0, dt, nsteps),
                                lib.tempo_params(dt, epsrel),
                                progress_type="silent")
    bd = oqupy.TwoTimeBathCorrelations(sysm, bath, pt, initial_state=rho0)
    o2 = float((pr * o ** 2).sum())
    from vp.ref import bath as rbath
    jf = rbath.spectral_density(p)
    violations = []
    worst = 0.0
    bound = 1e-6
    dw = 0.01
    for w in (float(rng.uniform(0.4, 1.5)), float(rng.uniform(1.5, wc))):
        t, occ = bd.occupation(w, dw=dw, change_only=True,
                               progress_type="silent")
        t = np.asarray(t)
        exact = jf(w) * dw * o2 * 2 * (1 - np.cos(w * t)) / w ** 2
        dev = float(np.abs(np.asarray(occ) - exact).max())
        worst = max(worst, dev / max(bound, 1e-3 * np.abs(exact).max()))
        if dev > max(bound, 1e-3 * np.abs(exact).max()):
            violations.append({
                "what": f"bath occupation change at w={w:.3g} deviates from "
                        f"J dw <O^2> 2(1-cos wt)/w^2 by {dev:.3e}",
                "mechanism": "bath-occupation", "detail": {}})

    def f(w, t):
        return (np.exp(-1j * w * t) - 1) / w
    w1, w2 = float(rng.uniform(0.5, 2.0)), float(rng.uniform(0.5, 2.0))
    t1, t2 = 0.3, 0.7
    # the same object is asked several times for the same modes and times
    # with other band widths (each answer belongs to ITS band widths)
    dws = [(dw, dw), (2 * dw, 0.5 * dw), (0.3 * dw, 0.3 * dw)]
    for dagg, (wa, wb), (dwa, dwb) in [
            (dg, ww, dd) for dd in dws
            for dg in ((1, 0), (0, 1), (1, 1), (0, 0))
            for ww in ((w1, w1), (w1, w2))]:
        if True:
            c = bd.correlation(wa, t1, wb, t2, dw=(dwa, dwb), dagg=dagg,
                               interaction_picture=False, change_only=False,
                               progress_type="silent")
            g1, g2 = np.sqrt(jf(wa)) * dwa, np.sqrt(jf(wb)) * dwb
            a1, a2 = f(wa, t1), f(wb, t2)
            x2 = np.conj(a2) if dagg[0] else a2
            x1 = np.conj(a1) if dagg[1] else a1
            ex = o2 * g1 * g2 * x2 * x1
            if wa == wb and dagg in ((1, 0), (0, 1)):
                n0 = 1 / np.expm1(wa / temp)
                ph = np.exp(1j * ((2 * dagg[0] - 1) * wb * t2
                                  + (2 * dagg[1] - 1) * wa * t1))
                ex = ex + (n0 + (1 if dagg == (0, 1) else 0)) * ph
            dev = abs(c - ex)
            tol = max(bound, 1e-3 * abs(ex))
            worst = max(worst, dev / tol)
            if dev > tol:
                violations.append({
                    "what": f"two-time bath correlation dagg={dagg} "
                            f"dw=({dwa:.3g},{dwb:.3g}) "
                            f"w=({wa:.3g},{wb:.3g}) deviates from the "
                            f"displaced-oscillator form by {dev:.3e}",
                    "mechanism": "bath-correlation", "detail": {}})
    return {"violations": violations[:6],
            "cells": ["bath-observables"] + (["bath-observables:rotated"]
                                             if i % 2 else []),
            "monitors": {"entries_compared": 26}, "nontrivial": True,
            "signature": f"bath-{i}", "maxratio": worst, "obs": {},
            "sample": gen.nice({"kind": "bath", "sd": p, "d": d})}


def run_case(case):
    return {"spec": run_spec, "nt": run_nt, "dt": run_dt,
            "pttempo": run_pttempo, "bath": run_bath}[case["kind"]](case)
