"""C08 - the adjoint gradient equals the derivative of the objective.

Oracle: central finite differences of the objective evaluated through an
independent forward path - the dense R4 model for ancilla environments (1..3
non-commuting environments), and the library's compute_dynamics with a
piecewise-constant TimeDependentSystem (subdiv_limit=None) for PT-TEMPO
environments (sigma_z + sigma_x baths in both orders). The reported dynamics
must equal that forward path. History variant: one ParameterizedSystem object
used with two different time steps.
"""
import numpy as np
from scipy.linalg import expm, expm_frechet

from vp import gen
from vp.ref import ancilla

ID = "C08"
LEVEL = "exploration"
BATCH = 3
CASE_TIMEOUT = 900
REL = 2e-6
RULE = ("seeded random parameter tables (2N x M, M=1..3, N=1..6), "
        "parameter-dependent Hamiltonians, rates and Lindblad operators, "
        "numerically differentiated or user-supplied (expm_frechet) "
        "propagator derivatives, 1..3 ancilla environments or PT-TEMPO "
        "sigma_z/sigma_x baths, array and callable targets; finite "
        "differences (h=1e-5, checked against h=2e-5) through an independent "
        "forward path. Non-trivial iff max|gradient| >= 1e-3 and (for "
        ">=2 environments) the environments do not commute; distinct = "
        "(env kind, #env, M, N, dissipator, derivative kind, target kind)")
ASSUMPTIONS = ["finite-difference truncation error estimated from two step "
               "sizes must be < 1e-7 relative, otherwise the case is skipped",
               "bound: 2e-6 relative to max|gradient|"]


def required_cells(tier):
    return {"env:ancilla": 6, "env:pttempo": 2, "nenv:1": 3, "nenv:2": 3,
            "nenv:3": 1, "M:1": 1, "M:2": 1, "M:3": 1, "N:1": 1,
            "dissipator:param": 3, "deriv:user": 2, "deriv:numeric": 3,
            "target:callable": 2, "target:array": 3, "callables-return-stored-arrays": 4, "pt:gauged": 4, "no-drift&zero-controls": 2, "shared-rate-callable": 4, "initial-matrix:non-hermitian": 2, "history:two-dt": 1, "start!=0": 5, "no-lindblad-terms": 2, "params:structured": 3, "lastbond:closed": 2, "lastbond:cap": 2,
            "gradient_entries_compared": 100}


def cases(tier, seed):
    n, npt = (56, 4) if tier == "quick" else (400, 30)
    out = [{"kind": "ancilla", "seed": seed, "idx": i, "tier": tier}
           for i in range(n)]
    out += [{"kind": "pttempo", "seed": seed, "idx": i, "tier": tier}
            for i in range(npt)]
    return out


class Model:
    """Parameterised dissipative system with M parameters."""

    def __init__(self, rng, d, m, param_diss, nodrift=False,
                 shared_rate=False, closed_system=False):
        self.d, self.m = d, m
        # a system without any Lindblad term (Hamiltonian controls with
        # complex matrix elements only)
        self.closed_system = closed_system
        self.h0 = gen.rand_herm(rng, d, 0.5)
        self.hk = [gen.rand_herm(rng, d, 0.8) for _ in range(m)]
        self.g0 = float(rng.uniform(0.1, 0.3))
        self.a0 = gen.cplx(rng, (d, d), 0.5)
        self.a1 = gen.cplx(rng, (d, d), 0.3)
        self.param_diss = param_diss
        # second jump operator driven by the SAME rate callable object
        self.a2 = gen.cplx(rng, (d, d), 0.5) if shared_rate else None
        if nodrift:
            # no drift term, real control Hamiltonians, real dissipator:
            # wherever all controls vanish the Liouvillian (and every
            # propagator) is a real matrix - its derivative is not
            self.h0 = np.zeros((d, d), dtype=complex)
            self.hk = [gen.rand_herm(rng, d, 0.8, real=True).astype(complex)
                       for _ in range(m)]
            self.a0 = rng.normal(size=(d, d)).astype(complex) * 0.5
            self.a1 = rng.normal(size=(d, d)).astype(complex) * 0.3
            if self.a2 is not None:
                self.a2 = rng.normal(size=(d, d)).astype(complex) * 0.5

    def h(self, *p):
        out = self.h0.copy()
        for k, x in enumerate(p):
            out = out + x * self.hk[k]
        return out

    def gamma(self, *p):
        return self.g0 * (1.0 + 0.5 * p[0] ** 2) if self.param_diss \
            else self.g0

    def lop(self, *p):
        return self.a0 + (p[-1] * self.a1 if self.param_diss else 0.0)

    def liou(self, *p):
        if self.closed_system:
            return gen.lindblad_super(self.h(*p), [], [])
        gs, ls = [self.gamma(*p)], [self.lop(*p)]
        if self.a2 is not None:
            gs.append(self.gamma(*p))
            ls.append(self.a2)
        return gen.lindblad_super(self.h(*p), gs, ls)

    def fixed_arity(self, fn):
        m = self.m
        if m == 1:
            return lambda a: fn(a)
        if m == 2:
            return lambda a, b: fn(a, b)
        return lambda a, b, c: fn(a, b, c)

    def user_derivs(self):
        def pderivs(dt_, params):
            p = list(params)
            base = self.liou(*p) * dt_ / 2
            out = []
            for k in range(self.m):
                hstep = 1e-6
                pp, pm = list(p), list(p)
                pp[k] += hstep
                pm[k] -= hstep
                dl = (self.liou(*pp) - self.liou(*pm)) / (2 * hstep)
                out.append(expm_frechet(base, dl * dt_ / 2,
                                        compute_expm=False))
            return out
        return pderivs

    def system(self, user, stored_arrays=False):
        """stored_arrays: the Hamiltonian pieces and the jump operator handed
        to the library are arrays the caller keeps (the callables return the
        SAME complex array object at every call where they can); kept in
        self.user_arrays so that the caller can see whether they were
        written to."""
        import oqupy
        lop, h = self.lop, self.h
        self.user_arrays = []
        if stored_arrays:
            a0u = np.array(self.a0, dtype=complex)
            h0u = np.array(self.h0, dtype=complex)
            self.user_arrays = [(a0u, a0u.copy()), (h0u, h0u.copy())]
            if not self.param_diss:
                def lop(*p):
                    return a0u

            def h(*p):
                out = h0u
                for k, x in enumerate(p):
                    out = out + x * self.hk[k]
                return out
        if self.closed_system:
            return oqupy.ParameterizedSystem(
                self.fixed_arity(h),
                propagator_derivatives=self.user_derivs() if user else None)
        rate = self.fixed_arity(self.gamma)
        gammas, lops = [rate], [self.fixed_arity(lop)]
        if self.a2 is not None:
            a2 = self.a2
            gammas.append(rate)          # the same callable object
            lops.append(self.fixed_arity(lambda *p: a2))
        return oqupy.ParameterizedSystem(
            self.fixed_arity(h), gammas, lops,
            propagator_derivatives=self.user_derivs() if user else None)


def fd_gradient(zfun, params, h):
    g = np.zeros(params.shape, dtype=complex)
    for a in range(params.shape[0]):
        for b in range(params.shape[1]):
            p1, p2 = params.copy(), params.copy()
            p1[a, b] += h
            p2[a, b] -= h
            g[a, b] = (zfun(p1) - zfun(p2)) / (2 * h)
    return g


def judge(res, fd, fd2, forward_states, violations, what):
    g = np.asarray(res["gradient"])
    scale = float(np.abs(fd).max())
    fd_err = float(np.abs(fd - fd2).max()) / max(scale, 1e-12)
    if fd_err > 1e-7:
        return None, scale, fd_err
    if g.shape != fd.shape:
        violations.append({"what": f"{what}: gradient shape {g.shape} != "
                           f"{fd.shape}", "mechanism": "shape", "detail": {}})
        return float("inf"), scale, fd_err
    rel = float(np.abs(g - fd).max()) / max(scale, 1e-12)
    if rel > REL:
        a, b = np.unravel_index(int(np.argmax(np.abs(g - fd))), g.shape)
        violations.append({
            "what": f"{what}: gradient deviates from finite differences by "
                    f"{rel:.3e} (relative to max|grad|={scale:.3g}); worst "
                    f"entry half-step {a}, parameter {b}: {g[a, b]:.6g} vs "
                    f"{fd[a, b]:.6g}",
            "mechanism": "gradient-deviation",
            "detail": {"rel_by_halfstep": (np.abs(g - fd).max(axis=1)
                                           / max(scale, 1e-12))}})
    dyn = np.array(res["dynamics"].states)
    if dyn.shape != forward_states.shape:
        violations.append({"what": f"{what}: reported dynamics has "
                           f"{dyn.shape[0]} states", "mechanism": "length",
                           "detail": {}})
    else:
        dd = float(np.abs(dyn - forward_states).max())
        if dd > 1e-9:
            violations.append({
                "what": f"{what}: reported dynamics differ from the forward "
                        f"dynamics of the same piecewise-constant controls "
                        f"by {dd:.3e}", "mechanism": "dynamics-deviation",
                "detail": {}})
    fs = np.asarray(res["final_state"])
    if np.abs(fs - forward_states[-1]).max() > 1e-9:
        violations.append({"what": f"{what}: final_state differs from the "
                           "forward dynamics", "mechanism": "final-state",
                           "detail": {}})
    return rel, scale, fd_err


def run_ancilla(case):
    import oqupy
    i = case["idx"]
    rng = gen.rng_for(case["seed"], "c08a", i)
    d = 2
    m = 1 + i % 3
    nsteps = [1, 2, 3, 4, 2, 6, 3][i % 7]
    nenv = [1, 2, 1, 3, 2, 2][i % 6]
    if nenv == 3:
        nsteps = min(nsteps, 3)
    param_diss = bool(i % 2)
    user = bool(i % 4 == 1)
    callable_target = bool(i % 3 == 2)
    history = bool(i % 8 in (2, 5))
    dt = float(rng.choice([0.1, 0.2]))
    nodrift = bool(i % 10 == 4)
    shared_rate = bool(i % 5 == 2)
    closed_system = bool(i % 12 == 7)
    if closed_system:
        param_diss, shared_rate, nodrift = False, False, False
    model = Model(rng, d, m, param_diss, nodrift=nodrift,
                  shared_rate=shared_rate, closed_system=closed_system)
    envs = [ancilla.random_env(rng, d, 2, ["unitary", "channel"][j % 2], 0.8)
            for j in range(nenv)]
    # two equally exact representations: open last bond closed by the cap
    # vector, or last tensor contracted with the ancilla trace (bond 1)
    closed = bool((i // 2) % 2) and all(
        abs(np.trace(sum(k.conj().T @ k for k in e.kraus)) - 2 * d) < 1e-9
        for e in envs)
    if closed:
        from vp.checks.c03 import build_pt
        pts = [build_pt(e, nsteps, dt, False, None, "compute") for e in envs]
    else:
        # every third case: each process tensor in its own random gauge of
        # the bonds (different, non-trivial final caps per environment)
        gauged = bool(i % 3 == 1)
        pts = [ancilla.build_process_tensor(
            e, nsteps, dt=dt, gauge=gen.rng_for(case["seed"], "c08g", i, j)
            if gauged else None) for j, e in enumerate(envs)]
    rho0 = gen.rand_state(rng, d)
    # the relation is linear algebra: it holds for any initial matrix, also
    # one that is no density matrix (holomorphic objective then)
    general_rho0 = bool(callable_target and i % 6 == 5)
    if general_rho0:
        rho0 = gen.cplx(rng, (d, d), 0.5)
        rho0 = rho0 / np.trace(rho0)
    params = rng.normal(size=(2 * nsteps, m)) * 0.7
    # structured tables: some controls held constant over a full step (both
    # halves equal) while others vary per half step; some steps fully constant
    structured = bool(i % 4 == 2)
    if structured:
        for k in range(nsteps):
            params[2 * k + 1, 0] = params[2 * k, 0]
        if nsteps >= 2:
            params[3, :] = params[2, :]
    if nodrift:
        # switched-off pulse segments: all controls exactly zero there
        for row in range(0, 2 * nsteps, 2):
            params[row, :] = 0.0
        if nsteps == 1:
            params[1, :] = 0.0
    sig1, sig2 = gen.rand_herm(rng, d), gen.rand_herm(rng, d)
    target = gen.cplx(rng, (d, d))

    def forward(p, dt_=dt, n=nsteps, envs_=envs):
        def hp(k):
            return (expm(model.liou(*p[2 * k]) * dt_ / 2),
                    expm(model.liou(*p[2 * k + 1]) * dt_ / 2))
        return ancilla.dense_dynamics(d, envs_, rho0, n, hp)

    if callable_target and general_rho0:
        amat, bmat = gen.cplx(rng, (d, d)), gen.cplx(rng, (d, d))

        def zval(rho):
            return np.trace(amat @ rho) ** 2 + np.trace(bmat @ rho)

        def tderiv(rho):
            return 2 * np.trace(amat @ rho) * amat.T + bmat.T
        tgt = tderiv
    elif callable_target:
        def zval(rho):
            return np.real(np.trace(sig1 @ rho)) ** 2 \
                + np.real(np.trace(sig2 @ rho))

        def tderiv(rho):
            return 2 * np.real(np.trace(sig1 @ rho)) * sig1.T + sig2.T
        tgt = tderiv
    else:
        def zval(rho):
            return np.dot(target.reshape(-1), rho.reshape(-1))
        tgt = target.copy()
    zfun = lambda p: zval(forward(p)[-1])
    stored = bool(i % 4 in (0, 3))
    system = model.system(user, stored_arrays=stored)
    violations, cells, monitors = [], [], {}
    if stored:
        cells.append("callables-return-stored-arrays")
    if not closed and i % 3 == 1:
        cells.append("pt:gauged")
    if nodrift:
        cells.append("no-drift&zero-controls")
    if closed_system:
        cells.append("no-lindblad-terms")
    if shared_rate:
        cells.append("shared-rate-callable")
    if general_rho0:
        cells.append("initial-matrix:non-hermitian")
    if history:
        # use the same system object first with another time step
        dt0 = dt * 2
        n0 = 2
        pts0 = [ancilla.build_process_tensor(e, n0, dt=dt0) for e in envs]
        oqupy.state_gradient(system, rho0, tgt if callable_target
                             else target.copy(), pts0,
                             rng.normal(size=(2 * n0, m)),
                             progress_type="silent")
        cells.append("history:two-dt")
    start = [0.0, 1.5, -0.7, 0.0][i % 4]
    if start:
        res = oqupy.state_gradient(system, rho0, tgt, pts, params.copy(),
                                   start_time=start, progress_type="silent")
        cells.append("start!=0")
    else:
        res = oqupy.state_gradient(system, rho0, tgt, pts, params.copy(),
                                   progress_type="silent")
    # the dynamics it reports: every state at the time it belongs to
    tg = np.asarray(res["dynamics"].times, dtype=float)
    texp = start + dt * np.arange(nsteps + 1)
    if tg.shape != texp.shape or np.abs(tg - texp).max() > 1e-12:
        violations.append({
            "what": f"the reported dynamics carries the times "
                    f"{tg.tolist()[:5]}.. for start_time={start}, dt={dt}",
            "mechanism": "dynamics-times", "detail": {}})
    for arr, orig in model.user_arrays:
        if not np.array_equal(arr, orig):
            violations.append({
                "what": "an array returned by the caller's Hamiltonian / "
                        "Lindblad callable was written to by the library "
                        f"(changed by {np.abs(arr - orig).max():.3e})",
                "mechanism": "caller-array-modified", "detail": {}})
    fd = fd_gradient(zfun, params, 1e-5)
    fd2 = fd_gradient(zfun, params, 2e-5)
    rel, scale, fd_err = judge(res, fd, fd2, forward(params), violations,
                               f"{nenv} ancilla env(s), M={m}, N={nsteps}")
    if rel is None:
        return {"skipped": "finite_difference_unreliable"}
    monitors["gradient_entries_compared"] = int(fd.size)
    cells += ["env:ancilla", f"nenv:{nenv}", f"M:{m}",
              "lastbond:" + ("closed" if closed else "cap"),
              "deriv:" + ("user" if user else "numeric"),
              "target:" + ("callable" if callable_target else "array")]
    if structured:
        cells.append("params:structured")
    if nsteps == 1:
        cells.append("N:1")
    if param_diss:
        cells.append("dissipator:param")
    sig = ("ancilla", nenv, m, nsteps, param_diss, user, callable_target,
           history)
    return {"violations": violations, "cells": cells, "monitors": monitors,
            "nontrivial": scale >= 1e-3, "signature": str(sig),
            "maxratio": rel / REL, "obs": {"rel_err": rel, "fd_err": fd_err,
                                           "grad_scale": scale},
            "sample": gen.nice({"kind": "ancilla", "nenv": nenv, "M": m,
                                "N": nsteps, "dt": dt,
                                "param_dissipator": param_diss,
                                "user_derivatives": user,
                                "callable_target": callable_target,
                                "history_two_dt": history, "rel_err": rel})}


def run_pttempo(case):
    import oqupy
    from vp import lib
    i = case["idx"]
    rng = gen.rng_for(case["seed"], "c08p", i)
    d, m = 2, 2
    nsteps = 3
    dt = 0.1
    param_diss = bool(i % 2)
    model = Model(rng, d, m, param_diss)
    p = dict(alpha=float(rng.uniform(0.1, 0.3)), zeta=1.0, cutoff=3.0,
             cutoff_type="gaussian", temperature=float(rng.uniform(0.3, 1.0)))
    sz = 0.5 * np.diag([1.0, -1.0]).astype(complex)
    sx = 0.5 * np.array([[0, 1], [1, 0]], complex)
    par = lib.tempo_params(dt, 1e-10)
    end = lib.end_time(0.0, dt, nsteps)
    corr = gen.make_power_law(p)
    ptz = oqupy.pt_tempo_compute(oqupy.Bath(sz, corr), 0.0, end, par,
                                 progress_type="silent")
    ptx = oqupy.pt_tempo_compute(oqupy.Bath(sx, corr), 0.0, end, par,
                                 progress_type="silent")
    order = [[ptz, ptx], [ptx, ptz], [ptz]][i % 3]
    rho0 = gen.rand_state(rng, d)
    params = rng.normal(size=(2 * nsteps, m)) * 0.7
    target = gen.cplx(rng, (d, d))

    def forward(pp):
        def idx(t):
            return min(int(np.floor(t / (dt / 2) + 1e-9)), len(pp) - 1)
        ts = oqupy.TimeDependentSystem(
            lambda t: model.h(*pp[idx(t)]),
            [lambda t: model.gamma(*pp[idx(t)])],
            [lambda t: model.lop(*pp[idx(t)])])
        return np.array(oqupy.compute_dynamics(
            ts, rho0, process_tensor=list(order), subdiv_limit=None,
            progress_type="silent").states)
    zfun = lambda pp: np.dot(target.reshape(-1), forward(pp)[-1].reshape(-1))
    res = oqupy.state_gradient(model.system(False), rho0, target.copy(),
                               list(order), params.copy(),
                               progress_type="silent")
    fd = fd_gradient(zfun, params, 1e-5)
    fd2 = fd_gradient(zfun, params, 2e-5)
    violations = []
    rel, scale, fd_err = judge(res, fd, fd2, forward(params), violations,
                               f"PT-TEMPO {['z+x', 'x+z', 'z'][i % 3]}")
    if rel is None:
        return {"skipped": "finite_difference_unreliable"}
    cells = ["env:pttempo", f"nenv:{len(order)}", f"M:{m}", "deriv:numeric",
             "target:array"]
    if param_diss:
        cells.append("dissipator:param")
    return {"violations": violations, "cells": cells,
            "monitors": {"gradient_entries_compared": int(fd.size)},
            "nontrivial": scale >= 1e-3,
            "signature": f"pttempo-{i % 3}-{param_diss}",
            "maxratio": rel / REL, "obs": {"rel_err": rel, "fd_err": fd_err},
            "sample": gen.nice({"kind": "pttempo", "order":
                                ["z+x", "x+z", "z"][i % 3], "sd": p,
                                "rel_err": rel})}


def run_case(case):
    return run_ancilla(case) if case["kind"] == "ancilla" \
        else run_pttempo(case)
