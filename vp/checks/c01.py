"""C01 - TEMPO and PT-TEMPO reproduce exactly solvable models.

Reference monitors: R2 (independent-boson closed form with the documented
memory bookkeeping) for commuting pairs, R3 (explicit system+modes evolution)
for finite-mode baths with non-commuting dissipative systems. Both through
Tempo.compute and pt_tempo_compute + compute_dynamics, compared at every step.
"""
import numpy as np

from vp import gen
from vp.ref import bath as rbath
from vp.ref import models

ID = "C01"
LEVEL = "exploration"
BATCH = 6
CASE_TIMEOUT = 240
C_BOUND = 100.0    # frozen after calibration sweep (see DESIGN 2.1)
RULE = ("seeded random commuting models (spectral density x cutoff x T x basis "
        "x degeneracy x memory setting x epsrel x unique x API) vs closed form "
        "R2, and finite-mode baths with non-commuting dissipative systems vs "
        "explicit joint evolution R3; non-trivial iff the bath changes some "
        "matrix element by >= 1e-2 (measured on the reference); distinct = "
        "distinct coverage signature (kind,d,cutoff,T=0?,K class,tau class,"
        "basis,degenerate,unique,api)")
ASSUMPTIONS = [
    "reference integrals by scipy.quad at epsrel 1e-12 (self-checked against "
    "the T=0 closed form in C12)",
    "conditioning guard R<=8 (DESIGN 2.3): beyond it the path sum loses all "
    "digits in floating point",
    "R3 Fock truncation self-test (n vs n+3) must agree to 1e-9",
]


def required_cells(tier):
    req = {"shape:upper-triangle": 5, "shape:square": 5, "shape:rectangle": 2,
           "T=0": 2, "T>0": 2, "cutoff:hard": 1, "cutoff:exponential": 1,
           "cutoff:gaussian": 1, "n>K": 2, "K>=N": 1, "tau:None": 2,
           "tau:0": 1, "tau:finite": 1, "tau:inf": 1, "basis:rotated": 2,
           "degenerate_o": 1, "unique": 2, "api:tempo": 3, "api:pt": 3,
           "modes": 2, "modes:lindblad": 1, "custom_j": 1,
           "long-times": 3, "subdiv_limit:small": 6,
           "bath-from-scanned-correlations-object": 3,
           "loose-tolerance-preview-on-same-bath": 10,
           "initial-state:non-contiguous": 10, "pt-route:file": 2, "pt-route:auto-file": 2,
           "pt-route:reimport-file": 2, "pt-route:file+reopen-simple": 2,
           "pt-route:file-or-import&rotated": 4}
    return req


def cases(tier, seed):
    n_comm, n_modes = (240, 32) if tier == "quick" else (1600, 120)
    out = []
    for i in range(n_comm):
        out.append({"kind": "commuting", "seed": seed, "idx": i, "tier": tier})
    for i in range(n_modes):
        out.append({"kind": "modes", "seed": seed, "idx": i, "tier": tier})
    return out


class ShapeCounter:
    """Counting wrapper on correlation_2d_integral (observes which cell shapes
    the library actually requested)."""

    def __init__(self, cls):
        self.cls = cls
        self.orig = cls.correlation_2d_integral
        self.shapes = {}
        counter = self

        def wrapped(obj, *a, **kw):
            shape = kw.get("shape", a[3] if len(a) > 3 else "square")
            counter.shapes[shape] = counter.shapes.get(shape, 0) + 1
            return counter.orig(obj, *a, **kw)
        cls.correlation_2d_integral = wrapped

    def close(self):
        self.cls.correlation_2d_integral = self.orig


def _gen_commuting(case):
    rng = gen.rng_for(case["seed"], "c01c", case["idx"])
    i = case["idx"]
    quick = case["tier"] == "quick"
    p = gen.sd_params(rng, strong=True,
                      cutoff_type=gen.CUTOFFS[i % 3],
                      temperature=(0.0 if (i // 3) % 3 == 0 else None))
    custom = (i % 7 == 3)
    d = int(rng.choice([2, 2, 3, 3, 4])) if not quick else int(rng.choice([2, 2, 3, 3, 4]))
    energies = rng.normal(size=d)
    if i % 4 == 1 and d >= 3:
        o = rng.normal(size=d)
        o[1] = o[0]                      # repeated coupling eigenvalue
        if d == 4 and rng.random() < 0.5:
            o[3] = 0.0
    else:
        o = rng.normal(size=d)
    vkind = ["identity", "haar", "perm", "real", "identity", "phase"][i % 6]
    dt = float(rng.choice([0.05, 0.1, 0.15, 0.2, 0.3]))
    nsteps = int(rng.integers(3, 9 if quick else 12))
    if d == 4:
        nsteps = min(nsteps, 6)
    if d == 3 and i % 2 == 1:
        # PT-TEMPO with 9-dimensional legs: bond dimensions (and SVD times,
        # > 1 h per case at N = 11, strong coupling) explode beyond N ~ 8
        nsteps = min(nsteps, 8)
    long_times = bool(i % 16 in (5, 12))
    if long_times:
        # long times: cutoff*t up to ~200 (strongly oscillating frequency
        # integrands); the closed form is exact for any time step
        dt = float(rng.choice([1.0, 2.0, 4.0]))
        nsteps = int(rng.integers(3, 6))
        p["cutoff"] = float(rng.uniform(4.0, 10.0))
        if p["cutoff_type"] != "hard":
            # the library integrates the tail [cutoff, inf) with scipy's
            # infinite-range rule, which degrades for cutoff*t >~ 150 (open
            # finding inf-tail-quad-glitch of C12): stay below 100 there
            dt = min(dt, 100.0 / (p["cutoff"] * (nsteps + 1)))
    kchoice = i % 5
    if kchoice == 0:
        kmax = None
    elif kchoice == 1:
        kmax = int(rng.integers(1, max(2, nsteps - 1)))     # K < N
    elif kchoice == 2:
        kmax = nsteps                                       # K = N
    elif kchoice == 3:
        kmax = nsteps + int(rng.integers(1, 3))             # K > N
    else:
        kmax = int(rng.integers(1, nsteps))
    tchoice = (i // 5) % 5
    tau = [None, 0.0, float(rng.uniform(0.1, 0.9) * dt),
           float(rng.uniform(1.1, 2.5) * dt), float("inf")][tchoice]
    if kmax is None:
        tau = None
    epsrel = float(rng.choice([1e-7, 1e-8, 1e-9, 1e-10]))
    unique = bool(i % 3 == 2)
    api = "pt" if i % 2 == 1 else "tempo"
    use_tcut = bool(kmax is not None and i % 4 in (2, 3))
    skind = ["mixed", "pure", "rankdef"][i % 3]
    return dict(rng=rng, p=p, custom=custom, d=d, energies=energies, o=o,
                long_times=long_times,
                vkind=vkind, dt=dt, nsteps=nsteps, kmax=kmax, tau=tau,
                epsrel=epsrel, unique=unique, api=api, use_tcut=use_tcut,
                skind=skind)


def _custom_j(p):
    a, z, wc = p["alpha"], p["zeta"], p["cutoff"]
    return lambda w: 2.0 * a * w ** z * wc ** (1 - z) * (1.0 + 0.5 * w / (w + wc))


ROUTES = ("memory", "memory", "file", "auto-file", "reimport-file",
          "memory", "file+reopen-simple")


def _run_lib(api, system, bath, rho0, start, dt, nsteps, params, unique,
             route="memory"):
    """route: how the PT-TEMPO process tensor is held - in memory, computed
    straight into a file (own name / library's temporary file), or exported
    and imported again."""
    import oqupy
    from vp import lib
    end = start + (nsteps + 0.4) * dt
    if api == "tempo":
        t = oqupy.Tempo(system, bath, params, rho0, start, unique=unique)
        dyn = t.compute(end, progress_type="silent")
    else:
        fb = {"file": True, "auto-file": "auto",
              "file+reopen-simple": True}.get(route, False)
        re = {"reimport-file": "file"}.get(route)
        dyn = lib.run_pt_bath(system, bath, rho0, start, dt, nsteps, params,
                              unique, 256, fb, re, reopen="simple" if
                              route == "file+reopen-simple" else None)
    return dyn


def _attribute_to_tail_glitch(corr, p, epsrel, dt, nsteps, tau, spread, err,
                              bound):
    """Evidence-based attribution of a state deviation to the open finding
    inf-tail-quad-glitch (C12): some eta(t) on the time grid of this very
    computation is wrong in the library, the harness' replica of the pinned
    integrand with the same scipy.quad calls reproduces the library value
    bitwise-close, the same integrand with the tail integrated on finite
    pieces reproduces the independent reference, AND the size of the state
    deviation is what that eta error explains. Otherwise the deviation keeps
    its own mechanism."""
    from vp.mon import quadtwin
    tw = quadtwin.Twin(corr, p, epsrel)
    times = [k * dt for k in range(1, nsteps + 2)]
    if tau not in (None, 0.0) and np.isfinite(tau):
        times += [k * dt + tau for k in range(1, nsteps + 2)]
    worst = None
    for t in times:
        lib = corr.eta_function(t, epsrel=epsrel)
        refv = rbath.eta(p, t)
        e = abs(lib - refv)
        if worst is None or e > worst[1]:
            worst = (t, e, lib, refv)
    t, e, lib, refv = worst
    if e == 0.0:
        return "closed-form-deviation", {}
    rep = tw.eta(t, "replica")
    fin = tw.eta(t, "finite")
    explains = err <= 10.0 * spread ** 2 * e + bound
    if abs(lib - rep) <= 1e-3 * e and abs(fin - refv) <= 0.1 * e \
            and e > 10 * epsrel * abs(refv) and explains:
        return "inf-tail-quad-glitch", {
            "t": t, "eta_err": e, "lib_minus_replica": abs(lib - rep),
            "finite_tail_minus_ref": abs(fin - refv)}
    return "closed-form-deviation", {}


def run_commuting(case):
    import oqupy
    g = _gen_commuting(case)
    rng, p, d = g["rng"], dict(g["p"]), g["d"]
    dt, nsteps, kmax, tau = g["dt"], g["nsteps"], g["kmax"], g["tau"]
    if g["custom"]:
        p["j"] = _custom_j(p)
    eta_f = lambda t: rbath.eta(p, t)
    sums, re_abs = models.memory_sums(eta_f, dt, nsteps, kmax, tau)
    o = np.array(g["o"])
    rmeasure = gen.conditioning(re_abs, o)
    rescaled = False
    if rmeasure > gen.R_MAX:
        o = o * np.sqrt(gen.R_MAX * rng.uniform(0.3, 0.95) / rmeasure)
        rmeasure = gen.conditioning(re_abs, o)
        rescaled = True
    v = gen.structured_unitary(rng, d, g["vkind"])
    h = v @ np.diag(g["energies"]) @ v.conj().T
    oper = v @ np.diag(o) @ v.conj().T
    oper = (oper + oper.conj().T) / 2
    rho0 = gen.rand_state(rng, d, g["skind"])
    rho0_eig = v.conj().T @ rho0 @ v
    ref_eig = models.independent_boson_states(rho0_eig, g["energies"], o,
                                              sums, dt)
    ref = np.array([v @ r @ v.conj().T for r in ref_eig])
    free = np.array([v @ r @ v.conj().T for r in
                     models.independent_boson_states(
                         rho0_eig, g["energies"], o, [0j] * (nsteps + 1), dt)])
    effect = float(np.abs(ref - free).max())

    if g["custom"]:
        corr = oqupy.CustomSD(p["j"], cutoff=p["cutoff"],
                              cutoff_type=p["cutoff_type"],
                              temperature=p["temperature"])
    else:
        corr = gen.make_power_law(p)
    bath = oqupy.Bath(oper, corr)
    scanned = False
    if case["idx"] % 11 == 7 and not g["custom"] and nsteps <= 6:
        # a parameter scan with ONE correlations object: the bath of this
        # case was taken from it first, then the object was heated up and a
        # second bath taken, which is run first on the same time grid
        scanned = True
        corr.temperature = p["temperature"] * 2.0 + 3.0
        corr.alpha = p["alpha"] * 0.5
        hot_bath = oqupy.Bath(oper, corr)
    kw = dict(dt=dt, epsrel=g["epsrel"])
    if kmax is not None:
        if g["use_tcut"]:
            # as a user writes it: 0.3 for three steps of 0.1 (not the float
            # product 0.30000000000000004)
            kw["tcut"] = float(repr(round(kmax * dt, 10)))
        else:
            kw["dkmax"] = kmax
        if tau is not None:
            kw["add_correlation_time"] = tau
    # subdiv_limit concerns the integration of time-dependent Liouvillians
    # only: for a time-independent system any value is without effect
    sub = [256, None, 2, 256, 10, 1][case["idx"] % 6]
    kw["subdiv_limit"] = sub
    params = oqupy.TempoParameters(**kw)
    system = oqupy.System(h)
    start = 0.0 if case["idx"] % 4 else 1.7
    counter = ShapeCounter(type(corr))
    try:
        route = ROUTES[(case["idx"] // 2) % len(ROUTES)] \
            if g["api"] == "pt" else "memory"
        if scanned:
            _run_lib("tempo", system, hot_bath, rho0, start, dt, nsteps,
                     params, g["unique"], "memory")
        preview = bool(case["idx"] % 5 == 3 and not scanned)
        if preview:
            # a quick look with a loose tolerance first, on the same bath
            # object and the same grid, then the computation proper
            _run_lib("tempo", system, bath, rho0, start, dt, nsteps,
                     oqupy.TempoParameters(**dict(kw, epsrel=1e-2)),
                     g["unique"], "memory")
        if case["idx"] % 13 == 5:
            # the System object was used with another time step before
            oqupy.compute_dynamics(system, rho0, dt=2.5 * dt, num_steps=1,
                                   progress_type="silent")
        # the caller's array may have any memory layout
        lay = [None, "F", None, "T"][(case["idx"] // 3) % 4]
        rho_in = rho0 if lay is None else (
            np.asfortranarray(rho0) if lay == "F"
            else np.ascontiguousarray(rho0.T).T)
        dyn = _run_lib(g["api"], system, bath, rho_in, start, dt, nsteps,
                       params, g["unique"], route)
    finally:
        counter.close()
    states = np.array(dyn.states)
    violations = []
    # scale of the requested-tolerance bound (cancellation in second
    # differences of eta): 1 + spread^2 * sum_k |eta(k dt)|
    spread = float(o.max() - o.min())
    eta_mag = sum(abs(eta_f(k * dt)) for k in range(1, nsteps + 2))
    scale = 1.0 + spread ** 2 * eta_mag
    from vp.lib import pt_growth
    growth = pt_growth(nsteps) if g["api"] == "pt" else 1.0
    # scipy's default epsabs (1.49e-8) is part of the quadrature tolerance
    # the library requests for every eta value
    floor = 1.49e-8 * spread ** 2 * 3 * (nsteps + 1)
    bound = C_BOUND * g["epsrel"] * scale * growth + floor
    if states.shape != ref.shape:
        violations.append({
            "what": f"returned {states.shape[0]} states, expected {ref.shape[0]}",
            "mechanism": "length", "detail": {}})
        err = float("inf")
    else:
        errs = np.abs(states - ref).max(axis=(1, 2))
        err = float(errs.max())
        if not err <= bound:
            k = int(np.argmax(errs))
            mech, evidence = "closed-form-deviation", {}
            if p["cutoff_type"] != "hard" and not scanned:
                mech, evidence = _attribute_to_tail_glitch(
                    corr, p, g["epsrel"], dt, nsteps, tau, spread, err, bound)
            violations.append({
                "what": f"state at step {k} deviates from closed form by "
                        f"{errs[k]:.3e} > bound {bound:.3e}"
                        + (f" [eta({evidence['t']:.6g}) of this bath is off "
                           f"by {evidence['eta_err']:.2e}: the library's "
                           f"[cutoff, inf) quadrature]" if evidence else ""),
                "mechanism": mech,
                "detail": {"errs": errs, "bound": bound,
                           "lib": states[k], "ref": ref[k],
                           "evidence": evidence}})
    cells = [f"shape:{s}" for s in counter.shapes]
    cells += ["T=0" if p["temperature"] == 0 else "T>0",
              "cutoff:" + p["cutoff_type"],
              "api:" + g["api"]]
    kclass = "None"
    if kmax is not None:
        cells.append("n>K" if nsteps > kmax else "K>=N")
        kclass = "<N" if kmax < nsteps else ("=N" if kmax == nsteps else ">N")
        cells.append("K" + kclass)
    tclass = ("None" if tau is None else "0" if tau == 0 else
              "inf" if tau == float("inf") else "finite")
    cells.append("tau:" + tclass)
    if g["vkind"] != "identity":
        cells.append("basis:rotated")
    degenerate = len(set(np.round(o, 12))) < d
    if degenerate:
        cells.append("degenerate_o")
    if g["unique"]:
        cells.append("unique")
    if g["custom"]:
        cells.append("custom_j")
    if g["long_times"]:
        cells.append("long-times")
    if sub not in (256, None):
        cells.append("subdiv_limit:small")
    if scanned:
        cells.append("bath-from-scanned-correlations-object")
    if preview:
        cells.append("loose-tolerance-preview-on-same-bath")
    if lay is not None:
        cells.append("initial-state:non-contiguous")
    if route != "memory":
        cells.append("pt-route:" + route)
        if g["vkind"] != "identity":
            cells.append("pt-route:file-or-import&rotated")
    if rescaled:
        cells.append("rescaled_to_conditioning_guard")
    sig = ("comm", d, p["cutoff_type"], p["temperature"] == 0, kclass, tclass,
           g["vkind"], degenerate, g["unique"], g["api"], g["custom"])
    return {
        "violations": violations, "cells": cells,
        "monitors": {"steps_compared": int(ref.shape[0]),
                     "shape_calls": int(sum(counter.shapes.values()))},
        "nontrivial": effect >= 1e-2, "signature": str(sig),
        "maxratio": err / bound if bound > 0 else 0.0,
        "obs": {"R": rmeasure, "err": err, "effect": effect,
                "err_over_eps_scale": err / (g["epsrel"] * scale)},
        "sample": gen.nice({"kind": "commuting", "sd": g["p"], "d": d,
                            "o": list(o), "E": list(g["energies"]),
                            "basis": g["vkind"], "dt": dt, "N": nsteps,
                            "dkmax": kmax, "add_correlation_time": tau,
                            "epsrel": g["epsrel"], "unique": g["unique"],
                            "api": g["api"], "state": g["skind"],
                            "R": rmeasure, "err": err, "bound": bound}),
    }


def run_modes(case):
    import oqupy
    rng = gen.rng_for(case["seed"], "c01m", case["idx"])
    i = case["idx"]
    quick = case["tier"] == "quick"
    nm = [1, 2, 1, 2, 3][i % 5] if not quick else [1, 2, 1, 2][i % 4]
    modes = []
    for _ in range(nm):
        w = float(rng.uniform(0.6, 3.0))
        gcoup = float(rng.uniform(0.15, 0.5))
        hi = 0.45 if nm < 3 else 0.3
        temp = 0.0 if rng.random() < 0.4 else float(rng.uniform(0.15, hi) * w)
        modes.append((w, gcoup, temp))
    d = 2 if (quick or nm == 3) else int(rng.choice([2, 3]))
    h = gen.rand_herm(rng, d, 0.6)
    with_l = (i % 2 == 0)
    gammas, lops = ([float(rng.uniform(0.05, 0.3))],
                    [gen.cplx(rng, (d, d), 0.6)]) if with_l else ([], [])
    o = rng.normal(size=d)
    vkind = ["identity", "haar", "real"][i % 3]
    v = gen.structured_unitary(rng, d, vkind)
    coupling = v @ np.diag(o) @ v.conj().T
    coupling = (coupling + coupling.conj().T) / 2
    dt = float(rng.choice([0.1, 0.15, 0.2, 0.25]))
    nsteps = int(rng.integers(3, 6 if quick else 7))
    epsrel = float(rng.choice([1e-8, 1e-9]))
    rho0 = gen.rand_state(rng, d, ["mixed", "pure"][i % 2])
    api = "pt" if i % 2 == 1 else "tempo"
    ws, gs, ts = zip(*modes)
    eta_f = rbath.finite_mode_eta(ws, gs, ts)
    _, re_abs = models.memory_sums(eta_f, dt, nsteps, None, None)
    if gen.conditioning(re_abs, o) > gen.R_MAX:
        return {"skipped": "ill_conditioned"}
    # thermal occupation decides the Fock truncation
    nmax = 12 if nm == 1 else (10 if nm == 2 else 7)
    ref = models.finite_mode_dynamics(h, gammas, lops, coupling, modes, rho0,
                                      dt, nsteps, nmax)
    ref2 = models.finite_mode_dynamics(h, gammas, lops, coupling, modes, rho0,
                                       dt, nsteps, nmax + (3 if nm < 3 else 2))
    trunc = float(np.abs(ref - ref2).max())
    if trunc > 1e-9:
        return {"skipped": "reference_fock_truncation_not_converged"}
    ref = ref2
    free = models.finite_mode_dynamics(
        h, gammas, lops, coupling, [(w, 0.0, t) for w, _, t in modes], rho0,
        dt, nsteps, 2)
    effect = float(np.abs(ref - free).max())
    cfun = rbath.finite_mode_correlation(ws, gs, ts)
    corr = oqupy.CustomCorrelations(cfun)
    bath = oqupy.Bath(coupling, corr)
    system = oqupy.System(h, gammas, lops)
    params = oqupy.TempoParameters(dt=dt, epsrel=epsrel, dkmax=None)
    dyn = _run_lib(api, system, bath, rho0, 0.0, dt, nsteps, params, False)
    states = np.array(dyn.states)
    spread = float(o.max() - o.min())
    eta_mag = sum(abs(eta_f(k * dt)) for k in range(1, nsteps + 2))
    scale = 1.0 + spread ** 2 * eta_mag
    from vp.lib import pt_growth
    bound = C_BOUND * epsrel * scale * (pt_growth(nsteps) if api == "pt"
                                        else 1.0) + 10 * trunc
    violations = []
    if states.shape != ref.shape:
        violations.append({"what": f"returned {states.shape[0]} states, "
                           f"expected {ref.shape[0]}", "mechanism": "length",
                           "detail": {}})
        err = float("inf")
    else:
        errs = np.abs(states - ref).max(axis=(1, 2))
        err = float(errs.max())
        if not err <= bound:
            k = int(np.argmax(errs))
            violations.append({
                "what": f"state at step {k} deviates from explicit "
                        f"system+modes evolution by {errs[k]:.3e} > {bound:.3e}",
                "mechanism": "finite-mode-deviation",
                "detail": {"errs": errs, "bound": bound}})
    cells = ["modes", "api:" + api]
    if with_l:
        cells.append("modes:lindblad")
    if vkind != "identity":
        cells.append("basis:rotated")
    sig = ("modes", d, nm, with_l, vkind, api)
    return {
        "violations": violations, "cells": cells,
        "monitors": {"steps_compared": int(ref.shape[0])},
        "nontrivial": effect >= 1e-2, "signature": str(sig),
        "maxratio": err / bound,
        "obs": {"err_modes": err, "fock_truncation_error": trunc},
        "sample": gen.nice({"kind": "modes", "modes": modes, "d": d,
                            "lindblad": with_l, "basis": vkind, "dt": dt,
                            "N": nsteps, "epsrel": epsrel, "api": api,
                            "err": err, "bound": bound}),
    }


def run_case(case):
    if case["kind"] == "commuting":
        return run_commuting(case)
    return run_modes(case)
