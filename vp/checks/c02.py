"""C02 - TEMPO and PT-TEMPO + compute_dynamics produce the same dynamics.

Differential monitor (two executions of the real code that must agree at every
step), prefix monitor (first n steps of a longer process tensor vs a process
tensor built for exactly n steps), tolerance ladder (bound must hold at
several epsrel with one constant) and a time-argument trace monitor on the
user callables H(t), gamma(t), A(t) (with subdiv_limit=None both back-ends must
request exactly the sample times start+k*dt+dt/4, +3dt/4).
"""
import numpy as np

from vp import gen, scen
from vp.ref import bath as rbath
from vp.ref import models

ID = "C02"
LEVEL = "exploration"
BATCH = 4
CASE_TIMEOUT = 300
C_BOUND = 100.0
RULE = ("seeded random non-commuting systems (constant / time-dependent H, "
        "gamma, A; 0-2 Lindblad terms) x coupling (diagonal, rotated, "
        "degenerate) x spectral density x T x memory setting x start_time x "
        "subdiv_limit x unique; TEMPO vs PT-TEMPO at every step, prefix n<N "
        "vs exact-n process tensor, epsrel ladder, sample-time trace. "
        "Non-trivial iff bath changes the state by >=1e-2 and [H,O]!=0; "
        "distinct = (d,coupling kind,cutoff,T=0?,K class,tau class,system "
        "kind,subdiv,unique,start) signature")
ASSUMPTIONS = ["conditioning guard R<=8", "bound constant calibrated on the "
               "unchanged tree (DESIGN 2.1)"]


def required_cells(tier):
    return {"system:td": 5, "system:const": 5, "coupling:diag": 3,
            "coupling:rotated": 3, "coupling:degenerate": 2, "unique": 3,
            "subdiv:None": 3, "prefix": 5, "final-state-only": 10,
            "final-state-only&td": 4, "ladder": 2, "trace": 3,
            "start!=0": 3, "tau:set": 2, "K:set": 5,
            "pt-inspected-before-use": 5,
            "initial-matrix:non-hermitian": 3,
            "pt-route:file": 1, "pt-route:auto-file": 1,
            "pt-route:file+reopen-simple": 1, "pt-route:reimport-file": 1,
            "pt-route&non-diagonal-coupling": 4,
            "initial-state-layout:fortran": 3,
            "initial-state-layout:transposed-view": 3,
            "initial-state-layout:strided": 3}


def cases(tier, seed):
    n = 160 if tier == "quick" else 1200
    return [{"kind": "diff", "seed": seed, "idx": i, "tier": tier}
            for i in range(n)]


def _setup(case, probe_a=None, probe_b=None):
    import oqupy
    i = case["idx"]
    rng = gen.rng_for(case["seed"], "c02", i)
    quick = case["tier"] == "quick"
    p = gen.sd_params(rng, strong=True, cutoff_type=gen.CUTOFFS[i % 3],
                      temperature=(0.0 if i % 4 == 0 else None))
    d = int(rng.choice([2, 2, 3])) if quick else int(rng.choice([2, 3, 3, 4]))
    ckind = ["diag", "rotated", "degenerate", "rotated"][i % 4]
    o = rng.normal(size=d)
    if ckind == "degenerate":
        if d == 2:
            d = 3
            o = rng.normal(size=d)
        o[1] = o[0]
    dt = float(rng.choice([0.05, 0.1, 0.2]))
    nsteps = int(rng.integers(3, 8 if quick else 11))
    if d >= 3:
        nsteps = min(nsteps, 6 if quick else 8)
    if d == 4:
        nsteps = min(nsteps, 5)
    kmax = [None, int(rng.integers(1, nsteps)), nsteps + 1,
            int(rng.integers(1, nsteps))][i % 4]
    tau = None
    if kmax is not None:
        tau = [None, 0.0, float(rng.uniform(0.2, 1.8) * dt),
               float("inf")][(i // 4) % 4]
    epsrel = float(rng.choice([1e-7, 1e-8, 1e-9]))
    unique = bool(i % 3 == 1)
    start = [0.0, -0.3, 1.7][i % 3]
    skind = "td" if i % 2 else "const"
    subdiv = None if (skind == "td" and (i // 2) % 2 == 0) else 256
    # conditioning guard
    eta_f = lambda t: rbath.eta(p, t)
    _, re_abs = models.memory_sums(eta_f, dt, nsteps, kmax, tau)
    rm = gen.conditioning(re_abs, o)
    if rm > gen.R_MAX:
        o = o * np.sqrt(gen.R_MAX * rng.uniform(0.3, 0.95) / rm)
        rm = gen.conditioning(re_abs, o)
    if ckind in ("rotated", "degenerate") and not (ckind == "degenerate"
                                                    and i % 8 == 2):
        v = gen.haar_unitary(rng, d)
    else:
        v = np.eye(d, dtype=complex)
    oper = v @ np.diag(o) @ v.conj().T
    oper = (oper + oper.conj().T) / 2
    rho0 = gen.rand_state(rng, d, ["mixed", "pure", "rankdef"][i % 3])
    sys_seed = int(rng.integers(0, 2**31))
    sys_a = scen.random_system(gen.rng_for(sys_seed), d, skind, probe_a)
    sys_b = scen.random_system(gen.rng_for(sys_seed), d, skind, probe_b)
    spread = float(o.max() - o.min())
    eta_mag = sum(abs(eta_f(k * dt)) for k in range(1, nsteps + 2))
    scale = 1.0 + spread ** 2 * eta_mag
    return dict(rng=rng, p=p, d=d, ckind=ckind, o=o, oper=oper, dt=dt,
                nsteps=nsteps, kmax=kmax, tau=tau, epsrel=epsrel,
                unique=unique, start=start, skind=skind, subdiv=subdiv,
                rho0=rho0, sys_a=sys_a, sys_b=sys_b, scale=scale, R=rm)


def _params(g, epsrel=None):
    import oqupy
    kw = dict(dt=g["dt"], epsrel=epsrel or g["epsrel"],
              subdiv_limit=g["subdiv"])
    if g["kmax"] is not None:
        kw["dkmax"] = g["kmax"]
        if g["tau"] is not None:
            kw["add_correlation_time"] = g["tau"]
    else:
        kw["dkmax"] = None
    return oqupy.TempoParameters(**kw)


def _tempo(g, sysd, params, nsteps=None):
    import oqupy
    n = nsteps or g["nsteps"]
    bath = oqupy.Bath(g["oper"], gen.make_power_law(g["p"]))
    end = g["start"] + (n + 0.4) * g["dt"]
    t = oqupy.Tempo(sysd["oq"], bath, params, g["rho0"], g["start"],
                    unique=g["unique"])
    return t.compute(end, progress_type="silent")


def _pt(g, params, nsteps=None):
    import oqupy
    n = nsteps or g["nsteps"]
    bath = oqupy.Bath(g["oper"], gen.make_power_law(g["p"]))
    end = g["start"] + (n + 0.4) * g["dt"]
    return oqupy.pt_tempo_compute(bath, g["start"], end, params,
                                  unique=g["unique"], progress_type="silent")


def _layout(rho, kind):
    """The same density matrix in another memory layout."""
    if kind == "fortran":
        return np.asfortranarray(rho)
    if kind == "transposed-view":
        return np.ascontiguousarray(rho.T).T
    if kind == "strided":
        big = np.zeros((2 * rho.shape[0], 2 * rho.shape[1]), complex)
        big[::2, ::2] = rho
        return big[::2, ::2]
    return rho


def _dyn(g, sysd, pt, num_steps=None, record_all=True):
    import oqupy
    return oqupy.compute_dynamics(
        sysd["oq"], _layout(g["rho0"], g.get("layout")),
        start_time=g["start"], process_tensor=pt,
        num_steps=num_steps, subdiv_limit=g["subdiv"],
        record_all=record_all, progress_type="silent")


def _pt_dyn_routed(g, sysd, params, route):
    """PT-TEMPO + compute_dynamics with the process tensor computed straight
    into a file / re-opened / re-imported (vp.lib.run_pt_bath)."""
    import oqupy
    from vp import lib
    bath = oqupy.Bath(g["oper"], gen.make_power_law(g["p"]))
    fb = {"file": True, "auto-file": "auto",
          "file+reopen-simple": True}.get(route, False)
    re = {"reimport-file": "file"}.get(route)
    return lib.run_pt_bath(
        sysd["oq"], bath, _layout(g["rho0"], g.get("layout")), g["start"],
        g["dt"], g["nsteps"], params, g["unique"], g["subdiv"], fb, re,
        reopen="simple" if route == "file+reopen-simple" else None)


def run_case(case):
    i = case["idx"]
    probe_a, probe_b = scen.Probe(), scen.Probe()
    g = _setup(case, probe_a, probe_b)
    params = _params(g)
    nsteps, dt, start = g["nsteps"], g["dt"], g["start"]
    violations, cells, monitors = [], [], {}
    if i % 8 == 5:
        # a general (non-Hermitian) initial matrix, e.g. A rho0 as used for
        # correlation functions: both methods are linear maps and must agree
        r0 = gen.cplx(g["rng"], (g["d"], g["d"]), 0.5)
        g["rho0"] = r0 / np.trace(r0)
        cells.append("initial-matrix:non-hermitian")
    probe_a.log.clear()      # drop the constructors' own probing calls
    probe_b.log.clear()
    dyn_t = _tempo(g, g["sys_a"], params)
    log_a = list(probe_a.log)
    pt = _pt(g, params)
    if i % 3 == 2:
        # the process tensor is inspected before it is used (read-only)
        for k in range(len(pt)):
            pt.get_mpo_tensor(k, transformed=False)
            pt.get_cap_tensor(k)
        pt.get_bond_dimensions()
        cells.append("pt-inspected-before-use")
    g["layout"] = [None, "fortran", None, "transposed-view", "strided"][i % 5]
    if g["layout"]:
        cells.append("initial-state-layout:" + g["layout"])
    dyn_p = _dyn(g, g["sys_b"], pt)
    log_b = list(probe_b.log)
    st, sp = np.array(dyn_t.states), np.array(dyn_p.states)
    from vp.lib import pt_growth
    growth = pt_growth(nsteps)
    bound = C_BOUND * g["epsrel"] * g["scale"] * growth
    worst = 0.0
    if st.shape != sp.shape or st.shape[0] != nsteps + 1:
        violations.append({"what": f"lengths differ: tempo {st.shape[0]}, "
                           f"pt {sp.shape[0]}, expected {nsteps + 1}",
                           "mechanism": "length", "detail": {}})
    else:
        errs = np.abs(st - sp).max(axis=(1, 2))
        worst = float(errs.max()) / bound
        if errs.max() > bound:
            k = int(np.argmax(errs > bound))
            violations.append({
                "what": f"TEMPO and PT-TEMPO differ at step {k} by "
                        f"{errs[k]:.3e} > bound {bound:.3e}",
                "mechanism": "tempo-vs-pt", "detail": {"errs": errs}})
        if not (np.allclose(dyn_t.times, dyn_p.times, rtol=0, atol=1e-12)
                and np.allclose(dyn_t.times, start + dt * np.arange(nsteps + 1),
                                rtol=0, atol=1e-12)):
            violations.append({"what": "time axes differ",
                               "mechanism": "times", "detail": {
                                   "tempo": list(dyn_t.times),
                                   "pt": list(dyn_p.times)}})
        monitors["steps_compared"] = nsteps + 1
    # non-triviality: bath effect
    import oqupy
    free = np.array(oqupy.compute_dynamics(
        g["sys_b"]["oq"], g["rho0"], dt=dt, num_steps=nsteps,
        start_time=start, subdiv_limit=g["subdiv"],
        progress_type="silent").states)
    effect = float(np.abs(sp - free).max()) if sp.shape == free.shape else 1.0
    h0 = g["sys_a"]["h0"]
    comm = float(np.abs(h0 @ g["oper"] - g["oper"] @ h0).max())

    # trace monitor (sample times)
    if g["skind"] == "td" and g["subdiv"] is None:
        # Trace specification: the distinct times at which each callable is
        # sampled during the computation are exactly start+k*dt+dt/4 and
        # +3dt/4, k=0..N-1, for both back-ends, with equal multiplicities
        # (numpy.vectorize inside the library evaluates each sample twice).
        exp = sorted([start + k * dt + dt / 4 for k in range(nsteps)]
                     + [start + k * dt + 3 * dt / 4 for k in range(nsteps)])
        cells.append("trace")
        names = sorted({e[0] for e in log_a} | {e[0] for e in log_b})
        for name in names:
            ta = sorted(e[1] for e in log_a if e[0] == name)
            tb = sorted(e[1] for e in log_b if e[0] == name)
            monitors["trace_events"] = monitors.get("trace_events", 0) \
                + len(ta) + len(tb)
            ua = sorted(set(np.round(ta, 11)))
            ub = sorted(set(np.round(tb, 11)))
            ok = (len(ua) == len(exp) and len(ub) == len(exp)
                  and np.allclose(ua, exp, rtol=0, atol=1e-10)
                  and np.allclose(ub, exp, rtol=0, atol=1e-10)
                  and len(ta) == len(tb)
                  and np.allclose(ta, tb, rtol=0, atol=1e-10))
            if not ok:
                violations.append({
                    "what": f"sample times of {name} differ from "
                            "start+k*dt+dt/4,+3dt/4 or between the back-ends",
                    "mechanism": "sample-times",
                    "detail": {"tempo": ua[:6], "pt": ub[:6],
                               "expected": exp[:6],
                               "n": [len(ta), len(tb), len(exp)]}})

    # prefix monitor
    if i % 2 == 0 and nsteps >= 3:
        cells.append("prefix")
        ns = sorted(set(int(x) for x in
                        g["rng"].integers(2, nsteps, size=2)))
        for n in ns:
            d_long = np.array(_dyn(g, g["sys_b"], pt, num_steps=n).states)
            pt_n = _pt(g, params, nsteps=n)
            d_exact = np.array(_dyn(g, g["sys_b"], pt_n).states)
            monitors["prefix_compared"] = monitors.get("prefix_compared", 0) + 1
            if len(pt_n) != n:
                violations.append({"what": f"process tensor for {n} steps "
                                   f"has length {len(pt_n)}",
                                   "mechanism": "length", "detail": {}})
                continue
            if d_long.shape != d_exact.shape:
                violations.append({"what": "prefix lengths differ",
                                   "mechanism": "length", "detail": {}})
                continue
            e = float(np.abs(d_long - d_exact).max())
            worst = max(worst, e / bound)
            if e > bound:
                violations.append({
                    "what": f"first {n} of {nsteps} steps differ from the "
                            f"exact-{n}-step process tensor by {e:.3e}",
                    "mechanism": "prefix", "detail": {"n": n}})
            # and the prefix of the long run equals the long run
            e2 = float(np.abs(d_long - sp[:n + 1]).max())
            if e2 > 1e-11:
                violations.append({
                    "what": f"num_steps={n} run differs from the full run's "
                            f"first steps by {e2:.3e}",
                    "mechanism": "prefix-self", "detail": {}})

    # only the final state requested (record_all=False): the state TEMPO
    # reaches at that time, for the whole run and for a shorter one
    if i % 2 == 1 and not violations:
        cells.append("final-state-only")
        if g["sys_b"]["td"]:
            cells.append("final-state-only&td")
        for n in (None, max(2, nsteps // 2)):
            df = _dyn(g, g["sys_b"], pt, num_steps=n, record_all=False)
            sf = np.array(df.states)
            k = nsteps if n is None else n
            monitors["final_only_compared"] = \
                monitors.get("final_only_compared", 0) + 1
            if sf.shape[0] != 1 or abs(df.times[0] - (start + k * dt)) > 1e-9:
                violations.append({
                    "what": f"record_all=False: {sf.shape[0]} state(s) at "
                            f"times {list(df.times)[:3]}, expected the one "
                            f"at {start + k * dt}", "mechanism": "length",
                    "detail": {}})
                continue
            e = float(np.abs(sf[0] - st[k]).max())
            worst = max(worst, e / bound)
            if e > bound:
                violations.append({
                    "what": f"record_all=False (num_steps={n}): the final "
                            f"state differs from TEMPO's state at step {k} "
                            f"by {e:.3e} > {bound:.3e}",
                    "mechanism": "tempo-vs-pt",
                    "detail": {"num_steps": n, "td": g["sys_b"]["td"]}})

    # the same process tensor computed straight into a file / re-opened /
    # exported and imported again (the coupling operator is non-diagonal in
    # most cases: the stored transforms matter)
    if i % 4 == 1 and not violations:
        route = ["file", "auto-file", "file+reopen-simple",
                 "reimport-file"][(i // 4) % 4]
        cells.append("pt-route:" + route)
        if g["ckind"] != "diag":
            cells.append("pt-route&non-diagonal-coupling")
        d_r = np.array(_pt_dyn_routed(g, g["sys_b"], params, route).states)
        monitors["routes_compared"] = monitors.get("routes_compared", 0) + 1
        if d_r.shape != st.shape:
            violations.append({"what": f"route {route}: lengths differ",
                               "mechanism": "length", "detail": {}})
        else:
            e = float(np.abs(d_r - st).max())
            worst = max(worst, e / bound)
            if e > bound:
                violations.append({
                    "what": f"PT-TEMPO process tensor via {route} "
                            f"({g['ckind']} coupling): dynamics differ from "
                            f"TEMPO by {e:.3e} > {bound:.3e}",
                    "mechanism": "tempo-vs-pt", "detail": {"route": route}})

    # tolerance ladder
    if i % 6 == 1:
        cells.append("ladder")
        for eps in (1e-5, 1e-7, 1e-9):
            par = _params(g, eps)
            a = np.array(_tempo(g, g["sys_a"], par).states)
            b = np.array(_dyn(g, g["sys_b"], _pt(g, par)).states)
            e = float(np.abs(a - b).max())
            bnd = C_BOUND * eps * g["scale"] * growth
            worst = max(worst, e / bnd)
            monitors["ladder_rungs"] = monitors.get("ladder_rungs", 0) + 1
            if e > bnd:
                violations.append({
                    "what": f"at epsrel={eps:g} TEMPO/PT-TEMPO differ by "
                            f"{e:.3e} > {bnd:.3e} (bound must tighten with "
                            f"the tolerance)",
                    "mechanism": "ladder", "detail": {"epsrel": eps}})

    cells += ["system:" + g["skind"], "coupling:" + ("diag" if g["ckind"] ==
              "diag" else g["ckind"])]
    if g["unique"]:
        cells.append("unique")
    if g["subdiv"] is None:
        cells.append("subdiv:None")
    if start != 0.0:
        cells.append("start!=0")
    if g["kmax"] is not None:
        cells.append("K:set")
    if g["tau"] is not None:
        cells.append("tau:set")
    kclass = "None" if g["kmax"] is None else (
        "<N" if g["kmax"] < nsteps else ">=N")
    tclass = ("None" if g["tau"] is None else "0" if g["tau"] == 0 else
              "inf" if g["tau"] == float("inf") else "finite")
    sig = (g["d"], g["ckind"], g["p"]["cutoff_type"],
           g["p"]["temperature"] == 0, kclass, tclass, g["skind"],
           g["subdiv"], g["unique"], start)
    return {"violations": violations, "cells": cells, "monitors": monitors,
            "nontrivial": effect >= 1e-2 and comm > 1e-3,
            "signature": str(sig), "maxratio": worst,
            "obs": {"R": g["R"], "effect": effect,
                    "ratio_over_eps_scale": worst * C_BOUND},
            "sample": gen.nice({"sd": g["p"], "d": g["d"],
                                "coupling": g["ckind"], "dt": dt,
                                "N": nsteps, "dkmax": g["kmax"],
                                "add_correlation_time": g["tau"],
                                "epsrel": g["epsrel"], "unique": g["unique"],
                                "start": start, "system": g["skind"],
                                "subdiv_limit": g["subdiv"],
                                "worst_ratio": worst})}
