"""C11 - the Gibbs-state computation returns the exact reduced thermal state.

Reference monitors (R7): closed form p_i ~ exp(-(E_i - lambda o_i^2)/T) for
commuting models at several numbers of imaginary-time steps; alpha = 0 gives
exp(-H/T)/Z for complex Hermitian H; weak-coupling sequence (deviation linear
in alpha); diagonal-phase covariance rho(V H V^dag) = V rho(H) V^dag (exact
symmetry, distinguishes a transposed/conjugated result also at finite
coupling); physicality; history monitor: repeated compute()/get_state().
"""
import numpy as np

from vp import gen
from vp.ref import bath as rbath
from vp.ref import models

ID = "C11"
LEVEL = "exploration"
BATCH = 4
CASE_TIMEOUT = 300
C_BOUND = 100.0
RULE = ("seeded random diagonal couplings and commuting Hamiltonians (d=2..4), "
        "spectral densities, temperatures from wc/40 to 3 wc, n_steps in "
        "{2,3,5,8,20,50,100}; arbitrary complex Hermitian H at alpha=0 and "
        "alpha=1e-2,1e-3,1e-4; phase-covariance at finite coupling; histories "
        "of 1..3 compute() calls interleaved with get_state(). Non-trivial "
        "iff the reorganisation shift changes a population by >=1e-3 "
        "(commuting) / H has a complex off-diagonal element (canonical, "
        "covariance); distinct = (variant, d, cutoff, n_steps class, T class)")
ASSUMPTIONS = ["reorganisation energy by independent quadrature",
               "bound 100*epsrel*(1+lambda*max(o^2)/T)"]


def required_cells(tier):
    return {"variant:commuting": 8, "variant:canonical": 4,
            "variant:weak": 2, "variant:covariance": 4, "variant:history": 4,
            "lowT": 3, "complexH": 6, "n_steps:2": 1, "n_steps>=20": 2, "n_steps>256": 2,
            "energy-unit:1e-9": 2,
            "energy-offset:+20": 2, "energy-offset:-20": 2,
            "energy-offset:+35": 2, "preused_correlations": 10,
            "shared-parameters-across-temperatures": 2,
            "band_limited_j": 5,
            "two-baths-from-one-updated-correlations-object": 2}


def cases(tier, seed):
    n = 140 if tier == "quick" else 900
    return [{"kind": "gibbs", "seed": seed, "idx": i, "tier": tier}
            for i in range(n)]


def physical(rho, bound, violations, what):
    tr = abs(np.trace(rho) - 1)
    herm = float(np.abs(rho - rho.conj().T).max())
    w = np.linalg.eigvalsh((rho + rho.conj().T) / 2)
    if tr > bound or herm > bound or w.min() < -bound:
        violations.append({
            "what": f"{what}: Gibbs state not physical (trace defect "
                    f"{tr:.2e}, non-Hermitian {herm:.2e}, min eigenvalue "
                    f"{w.min():.2e})", "mechanism": "gibbs-unphysical",
            "detail": {}})
    return max(tr, herm, max(0.0, -w.min()))


def run_case(case):
    import oqupy
    i = case["idx"]
    rng = gen.rng_for(case["seed"], "c11", i)
    variant = ["commuting", "canonical", "commuting", "covariance",
               "history", "commuting", "weak"][i % 7]
    d = int(rng.choice([2, 3, 4])) if variant == "commuting" else \
        int(rng.choice([2, 3]))
    if variant == "commuting" and i % 35 == 0:
        d = min(d, 3)        # the long imaginary-time runs (below)
    ct = gen.CUTOFFS[i % 3]
    wc = float(10 ** rng.uniform(-0.2, 0.6))
    tclass = ["mid", "low", "high", "mid"][(i // 7) % 4]
    temp = {"mid": float(rng.uniform(0.3, 1.5)) * wc,
            "low": float(rng.uniform(1 / 40, 1 / 8)) * wc,
            "high": float(rng.uniform(2, 3)) * wc}[tclass]
    zeta = float(rng.choice([1.0, 1.5, 3.0, rng.uniform(1.0, 3.5)]))
    alpha = float(10 ** rng.uniform(-1.5, -0.3))
    p = dict(alpha=alpha, zeta=zeta, cutoff=wc, cutoff_type=ct,
             temperature=temp)
    n_steps = int([2, 3, 5, 8, 20, 50, 100][(i // 3) % 7])
    if tclass == "low" and variant == "commuting":
        n_steps = max(n_steps, 5)
    if d == 4:
        n_steps = min(n_steps, 20)
    if variant != "commuting" and not (variant == "history" and i % 2 == 0):
        # non-commuting models: the bond dimension (and the accumulated
        # truncation error ~ n^3 epsrel) grow quickly with n_steps
        n_steps = int([2, 3, 5, 8, 12, 20, 16][(i // 3) % 7])
    epsrel = float(rng.choice([1e-8, 1e-9, 1e-10]))
    long_run = bool(variant == "commuting" and i % 35 == 0 and d <= 3)
    if long_run:
        # more imaginary-time slices than any internal default length
        # (the imaginary-time memory is periodic, nothing may be cut)
        n_steps = [260, 270, 300, 264][(i // 35) % 4]
        epsrel = 1e-9
    o = rng.normal(size=d)
    if i % 5 == 1 and d >= 3:
        o[1] = o[0]
    lam = rbath.reorganisation_energy(p)
    # keep the shift moderate (beta*lambda*o^2 <= 6)
    smax = lam * float(np.max(o ** 2)) / temp
    if smax > 6:
        o = o * np.sqrt(6 * rng.uniform(0.3, 1.0) / smax)
    scale = 1.0 + lam * float(np.max(o ** 2)) / temp
    # truncation errors accumulate over the ~n_steps^2 SVDs of the
    # imaginary-time network (measured: Hermiticity defect 8..30 epsrel at
    # n=20, 270..600 epsrel at n=50)
    bound = C_BOUND * epsrel * scale * max(1.0, (n_steps / 5.0) ** 2)
    if long_run:
        # a commuting model has bond dimension one: no truncation error
        # accumulates, only the quadrature tolerance enters
        bound = C_BOUND * epsrel * scale
    oper = np.diag(o).astype(complex)
    violations, cells, monitors, obs = [], ["variant:" + variant], {}, {}
    if tclass == "low":
        cells.append("lowT")
    if n_steps == 2:
        cells.append("n_steps:2")
    if n_steps >= 20:
        cells.append("n_steps>=20")
    if long_run:
        cells.append("n_steps>256")
    gp = oqupy.GibbsParameters(n_steps, epsrel)

    preused = bool((i // 7) % 2)

    def gibbs(h, pp=p, params=gp):
        corr = gen.make_power_law(pp) if i % 2 else gen.make_custom_sd(pp)
        if i % 2 == 0 and pp["cutoff_type"] == "hard":
            # a density that is DEFINED only inside its band (a tabulated /
            # semicircular J): nan above the hard cutoff, where nothing may
            # be evaluated
            a_, z_, wc_ = pp["alpha"], pp["zeta"], pp["cutoff"]

            def jband(w):
                if w > wc_:
                    return float("nan")
                return 2.0 * a_ * w ** z_ * wc_ ** (1 - z_)
            corr = oqupy.CustomSD(np.vectorize(jband, otypes=[float]),
                                  cutoff=wc_, cutoff_type="hard",
                                  temperature=pp["temperature"])
            monitors["band_limited_j"] = 1
        if preused:
            # the same correlations object has answered REAL-time questions
            # for exactly the arguments the imaginary-time network will ask
            dtau = 1.0 / (pp["temperature"] * params.n_steps)
            for k in range(min(params.n_steps, 12) + 1):
                corr.correlation_2d_integral(
                    dtau, k * dtau,
                    shape="upper-triangle" if k == 0 else "square")
                corr.eta_function(k * dtau)
            monitors["preused_correlations"] = 1
        return oqupy.gibbs_tempo_compute(oqupy.System(h),
                                         oqupy.Bath(oper, corr), params,
                                         progress_type="silent")

    nontrivial = True
    if variant == "commuting" and (i // 14) % 3 == 1:
        # a temperature scan with ONE GibbsParameters object: the step
        # length 1/(T n) belongs to each computation, not to the object
        t_first = temp * [1.7, 0.6][(i // 42) % 2]
        e_first = rng.normal(size=d)
        st_first = oqupy.gibbs_tempo_compute(
            oqupy.System(np.diag(e_first).astype(complex)),
            oqupy.Bath(oper, gen.make_power_law(dict(p, temperature=t_first))),
            gp, progress_type="silent")
        lam_first = rbath.reorganisation_energy(dict(p, temperature=t_first))
        ref_first = models.gibbs_commuting(e_first, o, lam_first, t_first)
        cells.append("shared-parameters-across-temperatures")
        if float(np.abs(st_first - ref_first).max()) > bound * max(
                1.0, temp / t_first):
            violations.append({
                "what": "first computation of a temperature scan deviates "
                        "from the closed form", "mechanism": "gibbs-closed-form",
                "detail": {}})
    if variant == "commuting" and (i // 14) % 3 == 2:
        # two baths taken from ONE correlations object before and after its
        # coupling strength was changed, used one after the other on the
        # same imaginary-time grid
        corr_sh = gen.make_power_law(p)
        bath_1 = oqupy.Bath(oper, corr_sh)
        p_b = dict(p, alpha=p["alpha"] * 2.5)
        corr_sh.alpha = p_b["alpha"]
        bath_2 = oqupy.Bath(oper, corr_sh)
        e_sh = rng.normal(size=d)
        hs = oqupy.System(np.diag(e_sh).astype(complex))
        s_1 = oqupy.gibbs_tempo_compute(hs, bath_1, gp, progress_type="silent")
        s_2 = oqupy.gibbs_tempo_compute(hs, bath_2, gp, progress_type="silent")
        lam_b = rbath.reorganisation_energy(p_b)
        r_1 = models.gibbs_commuting(e_sh, o, lam, temp)
        r_2 = models.gibbs_commuting(e_sh, o, lam_b, temp)
        cells.append("two-baths-from-one-updated-correlations-object")
        sc_b = 1.0 + lam_b * float(np.max(o ** 2)) / temp
        for nm, s_, r_ in (("first", s_1, r_1), ("second", s_2, r_2)):
            dv = float(np.abs(s_ - r_).max())
            if dv > bound * sc_b / scale:
                violations.append({
                    "what": f"the {nm} of two baths built from one "
                            f"correlations object (alpha changed in between) "
                            f"gives a Gibbs state {dv:.3e} away from the "
                            f"closed form for its own alpha",
                    "mechanism": "gibbs-closed-form", "detail": {}})
    if variant == "commuting":
        e = rng.normal(size=d)
        # the zero of energy is arbitrary (also far from 0 in units of T:
        # the imaginary-time network is not normalised, its norm is
        # exp(-E_min/T))
        shift = [0.0, 20.0, -20.0, 35.0][(i // 2) % 4]
        e = e + shift * temp
        cells.append("energy-offset:%+g" % shift)
        state = gibbs(np.diag(e).astype(complex))
        ref = models.gibbs_commuting(e, o, lam, temp)
        noshift = models.gibbs_commuting(e, o, 0.0, temp)
        err = float(np.abs(state - ref).max())
        obs["err"] = err
        nontrivial = float(np.abs(ref - noshift).max()) >= 1e-3
        monitors["states_compared"] = 1
        if err > bound:
            violations.append({
                "what": f"Gibbs state deviates from the closed form by "
                        f"{err:.3e} > {bound:.2e} (n_steps={n_steps}, "
                        f"T={temp:.3g}, wc={wc:.3g}, {ct})",
                "mechanism": "gibbs-closed-form",
                "detail": {"got": np.real(np.diag(state)),
                           "ref": np.real(np.diag(ref))}})
        physical(state, bound, violations, "commuting")
    elif variant == "canonical":
        h = gen.rand_herm(rng, d, 0.8)
        cells.append("complexH")
        p0 = dict(p, alpha=0.0)
        if (i // 7) % 3 == 1:
            # the same problem in another unit of energy (everything that
            # carries an energy scaled by 1e-9): exp(-H/T)/Z is unchanged
            unit = 1e-9
            h = h * unit
            p0 = dict(p0, cutoff=wc * unit, temperature=temp * unit)
            temp_c = temp * unit
            cells.append("energy-unit:1e-9")
        else:
            temp_c = temp
        state = gibbs(h, p0)
        ref = models.gibbs_canonical(h, temp_c)
        err = float(np.abs(state - ref).max())
        obs["err"] = err
        monitors["states_compared"] = 1
        if err > bound:
            tr_err = float(np.abs(state - ref.T).max())
            violations.append({
                "what": f"alpha=0: state deviates from exp(-H/T)/Z by "
                        f"{err:.3e} (distance to its transpose {tr_err:.1e})",
                "mechanism": "gibbs-transposed" if tr_err < 1e-8 else
                "gibbs-canonical", "detail": {}})
        physical(state, bound, violations, "canonical")
    elif variant == "weak":
        h = gen.rand_herm(rng, d, 0.8)
        cells.append("complexH")
        ref = models.gibbs_canonical(h, temp)
        devs = []
        for a in (1e-2, 1e-3, 1e-4):
            state = gibbs(h, dict(p, alpha=a))
            devs.append(float(np.abs(state - ref).max()))
            physical(state, bound, violations, f"weak alpha={a}")
        monitors["states_compared"] = 3
        obs["weak_devs_over_alpha"] = max(dv / a for dv, a in
                                          zip(devs, (1e-2, 1e-3, 1e-4)))
        lam1 = rbath.reorganisation_energy(dict(p, alpha=1.0))
        cbound = 20.0 * (lam1 * float(np.max(o ** 2)) / temp + 1e-3)
        for dv, a in zip(devs, (1e-2, 1e-3, 1e-4)):
            if dv > cbound * a + bound:
                violations.append({
                    "what": f"weak coupling alpha={a:g}: distance {dv:.3e} "
                            f"to exp(-H/T)/Z exceeds {cbound:.2g}*alpha",
                    "mechanism": "gibbs-weak-coupling",
                    "detail": {"devs": devs}})
                break
        err = devs[-1]
    elif variant == "covariance":
        h = gen.rand_herm(rng, d, 0.8)
        cells.append("complexH")
        v = gen.structured_unitary(rng, d, "phase")
        s1 = gibbs(h)
        s2 = gibbs(v @ h @ v.conj().T)
        err = float(np.abs(s2 - v @ s1 @ v.conj().T).max())
        obs["err"] = err
        monitors["states_compared"] = 2
        nontrivial = float(np.abs(np.imag(h)).max()) > 1e-2
        if err > 2 * bound:
            violations.append({
                "what": f"phase covariance violated by {err:.3e} at "
                        f"alpha={alpha:.3g}", "mechanism": "gibbs-covariance",
                "detail": {}})
        physical(s1, bound, violations, "covariance")
    else:  # history
        h = gen.rand_herm(rng, d, 0.8) if i % 2 else \
            np.diag(rng.normal(size=d)).astype(complex)
        if i % 2:
            cells.append("complexH")
        corr = gen.make_power_law(p)
        ref_state = oqupy.gibbs_tempo_compute(
            oqupy.System(h), oqupy.Bath(oper, corr), gp,
            progress_type="silent")
        gt = oqupy.GibbsTempo(oqupy.System(h), oqupy.Bath(oper, corr), gp)
        ops = [["compute", "get", "compute", "get"],
               ["compute", "compute", "compute", "get", "get"],
               ["compute", "get", "get", "compute", "dyn", "get"]][i % 3]
        err = 0.0
        n_get = 0
        for opn in ops:
            if opn == "compute":
                gt.compute(progress_type="silent")
            elif opn == "dyn":
                dyn = gt.get_dynamics()
                if len(dyn) != n_steps + 1:
                    violations.append({
                        "what": f"imaginary-time dynamics has {len(dyn)} "
                                f"entries after repeated compute(), expected "
                                f"{n_steps + 1}", "mechanism": "gibbs-recompute",
                        "detail": {}})
            else:
                st = gt.get_state()
                n_get += 1
                e = float(np.abs(st - ref_state).max())
                err = max(err, e)
                if e > 1e-12:
                    violations.append({
                        "what": f"get_state() after {ops} differs from the "
                                f"single computation by {e:.3e}",
                        "mechanism": "gibbs-recompute", "detail": {}})
                    break
        monitors["history_reads"] = n_get
        obs["err"] = err
    sig = (variant, d, ct, n_steps if n_steps < 20 else ">=20", tclass)
    return {"violations": violations, "cells": cells, "monitors": monitors,
            "nontrivial": nontrivial, "signature": str(sig),
            "maxratio": float(obs.get("err", 0.0)) / bound, "obs": obs,
            "sample": gen.nice({"variant": variant, "d": d, "sd": p,
                                "o": list(o), "n_steps": n_steps,
                                "epsrel": epsrel, "T_over_wc": temp / wc,
                                **obs})}
