"""C19 - no computation leaves background activity behind, whether it returns
or fails.

Observers (in a fresh interpreter, vp/mon/c19_worker.py): a registry of every
timer the library creates (armed timers after the call ended are a violation),
thread census before/after with a grace period in virtual time, bytes written
to the captured output stream after the call ended, and a process-exit
watchdog. Fault enumeration: each API x progress type x failing user callable
at every call index of a clean run / missing cap tensor / mismatching tensor
shape at every step. Schedule enumeration: the timer callback (and
symmetrically the caller) is held at every source line of ProgressBar.update,
_print_status and exit (sys.monitoring LINE events) while the other side
finishes or updates - all single pre-emptions at line granularity.
"""
import json
import os
import shutil
import subprocess
import tempfile

from vp import common

ID = "C19"
LEVEL = "fault_enumeration"
BATCH = 1
CASE_TIMEOUT = 600
RULE = ("fault scenarios: API in {compute_dynamics, "
        "compute_dynamics_with_field, state_gradient, "
        "compute_gradient_and_dynamics, Tempo, MeanFieldTempo, PtTempo, "
        "GibbsTempo, PtTebd, compute_correlations} x progress in {silent, "
        "simple, bar, default} x {no fault, user callable raising (Exception / "
        "KeyboardInterrupt / user-defined BaseException in turn) at call j "
        "(every j of a clean run, capped), missing cap at step k, wrong "
        "tensor shape at step k}; schedule scenarios: every (function, line, "
        "held side, action). Non-trivial iff the fault really fired / the "
        "hold point was reached; distinct = distinct scenario id")
ASSUMPTIONS = ["virtual time: timer intervals scaled 1 s -> 20 ms by "
               "subclassing the Timer the library instantiates",
               "pre-emption at source-line granularity, one pre-emption per "
               "execution (context bound 1)"]

APIS = {
    "compute_dynamics": ["H", "gamma", "A", "cap", "shape", "stdout",
                         "zero"],
    "compute_dynamics_with_field": ["H", "eom", "cap", "shape"],
    "state_gradient": ["H", "target", "cap", "shape"],
    "compute_gradient_and_dynamics": ["H", "target"],
    "tempo": ["H", "gamma", "A", "stdout", "zero"],
    "meanfield": ["H", "eom"],
    "pttempo": ["corr"],
    "gibbs": ["j"],
    "pttebd": ["shape", "float_end", "stdout"],
    "pttebd_multithread": ["shape"],
    "pttebd_multiprocess": ["shape"],
    "compute_correlations": ["H", "stdout"],
}
PROGRESS = ["silent", "simple", "bar", None]
EXC_CLASSES = ["Exception", "KeyboardInterrupt", "BaseException"]
NPARTS = 6


def required_cells(tier):
    req = {"api:" + a: 1 for a in APIS}
    req.update({"progress:bar": 5, "progress:default": 5,
                "progress:simple": 3, "progress:silent": 3,
                "faults_fired": 60, "non_exception_faults_fired": 30,
                "schedule_points_reached": 30,
                "held:timer": 10, "held:caller": 10, "exit_watchdog": 3,
                "outcome:returned": 8})
    return req


def cases(tier, seed):
    out = []
    for api, kinds in APIS.items():
        for prog in PROGRESS:
            out.append({"kind": "fault", "api": api, "progress": prog,
                        "kinds": kinds, "seed": seed, "tier": tier})
    for part in range(NPARTS):
        out.append({"kind": "schedule", "seed": seed, "tier": tier,
                    "part": part})
    for k in range(6):
        out.append({"kind": "exit", "seed": seed, "tier": tier, "idx": k})
    return out


def _worker(scenarios, tmpd, tag, timeout=300):
    sf = os.path.join(tmpd, f"sc_{tag}.json")
    rf = os.path.join(tmpd, f"res_{tag}.json")
    with open(sf, "w") as f:
        json.dump(scenarios, f)
    script = os.path.join(common.VERIF, "vp", "mon", "c19_worker.py")
    env = common.worker_env()
    env["PYTHONPATH"] = common.REPO
    try:
        p = subprocess.run([common.PYTHON, "-u", "-X", "faulthandler", script,
                            sf, rf], env=env, capture_output=True, text=True,
                           timeout=timeout, cwd=tmpd)
        status = p.returncode
        err = p.stderr[-1500:]
    except subprocess.TimeoutExpired as e:
        status = "timeout"
        err = (e.stderr or b"")
        err = err.decode(errors="replace")[-1500:] if isinstance(err, bytes) \
            else str(err)[-1500:]
    res = []
    if os.path.exists(rf):
        try:
            res = json.load(open(rf))
        except ValueError:
            res = []
    return status, err, res


def judge(r, what, violations):
    """A scenario result -> violation entries."""
    if "harness_error" in r:
        return "harness"
    if r.get("deadlock"):
        violations.append({
            "what": f"{what}: the call never returns - the caller and the "
                    f"timer callback wait for each other inside ProgressBar "
                    f"(unchanged for 300 virtual seconds after the harness "
                    f"released the held thread)",
            "mechanism": "call-never-returns",
            "detail": {"stacks": r.get("stacks")}})
        return "ok"
    bad = []
    if r.get("armed_timers_at_return", 0) > 0:
        bad.append(f"{r['armed_timers_at_return']} timer(s) still armed "
                   f"after the call ended")
    if r.get("threads_after_grace", 0) > 0:
        bad.append(f"{r['threads_after_grace']} thread(s) "
                   f"{r.get('thread_names')} alive after the grace period")
    if r.get("bytes_by_inflight_callback_after_return", 0) > 0:
        bad.append(f"{r['bytes_by_inflight_callback_after_return']} bytes "
                   f"written to the output stream after the call ended (by "
                   f"a timer callback still in flight)")
    if r.get("bytes_after_return", 0) > 0:
        bad.append(f"{r['bytes_after_return']} bytes written to the output "
                   f"stream after the call ended")
    if r.get("still_writing"):
        bad.append("output keeps growing (self re-arming timer)")
    if bad:
        mech = "leaked-timer-race" if what.startswith("schedule") else \
            "leaked-timer-after-exception" if "raised" in str(
                r.get("outcome")) else "leaked-timer"
        violations.append({"what": f"{what}: " + "; ".join(bad),
                           "mechanism": mech, "detail": r})
    return "ok"


def run_fault(case):
    api, prog, kinds = case["api"], case["progress"], case["kinds"]
    quick = case["tier"] == "quick"
    tmpd = tempfile.mkdtemp(prefix="vp_c19_")
    violations, monitors, cells = [], {}, []
    try:
        # phase 1: clean runs count the calls of every user callable
        count_sc = [{"kind": "fault", "id": f"count-{k}", "api": api,
                     "progress": "silent",
                     "fault": {"kind": k, "at": None}} for k in kinds
                    if k not in ("cap", "shape", "stdout", "float_end",
                                 "zero")]
        count_sc.append({"kind": "fault", "id": "clean", "api": api,
                         "progress": prog, "fault": None})
        status, err, res = _worker(count_sc, tmpd, "count")
        if status != 0 or len(res) != len(count_sc):
            return {"inconclusive": f"count phase failed ({status}): {err[-300:]}"}
        counts = {}
        for sc, r in zip(count_sc, res):
            if judge(r, f"{api} progress={prog} no fault", violations) == \
                    "harness":
                return {"inconclusive": "harness error: "
                        + r["harness_error"][-400:]}
            if sc["fault"]:
                counts[sc["fault"]["kind"]] = r.get("user_calls", 0)
            else:
                cells.append("outcome:" + str(r.get("outcome")))
        # phase 2: enumerate the fault points
        scen = []
        for k in kinds:
            if k == "stdout":
                pts = [1, 2, 3, 5, 8]       # the write that hits a dead pipe
            elif k in ("float_end", "zero"):
                pts = [0]
            elif k in ("cap", "shape"):
                pts = list(range(0, 5 if k == "cap" else 4))
            else:
                c = counts.get(k, 0)
                pts = list(range(1, c + 1))
                cap = 12 if quick else 60
                if len(pts) > cap:
                    step = len(pts) / cap
                    pts = sorted({pts[int(j * step)] for j in range(cap)}
                                 | {1, c})
            for n_at, at in enumerate(pts):
                # the failing callable raises an ordinary exception, a
                # KeyboardInterrupt (Ctrl-C arriving inside the callable) or
                # a user-defined BaseException - every way a call can raise
                exc = EXC_CLASSES[(n_at + len(k)) % 3] \
                    if k not in ("cap", "shape", "stdout", "float_end",
                                 "zero") else None
                tag = "" if exc in (None, "Exception") else "!" + exc
                scen.append({"kind": "fault",
                             "id": f"{api}|{prog}|{k}@{at}{tag}",
                             "api": api, "progress": prog,
                             "fault": {"kind": k, "at": at, "exc": exc}})
        status, err, res = _worker(scen, tmpd, "faults", timeout=500)
        relaunch = 0
        while status == 4 and res and res[-1].get("deadlock") \
                and len(res) < len(scen) and relaunch < 6:
            relaunch += 1
            status, err, more = _worker(scen[len(res):], tmpd,
                                        f"faults{relaunch}", timeout=500)
            res = res + more
        if status not in (0,):
            if not res:
                return {"inconclusive": f"fault phase failed ({status}): "
                        f"{err[-300:]}"}
        fired = 0
        for r in res:
            if r.get("id") == "cleanup":
                return {"inconclusive": "could not clean up between "
                        "scenarios"}
            st = judge(r, r["id"], violations)
            if st == "harness":
                return {"inconclusive": "harness error: "
                        + r["harness_error"][-400:]}
            if r.get("fault_fired"):
                fired += 1
                if r.get("exc_class") in ("KeyboardInterrupt", "BoomBase"):
                    monitors["non_exception_faults_fired"] = monitors.get(
                        "non_exception_faults_fired", 0) + 1
        monitors["faults_fired"] = fired
        monitors["scenarios_run"] = len(res) + len(count_sc)
        monitors["timers_created"] = sum(r.get("timers_created", 0)
                                         for r in res)
    finally:
        shutil.rmtree(tmpd, ignore_errors=True)
    cells += ["api:" + api, "progress:" + (prog or "default")]
    return {"violations": violations[:8], "cells": cells,
            "monitors": monitors, "nontrivial": fired > 0,
            "signature": f"fault-{api}-{prog}", "maxratio": 0.0,
            "obs": {"fault_points": len(scen)},
            "sample": {"kind": "fault", "api": api, "progress": prog,
                       "fault_points": [s["id"] for s in scen[:6]],
                       "n_fault_points": len(scen), "fired": fired,
                       "call_counts": counts}}


def run_schedule(case):
    tmpd = tempfile.mkdtemp(prefix="vp_c19_")
    violations, monitors, cells = [], {}, []
    try:
        status, err, lines = _worker([{"kind": "list-lines", "id": "x"}],
                                     tmpd, "lines")
        if status != 0 or not isinstance(lines, dict):
            return {"inconclusive": f"cannot list lines ({status}) {err[-200:]}"}
        scen = []
        for func in ("update", "_print_status", "exit"):
            for ln in lines[func]:
                for held in ("timer", "caller"):
                    if held == "timer" and func == "exit":
                        continue      # exit() is only run by the caller
                    acts = ("exit", "update+exit", "update+callback+exit") \
                        if held == "timer" else ("exit", "update+exit")
                    for action in acts:
                        scen.append({"kind": "schedule",
                                     "id": f"schedule|{func}:{ln}|{held}|"
                                           f"{action}", "func": func,
                                     "line": ln, "held": held,
                                     "action": action})
        scen = scen[case["part"]::NPARTS]
        status, err, res = _worker(scen, tmpd, "sched", timeout=550)
        relaunch = 0
        while status == 4 and res and res[-1].get("deadlock") \
                and len(res) < len(scen) and relaunch < 6:
            # a scenario ended in a wait-for cycle (reported by the worker's
            # structural observer): go on with the remaining scenarios
            relaunch += 1
            status, err, more = _worker(scen[len(res):], tmpd,
                                        f"sched{relaunch}", timeout=550)
            res = res + more
        if not res:
            return {"inconclusive": f"schedule phase failed ({status}) "
                    f"{err[-300:]}"}
        reached = 0
        for sc, r in zip(scen, res):
            if r.get("id") == "cleanup":
                return {"inconclusive": "could not clean up between "
                        "scenarios"}
            st = judge(r, r["id"], violations)
            if st == "harness":
                return {"inconclusive": "harness error: "
                        + r["harness_error"][-400:]}
            if r.get("reached"):
                reached += 1
                cells.append("held:" + sc["held"])
        monitors["schedule_points_reached"] = reached
        monitors["schedule_points_tried"] = len(res)
    finally:
        shutil.rmtree(tmpd, ignore_errors=True)
    return {"violations": violations[:8], "cells": cells,
            "monitors": monitors, "nontrivial": reached > 0,
            "signature": f"schedule-{case['part']}", "maxratio": 0.0,
            "obs": {},
            "sample": {"kind": "schedule", "points": [s["id"] for s in scen[:6]],
                       "tried": len(scen), "reached": reached,
                       "lines": lines}}


EXIT_SCEN = [
    ("compute_dynamics", "bar", None),
    ("compute_dynamics", None, {"kind": "H", "at": 3}),
    ("state_gradient", "bar", {"kind": "target", "at": 1}),
    ("compute_dynamics_with_field", None, {"kind": "eom", "at": 4}),
    ("tempo", "bar", {"kind": "H", "at": 5}),
    ("compute_gradient_and_dynamics", None, {"kind": "H", "at": 9}),
]


def run_exit(case):
    """Process-exit watchdog: after the call nothing is cleaned up by the
    harness; the interpreter must exit by itself."""
    api, prog, fault = EXIT_SCEN[case["idx"]]
    tmpd = tempfile.mkdtemp(prefix="vp_c19_")
    violations = []
    try:
        sc = [{"kind": "fault", "id": f"exit|{api}|{prog}|{fault}",
               "api": api, "progress": prog, "fault": fault,
               "exit_check": True}]
        status, err, res = _worker(sc, tmpd, "exit", timeout=25)
        if status == "timeout":
            leaked = res and (res[0].get("armed_timers_at_return", 0) > 0
                              or res[0].get("threads_after_grace", 0) > 0
                              or res[0].get("still_writing"))
            if leaked or "Timer" in err or "util.py" in err:
                violations.append({
                    "what": f"{sc[0]['id']}: the interpreter cannot exit "
                            f"(a library timer thread keeps it alive)",
                    "mechanism": "interpreter-cannot-exit",
                    "detail": {"census": res[:1]}})
            else:
                return {"inconclusive": "exit watchdog fired without a "
                        "leaked library thread in the census"}
        elif status != 0:
            return {"inconclusive": f"exit scenario failed: {err[-300:]}"}
        else:
            for r in res:
                if judge(r, r["id"], violations) == "harness":
                    return {"inconclusive": r["harness_error"][-300:]}
    finally:
        shutil.rmtree(tmpd, ignore_errors=True)
    return {"violations": violations, "cells": ["exit_watchdog"],
            "monitors": {"exit_runs": 1}, "nontrivial": True,
            "signature": f"exit-{case['idx']}", "maxratio": 0.0, "obs": {},
            "sample": {"kind": "exit", "scenario": sc[0]["id"],
                       "exit_status": status}}


def run_case(case):
    return {"fault": run_fault, "schedule": run_schedule,
            "exit": run_exit}[case["kind"]](case)
