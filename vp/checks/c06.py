"""C06 - degeneracy reduction (unique=True) never changes results.

Differential monitor: the same computation with unique=False and unique=True
for Tempo, PT-TEMPO + compute_dynamics and MeanFieldTempo, compared at every
step. Spectra are drawn from small integer/half-integer lattices so that
o_i - o_j and o_i + o_j coincide in many asymmetric patterns.
"""
import numpy as np

from vp import gen, lib

ID = "C06"
LEVEL = "exploration"
BATCH = 4
CASE_TIMEOUT = 300
C_BOUND = 200.0
RULE = ("coupling spectra from lattices ({0,1,3}, {0,1,1,2}, {-1,0,2,2}, all "
        "equal, generic, half-integers...), d=2..5, diagonal or rotated, "
        "memory cut-offs below N, add_correlation_time, three methods; "
        "non-trivial iff the reduction really merged classes (#north or "
        "#west classes < d^2, read from the Bath the library built); distinct "
        "= distinct (method, partition signature, rotated, memory class)")
ASSUMPTIONS = ["conditioning guard R<=8"]

LATTICES = [
    [0, 1, 3], [0, 1, 1, 2], [-1, 0, 2, 2], [1, 1, 1], [0.5, -0.5],
    [0, 1, 2, 3], [0, 0, 1], [-1, 0, 1], [0.5, 0.5, -0.5, -0.5],
    [0, 1, 2, 3, 4], [0, 2, 2, 5, 5], [1, 1, 1, 1], [-1.5, -0.5, 0.5, 1.5],
    [0, 1, 1, 1, 2], [2, -1, 0.5], [0, 3, 4, 7],
]


def required_cells(tier):
    return {"method:tempo": 4, "method:pt": 4, "method:meanfield": 3,
            "merged": 10, "total-degeneracy": 1, "no-degeneracy": 1,
            "rotated": 3, "memory:cut": 3, "meanfield:two-species": 2,
            "shared-bath-read-between-runs": 6, "scan": 2,
            "scan_points": 60}


def cases(tier, seed):
    n = 72 if tier == "quick" else 700
    out = [{"kind": "uniq", "seed": seed, "idx": i, "tier": tier}
           for i in range(n)]
    out += [{"kind": "scan", "seed": seed, "idx": i, "tier": tier}
            for i in range(4 if tier == "quick" else 24)]
    return out


def run_scan(case):
    """A parameter scan in one process: many short-lived Bath / Tempo objects
    with coupling operators whose degeneracy classes sit at different
    positions (objects of earlier points are released before the next point
    is set up, as in a loop over a function). Every point must satisfy
    unique=True == unique=False, whatever was computed before it."""
    import gc
    import oqupy
    i = case["idx"]
    rng = gen.rng_for(case["seed"], "c06scan", i)
    dt, nsteps, epsrel = 0.1, 3, 1e-8
    p = dict(alpha=0.15, zeta=1.0, cutoff=3.0, cutoff_type="exponential",
             temperature=0.5)
    params = lib.tempo_params(dt, epsrel, 2, None)
    base = [[1.0, 1.0, 2.0], [2.0, 1.0, 1.0], [1.0, 2.0, 1.0],
            [0.0, 1.0, 2.0], [1.0, 1.0, 1.0], [-1.0, 1.0, 1.0],
            [0.5, -0.5, 0.5], [2.0, 2.0, 1.0], [0.0, 0.0, 1.0],
            [1.0, 0.0, 1.0]]
    order = [int(x) for x in rng.permutation(len(base))]
    h = gen.rand_herm(rng, 3, 0.7)
    rho0 = gen.rand_state(rng, 3)
    sysm = oqupy.System(h)
    violations = []
    worst = 0.0

    def point(o, uq):
        corr = gen.make_power_law(p)
        bath = oqupy.Bath(np.diag(np.array(o) * 0.4).astype(complex), corr)
        t = oqupy.Tempo(sysm, bath, params, rho0, 0.0, unique=uq)
        return np.array(t.compute(lib.end_time(0.0, dt, nsteps),
                                  progress_type="silent").states)
    npts = 0
    for sweep in range(3):
        for k in order:
            o = base[k]
            try:
                a = point(o, False)
                gc.collect()
                b = point(o, True)
                gc.collect()
            except Exception as exc:   # pylint: disable=broad-except
                violations.append({
                    "what": f"scan point {o} (sweep {sweep}): the library "
                            f"raised {type(exc).__name__}: {str(exc)[:100]}",
                    "mechanism": "unique-raises", "detail": {"o": o}})
                continue
            npts += 1
            dev = float(np.abs(a - b).max())
            worst = max(worst, dev)
            if dev > 2e-6:
                violations.append({
                    "what": f"scan point {o} (sweep {sweep}, after "
                            f"{npts - 1} earlier points in this process): "
                            f"unique=True differs from unique=False by "
                            f"{dev:.3e}", "mechanism": "unique-differs",
                    "detail": {"o": o}})
            if len(violations) >= 4:
                break
    return {"violations": violations[:4], "cells": ["scan"],
            "monitors": {"scan_points": npts}, "nontrivial": True,
            "signature": f"scan-{i}", "maxratio": worst / 2e-6,
            "obs": {"err": worst},
            "sample": {"kind": "scan", "order": order, "points": npts,
                       "worst": worst}}


def run_case(case):
    if case.get("kind") == "scan":
        return run_scan(case)
    import oqupy
    i = case["idx"]
    rng = gen.rng_for(case["seed"], "c06", i)
    quick = case["tier"] == "quick"
    method = ["tempo", "pt", "meanfield"][i % 3]
    if i % 16 == 15:
        o = rng.normal(size=int(rng.integers(2, 4)))      # generic: no merge
        lattice = "generic"
    else:
        o = np.array(LATTICES[(i // 3) % len(LATTICES)], float)
        lattice = str(list(o))
        o = o * float(rng.uniform(0.4, 1.0))
        if i % 5 == 4:
            o = o + float(rng.normal())     # shift breaks o_i+o_j coincidences
    d = len(o)
    if quick and d == 5 and method != "tempo":
        o = o[:4]
        d = 4
    p = gen.sd_params(rng, strong=True)
    dt = float(rng.choice([0.1, 0.2]))
    nsteps = int(rng.integers(3, 6)) if d >= 4 else int(rng.integers(3, 8))
    kmax = [None, 2, 3, None][i % 4]
    if kmax is not None and kmax >= nsteps:
        kmax = nsteps - 1
    tau = None if kmax is None else [None, 0.4 * dt, float("inf"), 0.0][i % 4]
    epsrel = float(rng.choice([1e-7, 1e-8, 1e-9]))
    o, rm, scale = lib.guard_coupling(p, o, dt, nsteps, kmax, tau, rng)
    rotated = bool(i % 4 == 1)
    v = gen.haar_unitary(rng, d) if rotated else np.eye(d, dtype=complex)
    oper = v @ np.diag(o) @ v.conj().T
    oper = (oper + oper.conj().T) / 2
    rho0 = gen.rand_state(rng, d, ["mixed", "pure", "rankdef"][i % 3])
    corr = gen.make_power_law(p)
    params = lib.tempo_params(dt, epsrel, kmax, tau)
    start = 0.0
    bath = oqupy.Bath(oper, corr)
    n_north = int(np.max(bath.north_degeneracy_map)) + 1
    n_west = int(np.max(bath.west_degeneracy_map)) + 1
    # (the d diagonal index pairs always share o_i - o_j = 0, so the west map
    # has at most d^2-d+1 classes; "merged" means more than that)
    merged = n_north < d * d or n_west < d * d - d + 1
    fields = None
    cells_two = False
    if method in ("tempo", "pt"):
        h = gen.rand_herm(rng, d, 0.7)
        sysm = oqupy.System(h, [float(rng.uniform(0.05, 0.3))],
                            [gen.cplx(rng, (d, d), 0.5)])
        shared = bool((i // 2) % 2)
        if shared:
            # ONE Bath object serves both runs; in between the caller reads
            # its array-valued attributes and post-processes what was
            # returned in place (sorting the class maps to count class sizes,
            # normalising the operator) - arrays handed out belong to the
            # caller and must not be the Bath's own
            def peek(b):
                for name in ("north_degeneracy_map", "west_degeneracy_map",
                             "coupling_operator", "unitary_transform"):
                    arr = getattr(b, name)
                    if isinstance(arr, np.ndarray) and arr.flags.writeable:
                        arr.sort(axis=0)
                        arr[...] = arr[::-1]
                        if arr.size:
                            arr.flat[0] = 0

            def run(uq):
                if method == "tempo":
                    return oqupy.Tempo(sysm, bath, params, rho0, start,
                                       unique=uq).compute(
                        lib.end_time(start, dt, nsteps),
                        progress_type="silent")
                return lib.run_pt_bath(sysm, bath, rho0, start, dt, nsteps,
                                       params, uq)
            peek(bath)
            da = run(False)
            peek(bath)
            db = run(True)
        else:
            run = lib.run_tempo if method == "tempo" else lib.run_pt
            da = run(sysm, oper, corr, rho0, start, dt, nsteps, params, False)
            db = run(sysm, oper, corr, rho0, start, dt, nsteps, params, True)
        sa, sb = np.array(da.states), np.array(db.states)
    else:
        # one or two species; the second species has a different coupling
        # operator: either a permutation of the same spectrum (equal class
        # counts at different positions) or another lattice
        two = bool((i // 3) % 2)
        opers, rhos, dims = [oper], [rho0], [d]
        if two:
            if (i // 6) % 2 == 0:
                o2 = np.roll(o, 1) if len(set(np.round(o, 9))) > 1 \
                    else o[::-1]
            else:
                o2 = np.array(LATTICES[(i // 3 + 5) % len(LATTICES)], float)
                if quick:
                    o2 = o2[:3]
                o2, _, sc2 = lib.guard_coupling(p, o2 * 0.7, dt, nsteps, kmax,
                                                tau, rng)
                scale = max(scale, sc2)
            d2 = len(o2)
            opers.append(np.diag(o2).astype(complex))
            rhos.append(gen.rand_state(rng, d2))
            dims.append(d2)
            cells_two = True
        mf = lib.MeanFieldModel(rng, dims)
        end = lib.end_time(start, dt, nsteps)
        outs = []
        for uq in (False, True):
            mfs, _ = mf.build()
            t = oqupy.MeanFieldTempo(
                mfs, [oqupy.Bath(o_, corr) for o_ in opers], params, rhos,
                0.2 - 0.1j, start, unique=uq)
            outs.append(t.compute(end, progress_type="silent"))
        sa = np.concatenate([np.array(sd.states).reshape(nsteps + 1, -1)
                             for sd in outs[0].system_dynamics], axis=1)
        sb = np.concatenate([np.array(sd.states).reshape(nsteps + 1, -1)
                             for sd in outs[1].system_dynamics], axis=1)
        sa, sb = sa[:, :, None], sb[:, :, None]
        fields = (np.array(outs[0].fields), np.array(outs[1].fields))
    violations = []
    bound = C_BOUND * epsrel * scale * (lib.pt_growth(nsteps)
                                        if method == "pt" else 1.0)
    err = float("nan")
    if sa.shape != sb.shape or sa.shape[0] != nsteps + 1:
        violations.append({"what": "lengths differ", "mechanism": "length",
                           "detail": {"a": sa.shape, "b": sb.shape}})
    else:
        errs = np.abs(sa - sb).max(axis=(1, 2))
        err = float(errs.max())
        if fields is not None:
            err = max(err, float(np.abs(fields[0] - fields[1]).max()))
        if not err <= bound:
            k = int(np.argmax(errs > bound))
            violations.append({
                "what": f"{method}: unique=True differs from unique=False by "
                        f"{err:.3e} > {bound:.2e} (first at step {k}; "
                        f"spectrum {lattice}, north {n_north}/west {n_west} "
                        f"classes of {d * d})",
                "mechanism": "unique-differs", "detail": {"errs": errs}})
    cells = ["method:" + method]
    if cells_two:
        cells.append("meanfield:two-species")
    if method in ("tempo", "pt") and shared:
        cells.append("shared-bath-read-between-runs")
    if merged:
        cells.append("merged")
    if n_west == 1:
        cells.append("total-degeneracy")
    if not merged:
        cells.append("no-degeneracy")
    if rotated:
        cells.append("rotated")
    if kmax is not None:
        cells.append("memory:cut")
    part = (tuple(np.asarray(bath.north_degeneracy_map).tolist()),
            tuple(np.asarray(bath.west_degeneracy_map).tolist()))
    sig = \
        (method, str(part), rotated, kmax is None)
    return {"violations": violations, "cells": cells,
            "monitors": {"steps_compared": int(sa.shape[0])},
            "nontrivial": merged, "signature": str(sig),
            "maxratio": err / bound,
            "obs": {"err": err, "R": rm, "north_classes": n_north,
                    "west_classes": n_west},
            "sample": gen.nice({"method": method, "o": list(o),
                                "lattice": lattice, "rotated": rotated,
                                "north_classes": n_north,
                                "west_classes": n_west, "d2": d * d,
                                "sd": p, "dt": dt, "N": nsteps, "dkmax": kmax,
                                "add_correlation_time": tau, "epsrel": epsrel,
                                "err": err, "bound": bound})}
