"""C05 - basis covariance; every Hermitian coupling operator is accepted.

Monitors: (a) an icontract class invariant on oqupy.Bath (U^dag U = 1, real
diagonal eigenvalue matrix) evaluated on every Bath any workload constructs,
plus reconstruction U D U^dag = O and acceptance (no exception) over engineered
spectra; (b) metamorphic runs: (V H V^dag, V O V^dag, V rho0 V^dag) must give
V rho(t) V^dag for Tempo, PT-TEMPO + compute_dynamics and MeanFieldTempo.
"""
import numpy as np

from vp import gen, lib, scen

ID = "C05"
LEVEL = "exploration"
BATCH = 4
CASE_TIMEOUT = 3200
C_BOUND = 200.0   # two truncated runs are compared
RULE = ("(a) Hermitian operators with engineered spectra (repeated, zero, "
        "near-degenerate gaps 1e-13..1e-6, d=2..5) conjugated by Haar, real, "
        "permutation, block, phase unitaries: Bath must accept them and "
        "satisfy the invariant; (b) rotated vs unrotated simulations for the "
        "three methods. Non-trivial (a): operator not diagonal; (b): bath "
        "effect >=1e-2 and V not a phase/permutation of the identity; "
        "distinct = (d, spectrum pattern, unitary kind) / (method, d, "
        "pattern, unitary kind)")
ASSUMPTIONS = ["conditioning guard R<=8",
               "near-degenerate eigenvalues closer than 1e-10 are treated as "
               "degenerate by any diagonalisation; reconstruction is judged "
               "at 1e-9"]

PATTERNS = ["distinct", "pair", "pair0", "all_equal", "two_pairs", "near13",
            "near9", "near6", "zero_pair", "integer"]


def spectrum(rng, d, pattern):
    o = rng.normal(size=d)
    if pattern == "pair" and d >= 2:
        o[1] = o[0]
    elif pattern == "pair0" and d >= 3:
        o[1] = o[0]
        o[2] = 0.0
    elif pattern == "all_equal":
        o[:] = o[0]
    elif pattern == "two_pairs" and d >= 4:
        o[1] = o[0]
        o[3] = o[2]
    elif pattern == "near13" and d >= 2:
        o[1] = o[0] + 1e-13
    elif pattern == "near9" and d >= 2:
        o[1] = o[0] + 1e-9
    elif pattern == "near6" and d >= 2:
        o[1] = o[0] + 1e-6
    elif pattern == "zero_pair" and d >= 3:
        o[0] = 0.0
        o[1] = 0.0
    elif pattern == "integer":
        o = rng.integers(-1, 2, size=d).astype(float)
    return o


def required_cells(tier):
    return {"bath:rotated-degenerate": 20, "bath_invariant": 200,
            "method:tempo": 3, "method:pt": 3, "method:meanfield": 2,
            "meanfield:two-systems": 2, "pt:reimported": 2, "pt:used-before": 3, "bath:large-norm": 20,
            "cov:degenerate": 3, "guessed-parameters": 4,
            "initial-state:non-contiguous": 6,
            "cov:nearly-diagonal:pt": 2,
            "cov:nearly-diagonal:tempo": 2}


def cases(tier, seed):
    nb, nc = (32, 96) if tier == "quick" else (200, 600)
    out = [{"kind": "bath", "seed": seed, "idx": i, "tier": tier}
           for i in range(nb)]
    out += [{"kind": "cov", "seed": seed, "idx": i, "tier": tier}
            for i in range(nc)]
    if tier == "thorough":
        # the repository's own tests, with the Bath invariant and the
        # physicality postconditions attached (contracts evaluated on every
        # Bath / Tempo result the suite produces)
        out.append({"kind": "repotests", "seed": seed, "tier": tier})
    return out


def run_bath(case):
    import oqupy
    from vp.mon import contracts
    contracts.install_bath_contract()
    rec = contracts.REC
    rec.reset()
    rng = gen.rng_for(case["seed"], "c05b", case["idx"])
    corr = oqupy.PowerLawSD(0.1, 1.0, 3.0, "gaussian", 0.5)
    violations, cells, sigs = [], [], set()
    n_ok = 0
    ukinds = ["haar", "real", "perm", "block", "phase", "givens_far",
              "haar", "near_identity"]
    for n in range(40):
        d = int(rng.integers(2, 6))
        pattern = PATTERNS[(case["idx"] * 40 + n) % len(PATTERNS)]
        ukind = ukinds[n % len(ukinds)]
        o = spectrum(rng, d, pattern)
        v = gen.structured_unitary(rng, d, ukind)
        oper = v @ np.diag(o) @ v.conj().T
        if n % 13 == 5:
            # a bath acting on the first of two subsystems: sigma_x/2 (x) 1
            d, ukind, pattern = 4, "kron", "kron"
            sx = np.array([[0, 0.5], [0.5, 0]], complex)
            oper = np.kron(sx, np.eye(2)) * float(rng.uniform(0.5, 2.0))
            o = np.linalg.eigvalsh(oper)
        big = 1.0
        if n % 8 in (3, 4) and ukind != "near_identity":
            # the same operator in a much smaller unit (a coupling operator
            # of norm 1e3..3e5: magnitudes are a matter of units)
            big = float(10 ** rng.uniform(3.0, 5.5))
            oper, o = oper * big, o * big
            cells.append("bath:large-norm")
        if n % 2 == 0:
            oper = (oper + oper.conj().T) / 2
        # (odd n: the operator as it comes out of V D V^dagger in floating
        # point - Hermitian up to rounding, as computed operators are)
        nondiag = float(np.abs(oper - np.diag(np.diag(oper))).max()) > 1e-8
        degenerate = len(set(np.round(o, 8))) < d
        try:
            b = oqupy.Bath(oper, corr)
        except Exception as e:  # noqa
            violations.append({
                "what": f"Bath rejected a Hermitian operator (d={d}, "
                        f"pattern={pattern}, unitary={ukind}): "
                        f"{type(e).__name__} {str(e)[:80]}",
                "mechanism": "bath-rejects-hermitian",
                "detail": {"o": o, "ukind": ukind}})
            continue
        n_ok += 1
        u, dm = b.unitary_transform, b.coupling_operator
        rec_dev = float(np.abs(u @ dm @ u.conj().T - oper).max())
        if rec_dev > 1e-9 * big:
            violations.append({
                "what": f"U D U^dag deviates from the operator by "
                        f"{rec_dev:.2e} (d={d}, {pattern}, {ukind})",
                "mechanism": "bath-reconstruction", "detail": {"o": o}})
        # eigenvalues are those of the operator
        ev = np.sort(np.real(np.diag(dm)))
        if np.abs(ev - np.sort(o)).max() > 1e-9 * big:
            violations.append({"what": "eigenvalues differ",
                               "mechanism": "bath-eigenvalues",
                               "detail": {"got": ev, "expected": np.sort(o)}})
        if nondiag and degenerate:
            cells.append("bath:rotated-degenerate")
        if nondiag:
            sigs.add((d, pattern, ukind))
    violations += rec.violations
    return {"violations": violations, "cells": cells,
            "monitors": {"bath_invariant": rec.evals.get("bath_invariant", 0),
                         "baths_constructed": n_ok},
            "nontrivial": True,
            "signature": "bath-" + str(sorted(sigs))[:200] + str(case["idx"]),
            "maxratio": rec.worst.get("bath_unitarity", 0.0),
            "obs": {"distinct_operator_classes": len(sigs)},
            "sample": {"kind": "bath", "operators": 40,
                       "classes": [list(map(str, s)) for s in sorted(sigs)[:4]]}}


def run_cov(case):
    import oqupy
    from vp.mon import contracts
    contracts.install_bath_contract()
    rec = contracts.REC
    rec.reset()
    i = case["idx"]
    rng = gen.rng_for(case["seed"], "c05c", i)
    quick = case["tier"] == "quick"
    method = ["tempo", "pt", "meanfield"][i % 3]
    d = int(rng.choice([2, 3])) if quick else int(rng.choice([2, 3, 3, 4]))
    pattern = ["distinct", "pair", "distinct", "integer", "pair0",
               "all_equal"][(i // 3) % 6]
    if pattern in ("pair", "pair0") and d == 2:
        d = 3
    ukind = ["haar", "real", "block", "perm", "haar", "phase"][(i // 2) % 6]
    o = spectrum(rng, d, pattern)
    p = gen.sd_params(rng, strong=True)
    dt = float(rng.choice([0.1, 0.2]))
    nsteps = int(rng.integers(3, 6 if quick else 8))
    kmax = [None, 2, None, nsteps + 1][i % 4]
    tau = None if kmax is None else [None, 0.3 * dt, float("inf")][i % 3]
    epsrel = float(rng.choice([1e-7, 1e-8, 1e-9]))
    unique = bool((i // 3) % 2)
    o, rm, scale = lib.guard_coupling(p, o, dt, nsteps, kmax, tau, rng)
    wkind = ["identity", "haar", "givens_far", "haar", "near_identity"][i % 5]
    if wkind == "near_identity":
        o = np.sort(o)      # then the diagonalising transform is near 1 too
    w = gen.structured_unitary(rng, d, wkind)
    oper = w @ np.diag(o) @ w.conj().T
    oper = (oper + oper.conj().T) / 2
    v = gen.structured_unitary(rng, d, ukind)
    rho0 = gen.rand_state(rng, d, ["mixed", "pure"][i % 2])
    corr = gen.make_power_law(p)
    params = lib.tempo_params(dt, epsrel, kmax, tau)
    start = [0.0, 0.5][i % 2]

    def rot(a):
        return v @ a @ v.conj().T

    oper_r = rot(oper)
    oper_r = (oper_r + oper_r.conj().T) / 2
    fields = None
    pending = []
    extra_sys, cells_extra = [], []
    if method in ("tempo", "pt"):
        h = gen.rand_herm(rng, d, 0.7)
        g = [float(rng.uniform(0.05, 0.3))]
        lop = [gen.cplx(rng, (d, d), 0.5)]
        s_a = oqupy.System(h, g, lop)
        s_b = oqupy.System(rot(h), g, [rot(lop[0])])
        run = lib.run_tempo if method == "tempo" else lib.run_pt
        kwr = {}
        if method == "pt" and (i // 3) % 3 == 1:
            # the rotated process tensor goes through export -> import
            kwr = {"reimport": ["file", "simple"][(i // 9) % 2]}
            cells_extra.append("pt:reimported")
        # the rotated initial state as the expression V rho V^dagger
        # leaves it in memory (C order), Fortran-ordered, or as the
        # transposed view of its transpose
        rho_r = rot(rho0)
        lay = (i // 3) % 3
        if lay == 1:
            rho_r = np.asfortranarray(rho_r)
        elif lay == 2:
            rho_r = np.ascontiguousarray(rho_r.T).T
        if lay:
            cells_extra.append("initial-state:non-contiguous")
        if method == "pt" and (i // 3) % 2 == 0:
            # the rotated process tensor has served another propagation
            # before the judged one
            kwr["used_before"] = True
            cells_extra.append("pt:used-before")
        da = run(s_a, oper, corr, rho0, start, dt, nsteps, params, unique)
        db = run(s_b, oper_r, corr, rho_r, start, dt, nsteps, params,
                 unique, **kwr)
        sa, sb = np.array(da.states), np.array(db.states)
        free = np.array(oqupy.compute_dynamics(
            s_a, rho0, dt=dt, num_steps=nsteps, start_time=start,
            progress_type="silent").states)
        if method == "tempo" and i % 2 == 0:
            # the computation parameters the library proposes by itself
            # (tempo_compute(parameters=None)) are part of the physics too:
            # they must not depend on the basis either
            import warnings
            with warnings.catch_warnings():
                warnings.simplefilter("ignore")
                # the dissipator sets the fastest scale in half of the cases
                gfac = [1.0, 40.0][(i // 2) % 2]
                g_a = oqupy.System(h, [gfac * g[0]], lop)
                g_b = oqupy.System(rot(h), [gfac * g[0]], [rot(lop[0])])
                pa_ = oqupy.guess_tempo_parameters(
                    bath=oqupy.Bath(oper, corr), start_time=start,
                    end_time=start + 2.0, system=g_a, tolerance=1e-2)
                pb_ = oqupy.guess_tempo_parameters(
                    bath=oqupy.Bath(oper_r, corr), start_time=start,
                    end_time=start + 2.0, system=g_b, tolerance=1e-2)
            cells_extra.append("guessed-parameters")
            if abs(pa_.dt - pb_.dt) > 1e-9 * pa_.dt or \
                    pa_.dkmax != pb_.dkmax or \
                    abs(pa_.epsrel - pb_.epsrel) > 1e-9 * pa_.epsrel:
                pending.append({
                    "what": f"guess_tempo_parameters proposes (dt, dkmax, "
                            f"epsrel) = ({pa_.dt}, {pa_.dkmax}, {pa_.epsrel})"
                            f" for the problem and ({pb_.dt}, {pb_.dkmax}, "
                            f"{pb_.epsrel}) for the same problem written in "
                            f"the basis V ({ukind})",
                    "mechanism": "guessed-parameters-basis-dependent",
                    "detail": {}})
    else:
        # one or two systems; the second has its own dimension, coupling
        # operator (not diagonal in a common basis) and its own rotation
        two = bool((i // 3) % 2)
        dims = [d, 2 if d == 3 else 3] if two else [d]
        if quick and two:
            dims = [d, 2]
        mf = lib.MeanFieldModel(rng, dims)
        opers, vs, rhos = [oper], [v], [rho0]
        for dd in dims[1:]:
            o2 = spectrum(rng, dd, "distinct")
            o2, _, sc2 = lib.guard_coupling(p, o2, dt, nsteps, kmax, tau, rng)
            scale = max(scale, sc2)
            w2 = gen.haar_unitary(rng, dd)
            op2 = w2 @ np.diag(o2) @ w2.conj().T
            opers.append((op2 + op2.conj().T) / 2)
            vs.append(gen.haar_unitary(rng, dd))
            rhos.append(gen.rand_state(rng, dd))
        sys_a, _ = mf.build()
        sys_b, _ = mf.build(vs=vs)

        def rotk(k, a):
            return vs[k] @ a @ vs[k].conj().T
        opers_r = [rotk(k, o_) for k, o_ in enumerate(opers)]
        opers_r = [(o_ + o_.conj().T) / 2 for o_ in opers_r]
        a0 = 0.3 + 0.2j
        end = lib.end_time(start, dt, nsteps)
        ta = oqupy.MeanFieldTempo(
            sys_a, [oqupy.Bath(o_, corr) for o_ in opers], params, rhos, a0,
            start, unique=unique)
        tb = oqupy.MeanFieldTempo(
            sys_b, [oqupy.Bath(o_, corr) for o_ in opers_r], params,
            [rotk(k, r) for k, r in enumerate(rhos)], a0, start,
            unique=unique)
        da = ta.compute(end, progress_type="silent")
        db = tb.compute(end, progress_type="silent")
        sa = np.array(da.system_dynamics[0].states)
        sb = np.array(db.system_dynamics[0].states)
        fields = (np.array(da.fields), np.array(db.fields))
        free = None
        extra_sys = []
        for k in range(1, len(dims)):
            xa = np.array(da.system_dynamics[k].states)
            xb = np.array(db.system_dynamics[k].states)
            extra_sys.append((k, xa, xb))
        if two:
            cells_extra.append("meanfield:two-systems")
    violations = list(rec.violations) + pending
    bound = C_BOUND * epsrel * scale * (lib.pt_growth(nsteps)
                                        if method == "pt" else 1.0)
    err = float("nan")
    if sa.shape != sb.shape or sa.shape[0] != nsteps + 1:
        violations.append({"what": "lengths differ", "mechanism": "length",
                           "detail": {"a": sa.shape, "b": sb.shape}})
    else:
        exp = np.array([rot(r) for r in sa])
        errs = np.abs(sb - exp).max(axis=(1, 2))
        err = float(errs.max())
        if not err <= bound:
            k = int(np.argmax(errs > bound))
            violations.append({
                "what": f"{method}: rotated simulation differs from "
                        f"V rho V^dag by {errs[k]:.3e} > {bound:.2e} at step "
                        f"{k} (d={d}, spectrum {pattern}, V {ukind}, "
                        f"unique={unique})",
                "mechanism": "covariance", "detail": {"errs": errs}})
        if fields is not None:
            fe = float(np.abs(fields[0] - fields[1]).max())
            err = max(err, fe)
            if fe > bound:
                violations.append({"what": f"field differs by {fe:.3e}",
                                   "mechanism": "covariance-field",
                                   "detail": {}})
    for (k, xa, xb) in extra_sys:
        if xa.shape != xb.shape:
            violations.append({"what": f"system {k}: lengths differ",
                               "mechanism": "length", "detail": {}})
            continue
        expk = np.array([vs[k] @ r @ vs[k].conj().T for r in xa])
        ek = float(np.abs(xb - expk).max())
        err = max(err, ek) if err == err else ek
        if not ek <= bound:
            violations.append({
                "what": f"meanfield: system {k} of the rotated simulation "
                        f"differs from V rho V^dag by {ek:.3e} > {bound:.2e}",
                "mechanism": "covariance", "detail": {}})
    effect = float(np.abs(sa - free).max()) if free is not None and \
        free.shape == sa.shape else 1.0
    degenerate = len(set(np.round(o, 8))) < d
    cells = ["method:" + method] + cells_extra
    if degenerate:
        cells.append("cov:degenerate")
    if unique:
        cells.append("cov:unique")
    if wkind == "near_identity":
        cells.append("cov:nearly-diagonal:" + method)
    sig = (method, d, pattern, ukind, unique, kmax is None)
    return {"violations": violations, "cells": cells,
            "monitors": {"bath_invariant": rec.evals.get("bath_invariant", 0),
                         "steps_compared": int(sa.shape[0])},
            "nontrivial": effect >= 1e-2 and ukind not in ("phase",),
            "signature": str(sig), "maxratio": err / bound,
            "obs": {"err": err, "R": rm},
            "sample": gen.nice({"kind": "cov", "method": method, "d": d,
                                "spectrum": pattern, "o": list(o),
                                "V": ukind, "sd": p, "dt": dt, "N": nsteps,
                                "dkmax": kmax, "add_correlation_time": tau,
                                "epsrel": epsrel, "unique": unique,
                                "err": err, "bound": bound})}


def run_repotests(case):
    from vp import repotests
    return repotests.run(lambda m: m.startswith("bath"))


def run_case(case):
    if case["kind"] == "repotests":
        return run_repotests(case)
    return run_bath(case) if case["kind"] == "bath" else run_cov(case)
