"""C12 - bath correlation functions and their 2D integrals.

Reference-model monitors (R1, vp/ref/bath.py + bath2.py) and differential
monitors on the real CustomSD / PowerLawSD / CustomCorrelations objects:

* every cell shape (upper-triangle, square, rectangle; on-grid, off-grid,
  touching / straddling the diagonal 0 <= time_1 < delta, time_1 < 0, short /
  long rectangles) against (a) the 1-D weighted quadrature
  int w(s) C(s) ds of the object's OWN correlation() and (b) second
  differences of the independent eta (plus -dt*eta'(t1) for offset triangles);
* tiling: the cells of the first n steps sum to the triangle over [0, n dt]
  (library triangle with delta = n dt, and independent eta(n dt)); a rectangle
  equals the sum of the squares it covers;
* correlation(): Hermitian symmetry C(-tau) = C(tau)^*, independent
  quadrature, T = 0 closed form (power law, exponential cutoff);
  Re triangle > 0; spectral_density() against the re-implemented J;
* CustomSD with the power-law j == PowerLawSD (same values);
* Matsubara: correlation(matsubara=True) and the Matsubara cells are real,
  symmetric about beta/2, and equal the independent imaginary-time integrals
  and (minus) the weighted quadrature of the own Matsubara correlation;
* CustomCorrelations (dblquad) against analytic cell integrals of sums of
  damped exponentials and of finite-mode cos/sin correlations.

Three open findings are classified by *measured* identities (never by
parameters alone), everything else keeps its "<what>-deviation" mechanism:
  triangle-offset-time1          lib == eta(t1+dt)-eta(t1) (trapezoid) within
                                 the bound, for CustomSD upper-triangles with
                                 time_1 != 0;
  subohmic-thermal-cancellation  T>0 (seen for zeta<1 only; reported in the
                                 detail), eta_function-based quantity or
                                 correlation(): a replica of the pinned
                                 integrand (same scipy.quad calls) reproduces
                                 the library value, the cancellation-free
                                 integrand (same quad calls) reproduces the
                                 reference; any size, size recorded;
  inf-tail-quad-glitch           cutoff_type != 'hard'; the replica (b=inf)
                                 reproduces the library value, the same
                                 integrand with a finite-piece tail reproduces
                                 the reference.
(vp/mon/quadtwin.py holds the replica / repaired recomputations.)
"""
import math
import os
import warnings

import numpy as np

from vp import gen
from vp.ref import bath as rb
from vp.ref import bath2 as rb2

ID = "C12"
LEVEL = "exploration"
BATCH = 4
CASE_TIMEOUT = 200

# --- tolerance policy (DESIGN 2.1) -------------------------------------------
# The library calls scipy.integrate.quad(epsrel=eps) without epsabs, i.e. it
# *requests* max(epsabs_default, eps*|I|) per quadrature.  A cell is a linear
# combination sum_i c_i eta(t_i); its requested tolerance is therefore
#   eps * sum_i |c_i| |eta(t_i)|   +   EPSABS * nquad * sum_i |c_i|
# and the bound is C_REL*(first part) + C_ABS*(second part).  Calibration on
# the unchanged tree (quick tier seeds 0-3 + thorough seed 0, 2 300 cases):
# every comparison that held with a ratio deviation/bound > 0.1 was examined
# with the classifiers; those that are NOT small instances of the two open
# accuracy findings reach at most 0.12 (obs "held_ratio_unattributed"), i.e.
# >= 8x headroom; C_REL = 100 as frozen in DESIGN section C12, C_ABS = 4
# (with C_ABS = 1 the worst unattributed ratio was 0.46: an absolute error of
# 8 x 1.49e-8 on a square built from 16 quad calls).
EPSABS = 1.49e-8            # scipy's default absolute tolerance
DEFAULT_EPSREL = 2.0 ** -26  # oqupy.config.INTEGRATE_EPSREL
C_REL = 100.0
C_ABS = 4.0
C_TWIN = 1e-12              # CustomSD(power law) vs PowerLawSD, relative
# The known-finding tags are given on measured evidence only (replica of the
# pinned integrand == library value, repaired integrand / tail == reference);
# no size limit applies to a tagged deviation (the cancellation noise is
# unbounded: values of 1e12 were observed), its size is recorded instead.
REPLICA_TOL = 1e-2          # |lib - replica| <= REPLICA_TOL * bound (seen: 0.0)
KNOWN_TAGS = ("triangle-offset-time1", "subohmic-thermal-cancellation",
              "inf-tail-quad-glitch")

RULE = ("seeded random spectral densities: alpha in (0,4], zeta in [0.1,4], "
        "cutoff 0.3..20, three cutoff types, eight temperature classes (0, "
        "below/at/above the overflow-guard crossover w/T=36 at the cutoff, "
        "T<<wc, T~wc, T>>wc), dt*wc in [0.03,3], quadrature epsrel default / "
        "1e-6 / 1e-9, PowerLawSD / CustomSD(power law) / CustomSD(other j); "
        "per case 8-10 cells drawn from 14 position classes, a tiling of n "
        "steps, correlation() at 5 time differences of both signs, Matsubara "
        "values/cells at 6 imaginary times in [0,beta]; plus "
        "CustomCorrelations cases (1-3 damped exponentials, 1-3 finite "
        "modes; all 12 cell classes; cells straddling the diagonal with a "
        "kinked callable only at default/1e-6 epsrel, counted in "
        "cc:kink-straddle). A case is non-trivial iff at least 4 of its judged cells "
        "have |reference| >= 100*bound (a 1 % error would be seen) - "
        "measured; distinct = distinct (variant, cutoff, T class, zeta class, "
        "epsrel class, cell classes) signature")
ASSUMPTIONS = [
    "reference integrals by scipy.quad at epsrel 1e-12 with a w = wc x^m "
    "substitution on [0,wc]; self-test (two substitutions must agree, error "
    "estimate <= 1e-9 relative) else the case is skipped, never judged",
    "requested tolerance of the library = max(scipy default epsabs 1.49e-8, "
    "epsrel*|integral|) per quad call; bound = 100*epsrel*sum|eta terms| + "
    "4*epsabs*(number of quad calls)",
    "custom j-functions are finite for w -> infinity and behave like "
    "w^zeta at 0; custom correlation callables are C(-t) = C(t)^*",
    "Matsubara times restricted to [0, beta]",
    "CustomCorrelations cells that straddle the diagonal while the callable "
    "has a kink at tau = 0 (a e^{-(g+iw)|tau|}): scipy.dblquad reaches only "
    "~7e-6 relative whatever epsrel is requested (and warns); those cells "
    "(cell cc:kink-straddle) are judged with the extra term 1e-4*max|C|*area; "
    "smooth callables and all non-straddling cells use the normal bound",
    "known-finding tags are evidence based: the harness recomputes the "
    "quantity with a replica of the pinned integrand and with the repaired "
    "integrand / tail (vp/mon/quadtwin.py); no tag without replica == library",
]

T_CLASSES = ("zero", "cross", "low", "mid", "high", "zero", "cross-below",
             "cross-above")
VARIANTS = ("powerlaw", "powerlaw", "custom-powerlaw", "custom-j")


def required_cells(tier):
    req = {
        "shape:upper-triangle": 10, "shape:square": 10, "shape:rectangle": 10,
        "pos:square:k>=1": 5, "pos:square:t1=0": 2, "pos:square:straddle": 2,
        "pos:square:offgrid": 2, "pos:square:t1<0": 2,
        "pos:rect:ext<1": 2, "pos:rect:ext=1": 2, "pos:rect:ext>1": 2,
        "pos:rect:ext>>1": 2, "pos:rect:straddle": 2, "pos:rect:tempo": 2,
        "pos:tri:offset": 2,
        "cutoff:hard": 5, "cutoff:exponential": 5, "cutoff:gaussian": 5,
        "variant:powerlaw": 5, "variant:custom-powerlaw": 3,
        "variant:custom-j": 3, "variant:custom-j-gapped": 2,
        "zeta<1": 3, "zeta=1": 2, "zeta>1": 3, "zeta<1&T>0": 2,
        "eps:default": 3, "eps:explicit": 3,
        "cells_vs_eta": 100, "cells_vs_own": 30, "tiling": 10,
        "own:upper-triangle": 3, "own:square": 5, "own:rectangle": 5,
        "symmetry": 20, "corr_vs_ref": 20, "closed_form_T0": 3,
        "twin_identical": 10, "triangle_positive": 10,
        "matsubara_real": 20, "matsubara_vs_ref": 20, "matsubara_cells": 10,
        "matsubara_symmetry": 5, "matsubara:guard-active": 3,
        "cc_cells_vs_analytic": 20, "cc:exp": 2, "cc:modes": 2,
        "cc:tri:offset": 2, "cc:straddle": 2, "cc:kink-straddle": 2,
        "scale:extreme": 3, "scale:moderate": 3, "scale_cells_compared": 50,
        "reassign:alpha": 1, "reassign:zeta": 1, "reassign:cutoff": 1,
        "reassign:temperature": 1, "reassign:cutoff_type": 1,
        "cc:finite-memory-literal-zero": 1,
        "reassign-copy:copy.copy": 2, "reassign-copy:Bath.correlations": 2,
        "reassign-copy:copy.deepcopy": 2,
    }
    for tc in set(T_CLASSES):
        req["T:" + tc] = 2
    return req


def cases(tier, seed):
    n_sd, n_cc = (144, 24) if tier == "quick" else (1500, 200)
    out = [{"kind": "sd", "seed": seed, "idx": i, "tier": tier}
           for i in range(n_sd)]
    out += [{"kind": "cc", "seed": seed, "idx": i, "tier": tier}
            for i in range(n_cc)]
    out += [{"kind": "scale", "seed": seed, "idx": i, "tier": tier}
            for i in range(12 if tier == "quick" else 80)]
    out += [{"kind": "reassign", "seed": seed, "idx": i, "tier": tier}
            for i in range(15 if tier == "quick" else 60)]
    return out


def extra_coverage(results, tier):
    """Evidence about the known-finding classifiers: how often each tag was
    given, how large the tagged deviations were (relative to the bound), how well
    the replica reproduced the library, and one fully measured example."""
    out = {}
    for res in results:
        for v in (res or {}).get("violations", []):
            m = v.get("mechanism")
            if m not in KNOWN_TAGS:
                continue
            d = v.get("detail", {})
            o = out.setdefault(m, {"tagged_comparisons": 0,
                                   "tagged_outside_zeta<1_and_T>0": 0,
                                   "worst_lib_minus_replica_over_bound": 0.0,
                                   "worst_deviation_over_bound": 0.0,
                                   "example": None})
            o["tagged_comparisons"] += 1
            try:
                bound = float(d.get("bound") or 0.0)
                err = float(d.get("err") or 0.0)
                if bound > 0:
                    o["worst_deviation_over_bound"] = max(
                        o["worst_deviation_over_bound"], err / bound)
                    if "lib_minus_replica" in d:
                        o["worst_lib_minus_replica_over_bound"] = max(
                            o["worst_lib_minus_replica_over_bound"],
                            float(d["lib_minus_replica"]) / bound)
                if d.get("regime_zeta<1_and_T>0") is False:
                    o["tagged_outside_zeta<1_and_T>0"] += 1
            except (TypeError, ValueError):
                pass
            if o["example"] is None:
                o["example"] = {"what": v.get("what"), "detail": {
                    k: d[k] for k in d if k != "nodes"}}
    return {"known_finding_classifier": out}


class Bound(float):
    """bound = C_REL*rel + C_ABS*ab, remembering the two requested-tolerance
    parts (relative part eps*scale, absolute part epsabs*nquad)."""
    rel = 0.0
    ab = 0.0

    def plus(self, rel, ab):
        return bnd(self.rel + rel, self.ab + ab)

    def times(self, k):
        return bnd(self.rel * k, self.ab * k)


def bnd(rel, ab):
    b = Bound(C_REL * rel + C_ABS * ab)
    b.rel, b.ab = rel, ab
    return b


# --- helpers -------------------------------------------------------------------

class Judge:
    """Collects comparisons: violations, monitor counts, worst ratio."""

    def __init__(self):
        self.violations = []
        self.monitors = {}
        self.maxratio = 0.0
        self.obs = {}
        self.sensitive = 0
        self.dump = [] if os.environ.get("C12_DUMP") else None

    def count(self, name, n=1):
        self.monitors[name] = self.monitors.get(name, 0) + n

    def note(self, key, val):
        val = float(val)
        if val == val:
            self.obs[key] = max(self.obs.get(key, val), val)

    def compare(self, monitor, lib, ref, bound, what, mechanism, detail=None,
                obs=None, attribute=None):
        """|lib-ref| <= bound ?  Returns True if it held.  `mechanism` is a
        string or a callable () -> (string, evidence dict) that is only
        evaluated when the comparison fails (known-finding classifiers).
        `attribute` () -> tag or None is evaluated for comparisons that HELD
        with less than 10x headroom: it says whether that deviation is (a
        small instance of) a known accuracy finding, so that the evidence can
        state the headroom of everything else."""
        self.count(monitor)
        err = abs(complex(lib) - complex(ref))
        if self.dump is not None:
            self.dump.append((obs or monitor, err, getattr(bound, "rel", None),
                              getattr(bound, "ab", None), abs(complex(ref))))
        ratio = err / bound if bound > 0 else (0.0 if err == 0 else math.inf)
        if not ratio == ratio:
            ratio = math.inf
        if ratio <= 1.0:
            self.note("ratio:" + (obs or monitor), ratio)
            self.maxratio = max(self.maxratio, ratio)
            if attribute is not None:
                tag = attribute() if ratio > 0.1 else None
                if tag is None:
                    self.note("held_ratio_unattributed", ratio)
                else:
                    self.note("held_ratio_attributed:" + tag, ratio)
                    self.count("held_attributed:" + tag)
            return True
        d = {"lib": complex(lib), "ref": complex(ref), "err": err,
             "bound": float(bound)}
        d.update(detail or {})
        if callable(mechanism):
            mechanism, evidence = mechanism()
            d.update(evidence or {})
        if mechanism in KNOWN_TAGS:
            # comparisons carrying a known-finding tag are reported under
            # their own obs key and do not enter the worst ratio
            self.note("ratio:" + mechanism, ratio)
            self.count("tagged:" + mechanism)
        else:
            self.note("ratio:" + (obs or monitor), ratio)
            self.maxratio = max(self.maxratio, ratio)
        self.violations.append({
            "what": f"{what}: |lib-ref| = {err:.3e} > bound {bound:.3e}",
            "mechanism": mechanism, "detail": d})
        return False

    def fail(self, monitor, what, mechanism, detail=None):
        self.count(monitor)
        self.maxratio = math.inf
        self.violations.append({"what": what, "mechanism": mechanism,
                                "detail": detail or {}})


def _nquad(p):
    """quad calls behind one eta_function / correlation value."""
    return 2 if p["cutoff_type"] == "hard" else 4


def _custom_j(p, gapped=False):
    a, z, wc = p["alpha"], p["zeta"], p["cutoff"]
    if gapped:
        # a spectral gap: exactly zero up to 0.55 wc (in particular at
        # wc/2, the midpoint of the first quadrature interval), switched on
        # smoothly (C-infinity) above it
        w0, w1 = 0.55 * wc, 0.3 * wc

        def jgap(w):
            if w <= w0:
                return 0.0
            return 2.0 * a * w ** z * wc ** (1 - z) * math.exp(-w1 / (w - w0))
        return jgap
    return lambda w: 2.0 * a * w ** z * wc ** (1 - z) \
        * (1.0 + 0.5 * w / (w + wc))


def _gen_sd(case):
    rng = gen.rng_for(case["seed"], "c12sd", case["idx"])
    i = case["idx"]
    ctype = gen.CUTOFFS[i % 3]
    tclass = T_CLASSES[(i // 3) % 8]
    variant = VARIANTS[(i // 2) % 4] if (i // 24) % 2 == 0 \
        else VARIANTS[(i + i // 24) % 4]
    wc = float(10 ** rng.uniform(-0.5, 1.3))
    alpha = 4.0 if rng.random() < 0.1 else float(10 ** rng.uniform(-1.7, 0.6))
    zeta = float(rng.choice([0.1, 0.25, 0.5, 0.75, 1.0, 1.0, 1.5, 2.0, 3.0,
                             4.0, rng.uniform(0.1, 4.0),
                             rng.uniform(0.1, 1.0)]))
    if tclass == "zero":
        temp = 0.0
    elif tclass == "cross":
        temp = wc / 36.04 * float(rng.uniform(0.9, 1.1))
    elif tclass == "cross-below":
        temp = wc / 36.04 * float(rng.uniform(0.3, 0.9))
    elif tclass == "cross-above":
        temp = wc / 36.04 * float(rng.uniform(1.1, 3.0))
    elif tclass == "low":
        temp = wc * float(10 ** rng.uniform(-2.5, -1.7))
    elif tclass == "mid":
        temp = wc * float(10 ** rng.uniform(-1.0, 0.5))
    else:
        temp = wc * float(10 ** rng.uniform(1.0, 2.5))
    dt = float(10 ** rng.uniform(-1.5, 0.5)) / wc
    eps = [None, 1e-6, None, 1e-9][int(rng.integers(0, 4))]
    p = dict(alpha=alpha, zeta=zeta, cutoff=wc, cutoff_type=ctype,
             temperature=float(temp))
    return rng, p, variant, tclass, dt, eps


def _make_obj(p, variant, gapped=False):
    import oqupy
    if variant == "powerlaw":
        return gen.make_power_law(p)
    if variant == "custom-powerlaw":
        return gen.make_custom_sd(p)
    jf = _custom_j(p, gapped)
    if gapped:
        jf = np.vectorize(jf)
    return oqupy.CustomSD(jf, cutoff=p["cutoff"],
                          cutoff_type=p["cutoff_type"],
                          temperature=p["temperature"])


def _cell_menu(rng, dt, i, quick):
    """(class, shape, t1, t2) - every case gets the TEMPO cells plus a
    rotating selection of the other position classes."""
    f = float(rng.uniform(0.1, 0.9))
    f2 = float(rng.uniform(0.1, 0.9))
    k = int(rng.integers(2, 9))
    kk = int(rng.integers(1, 6))
    tau_add = float(rng.uniform(0.1, 2.5)) * dt
    m = int(rng.integers(1, 5))
    menu = [
        ("tri:0", "upper-triangle", 0.0, None),
        ("square:k>=1", "square", dt, None),
        ("square:k>=1", "square", k * dt, None),
        ("square:t1=0", "square", 0.0, None),
        ("square:straddle", "square", f * dt, None),
        ("square:offgrid", "square", (kk + f2) * dt, None),
        ("square:t1<0", "square", -f2 * dt, None),
        ("rect:ext<1", "rectangle", kk * dt, kk * dt + f * dt),
        ("rect:ext=1", "rectangle", kk * dt, kk * dt + dt),
        ("rect:ext>1", "rectangle", kk * dt,
         kk * dt + float(rng.uniform(1.1, 3.0)) * dt),
        ("rect:ext>>1", "rectangle", kk * dt,
         kk * dt + float(rng.uniform(5.0, 20.0)) * dt),
        ("rect:straddle", "rectangle", f2 * dt,
         f2 * dt + float(rng.uniform(0.3, 2.5)) * dt),
        ("rect:tempo", "rectangle", kk * dt,
         kk * dt + min(m * dt, dt + tau_add)),
        ("tri:offset", "upper-triangle", [dt, f * dt, k * dt][i % 3], None),
    ]
    fixed = menu[:3]
    rest = menu[3:]
    nrest = 6 if quick else 8
    start = (i * 5) % len(rest)
    chosen = [rest[(start + j) % len(rest)] for j in range(nrest)]
    return fixed + chosen


def _lib_call(fn, *a, **kw):
    """Call into the library, recording scipy IntegrationWarnings."""
    with warnings.catch_warnings(record=True) as rec:
        warnings.simplefilter("always")
        val = fn(*a, **kw)
    return val, len(rec)


_GL = {}


def _gl(n):
    if n not in _GL:
        _GL[n] = np.polynomial.legendre.leggauss(n)
    return _GL[n]


def _panels(shape, dt, t1, t2, wc):
    """Integration range of s = t' - t'' split at the kinks of the overlap
    weight and into panels of length <= 1/wc, with the weight function."""
    if shape == "upper-triangle":
        lo, hi = t1, t1 + dt
        brk = []

        def w(s):
            return t1 + dt - s
    else:
        if t2 is None:
            t2 = t1 + dt
        lo, hi = t1 - dt, t2
        brk = [x for x in sorted({t1, t2 - dt}) if lo < x < hi]

        def w(s):
            return max(0.0, min(t2, s + dt) - max(t1, s))
    edges = [lo] + brk + [hi]
    out = []
    for a, b in zip(edges[:-1], edges[1:]):
        m = max(1, int(math.ceil((b - a) * wc)))
        h = (b - a) / m
        for j in range(m):
            out.append((a + j * h, a + (j + 1) * h))
    return out, w


def _gl_order(h, wc):
    x = h * wc
    return 6 if x <= 0.25 else (8 if x <= 0.5 else 12)


def _weighted_gl(c, shape, dt, t1, t2, wc, extra=0, nodes=None):
    """int w(s) c(s) ds by Gauss-Legendre panels (deterministic cost: the
    library correlation carries quadrature noise ~epsrel, an adaptive rule
    with a tighter tolerance would subdivide for ever).  `nodes`, if a list,
    receives (s, weight, value) of every node."""
    panels, w = _panels(shape, dt, t1, t2, wc)
    tot = 0j
    nev = 0
    for a, b in panels:
        x, wt = _gl(_gl_order(b - a, wc) + extra)
        for xi, wi in zip(x, wt):
            s = 0.5 * (a + b) + 0.5 * (b - a) * xi
            val = complex(c(s))
            fac = 0.5 * (b - a) * wi * w(s)
            tot += fac * val
            nev += 1
            if nodes is not None:
                nodes.append((s, fac, val))
    return tot, nev


def _weighted_own(corr, shape, dt, t1, t2, wc, zeta, sign=1.0):
    """1-D weighted quadrature of the object's own correlation callable.
    The panel rule is self-tested on a model function with the same analytic
    structure (branch point at distance 1/wc from the real axis, band width
    wc): orders n and n+4 must agree to 1e-9 (relative to the cell area; the
    bound of the comparison is >= 1e-7 * C(0) * area)."""
    def model(s):
        return (1.0 + 1j * wc * s + 0j) ** (-(zeta + 1.0)) \
            + 0.5 * np.exp(-1j * wc * s)
    m1, _ = _weighted_gl(model, shape, dt, t1, t2, wc)
    m2, _ = _weighted_gl(model, shape, dt, t1, t2, wc, extra=4)
    area = dt * ((t2 - t1) if t2 is not None else dt)
    if abs(m1 - m2) > 1e-9 * area:
        raise rb.RefUnreliable("panel rule not converged on the model "
                               f"function: {abs(m1 - m2):.2e}")
    nodes = []
    val, nev = _weighted_gl(corr, shape, dt, t1, t2, wc, nodes=nodes)
    return sign * val, nodes


# --- known-finding classifiers -----------------------------------------------------

class Classifier:
    """Evidence-based attribution of a deviation to one of the two open
    accuracy findings of CustomSD (see vp/mon/quadtwin.py).  A tag is given
    only if the harness' replica of the pinned integrand reproduces the
    library value (so the library did nothing else than that) AND the
    repaired integrand / tail reproduces the independent reference."""

    def __init__(self, obj, p, pref, variant, eps_eff):
        from vp.mon import quadtwin
        self.tw = quadtwin.Twin(obj, pref, eps_eff)
        self.p = p
        self.thermal = p["temperature"] > 0.0
        self.subohmic_thermal = p["zeta"] < 1.0 and self.thermal
        self.soft = p["cutoff_type"] != "hard"

    def eta_combo(self, lib, ref, terms, bound, default, matsubara=False):
        """Mechanism for a deviating linear combination sum c_i eta(t_i)
        (terms carry exactly the library's float arguments)."""
        def run():
            ev = {"regime_zeta<1_and_T>0": self.subohmic_thermal,
                  "deviation_over_bound": abs(lib - ref) / bound}
            if not (self.thermal or self.soft):
                return default, ev
            tw = self.tw
            rep = tw.combo(terms, "replica", matsubara)
            ev["replica_of_pinned_integrand"] = complex(rep)
            ev["lib_minus_replica"] = abs(lib - rep)
            if not abs(lib - rep) <= REPLICA_TOL * bound:
                return default, ev
            if self.thermal:
                st = tw.combo(terms, "stable", matsubara)
                ev["stable_integrand_same_quad"] = complex(st)
                ev["stable_minus_ref"] = abs(st - ref)
                if abs(st - ref) <= bound:
                    return "subohmic-thermal-cancellation", ev
            if self.soft:
                fin = tw.combo(terms, "finite", matsubara)
                ev["finite_tail_same_integrand"] = complex(fin)
                ev["finite_minus_ref"] = abs(fin - ref)
                if abs(fin - ref) <= bound:
                    return "inf-tail-quad-glitch", ev
            return default, ev
        return run

    def attribute_eta(self, lib, ref, terms, matsubara=False):
        """For a comparison that held: is the (small) deviation an instance
        of a known finding?  Criterion: the replica reproduces the library
        and the repaired integrand / tail removes >= 90 % of the deviation."""
        def run():
            err = abs(lib - ref)
            if not (self.thermal or self.soft) or err == 0:
                return None
            tw = self.tw
            if not abs(lib - tw.combo(terms, "replica", matsubara)) \
                    <= 1e-3 * err:
                return None
            if self.thermal and abs(tw.combo(terms, "stable", matsubara)
                                    - ref) <= 0.1 * err:
                return "subohmic-thermal-cancellation"
            if self.soft and abs(tw.combo(terms, "finite", matsubara)
                                 - ref) <= 0.1 * err:
                return "inf-tail-quad-glitch"
            return None
        return run

    def attribute_corr(self, lib, ref, tau):
        def run():
            err = abs(lib - ref)
            if not (self.thermal or self.soft) or err == 0:
                return None
            tw = self.tw
            if not abs(lib - tw.correlation(tau, "replica")) <= 1e-3 * err:
                return None
            if self.thermal and abs(tw.correlation(tau, "stable") - ref) \
                    <= 0.1 * err:
                return "subohmic-thermal-cancellation"
            if self.soft and abs(tw.correlation(tau, "finite") - ref) \
                    <= 0.1 * err:
                return "inf-tail-quad-glitch"
            return None
        return run

    def correlation(self, lib, ref, tau, bound, default):
        """Mechanism for a deviating real-time correlation() value."""
        def run():
            ev = {"regime_zeta<1_and_T>0": self.subohmic_thermal,
                  "deviation_over_bound": abs(lib - ref) / bound}
            if not (self.soft or self.thermal):
                return default, ev
            rep = self.tw.correlation(tau, "replica")
            ev["replica_of_pinned_integrand"] = complex(rep)
            ev["lib_minus_replica"] = abs(lib - rep)
            if not abs(lib - rep) <= REPLICA_TOL * bound:
                return default, ev
            if self.thermal:
                st = self.tw.correlation(tau, "stable")
                ev["stable_integrand_same_quad"] = complex(st)
                ev["stable_minus_ref"] = abs(st - ref)
                if abs(st - ref) <= bound:
                    return "subohmic-thermal-cancellation", ev
            if self.soft:
                fin = self.tw.correlation(tau, "finite")
                ev["finite_tail_same_integrand"] = complex(fin)
                ev["finite_minus_ref"] = abs(fin - ref)
                if abs(fin - ref) <= bound:
                    return "inf-tail-quad-glitch", ev
            return default, ev
        return run


# --- spectral-density cases ------------------------------------------------------

def run_sd(case):
    rng, p, variant, tclass, dt, eps = _gen_sd(case)
    i = case["idx"]
    quick = case["tier"] == "quick"
    J = Judge()
    wc, temp = p["cutoff"], p["temperature"]
    pref = dict(p)
    gapped = variant == "custom-j" and (i // 8) % 2 == 1
    if variant == "custom-j":
        pref["j"] = _custom_j(p, gapped)
    obj = _make_obj(p, variant, gapped)
    twin = gen.make_power_law(p) if variant == "custom-powerlaw" else None
    epskw = {} if eps is None else {"epsrel": eps}
    eps_eff = DEFAULT_EPSREL if eps is None else eps
    nq = _nquad(p)
    nwarn = 0
    cl = Classifier(obj, p, pref, variant, eps_eff)

    eta_ref = rb2.ext(lambda t: rb2.eta(pref, t))
    c0 = rb2.correlation(pref, 0.0).real      # >= |C(tau)| for all tau
    cref_memo = {}

    def corr_ref(s):
        """independent C(s), any sign of s"""
        key = abs(float(s))
        if key not in cref_memo:
            cref_memo[key] = rb2.correlation(pref, key, 1e-10 * c0)
        v = cref_memo[key]
        return v if s >= 0 else v.conjugate()

    # the two implementations of R1 against each other (R1 of vp.ref.bath is
    # the one C01 relies on)
    try:
        e1 = rb.eta(pref, dt)
        J.count("ref_crosscheck")
        if abs(e1 - eta_ref(dt)) > 1e-8 * abs(e1):
            raise rb.RefUnreliable(
                f"vp.ref.bath.eta and vp.ref.bath2.eta differ: {e1} "
                f"{eta_ref(dt)}")
    except rb.RefUnreliable as exc:
        if "differ" in str(exc):
            raise
    cells_cov = ["cutoff:" + p["cutoff_type"], "T:" + tclass,
                 "variant:" + variant,
                 "eps:default" if eps is None else "eps:explicit"]
    if gapped:
        cells_cov.append("variant:custom-j-gapped")
    zclass = "zeta<1" if p["zeta"] < 1 else ("zeta=1" if p["zeta"] == 1
                                             else "zeta>1")
    cells_cov.append(zclass)
    if p["zeta"] < 1 and temp > 0:
        cells_cov.append("zeta<1&T>0")

    # ---- spectral density itself
    jref = rb.spectral_density(pref)
    for w in (0.37 * wc, wc * 0.999, 2.3 * wc):
        lib = float(obj.spectral_density(w))
        J.compare("spectral_density", lib, jref(w),
                  1e-13 * abs(jref(w)) + 1e-300,
                  f"spectral_density({w:.4g})", "spectral-density")

    def own_mechanism(lib, own, nodes, cell_ref, b_own, cell_mech, default):
        """Attribution of a lib-cell vs own-correlation deviation: either the
        cell side deviates (inherits the cell's tag) or single correlation()
        values deviate (each must be a proven tail glitch)."""
        def run():
            ev = {"own": complex(own), "own_minus_ref": abs(own - cell_ref)}
            if abs(own - cell_ref) <= b_own:
                # the quadrature of correlation() is right: cell-side cause
                if cell_mech[0] in KNOWN_TAGS:
                    ev["inherits_from_cell_comparison"] = cell_mech[0]
                    return cell_mech[0], ev
                return default, ev
            b_c = bnd(eps_eff * c0, EPSABS * nq)
            corrected = 0j
            glitches = []
            for s, fac, val in nodes:
                r = corr_ref(s)
                if abs(val - r) > b_c:
                    mech, e2 = cl.correlation(val, r, s, b_c, None)()
                    glitches.append({"s": s, "lib": val, "ref": r,
                                     "mechanism": mech, **e2})
                    if mech != "inf-tail-quad-glitch":
                        ev["nodes"] = glitches
                        return default, ev
                    val = r
                corrected += fac * val
            ev["nodes"] = glitches
            ev["own_with_glitches_replaced"] = corrected
            if glitches and abs(lib - corrected) <= b_own:
                return "inf-tail-quad-glitch", ev
            return default, ev
        return run

    # ---- cells
    menu = _cell_menu(rng, dt, i, quick)
    own_budget = 1 if quick else 3
    own_classes = set()
    cell_sig = []
    tri0_mech = [None]
    for n, (cls, shape, t1, t2) in enumerate(menu):
        kw = dict(epskw)
        if t2 is not None:
            kw["time_2"] = t2
        lib, nw = _lib_call(obj.correlation_2d_integral, dt, t1, shape=shape,
                            **kw)
        nwarn += nw
        terms, prime = rb2.cell_terms(shape, dt, t1, t2)
        trap = sum(c * eta_ref(t) for c, t in terms)
        ref = trap
        scale = sum(abs(c) * abs(eta_ref(t)) for c, t in terms)
        ncoef = sum(abs(c) for c, _ in terms)
        offset_tri = (shape == "upper-triangle" and t1 != 0.0)
        if offset_tri:
            ref = trap + prime[0] * rb2.eta_prime(pref, prime[1],
                                                  1e-10 * c0 * prime[1])
        bound = bnd(eps_eff * scale, EPSABS * nq * ncoef)
        cells_cov += ["shape:" + shape, "pos:" + cls]
        cell_sig.append(cls)
        if abs(ref) >= 100 * bound:
            J.sensitive += 1
        detail = {"shape": shape, "delta": dt, "time_1": t1, "time_2": t2,
                  "epsrel": eps, "sd": p, "variant": variant,
                  "integration_warnings": nw}
        cell_mech = [None]
        if offset_tri:
            # known-finding classifier: tag only if the library value equals
            # the trapezoid eta(t1+dt)-eta(t1) to within the bound (or the
            # remainder lib - trapezoid is itself a proven accuracy finding)
            def mech_tri(lib=lib, ref=ref, trap=trap, terms=terms,
                         bound=bound):
                ev = {"definition": ref, "trapezoid": trap,
                      "lib_minus_trapezoid": abs(lib - trap),
                      "lib_minus_definition": abs(lib - ref)}
                if abs(lib - trap) <= bound:
                    return "triangle-offset-time1", ev
                m2, e2 = cl.eta_combo(lib, trap, terms, bound, None)()
                ev.update(e2)
                if m2 in KNOWN_TAGS:
                    ev["remainder_attributed_to"] = m2
                    return "triangle-offset-time1", ev
                return "triangle-deviation", ev
            default = "triangle-deviation"
            mech = mech_tri
            what = (f"offset upper-triangle (time_1={t1:.4g}, delta={dt:.4g})"
                    " vs definition via independent eta")
        else:
            default = "triangle-deviation" if shape == "upper-triangle" \
                else shape + "-deviation"
            mech = cl.eta_combo(lib, ref, terms, bound, default)
            what = (f"{shape} cell ({cls}, time_1={t1:.4g}, delta={dt:.4g}, "
                    f"time_2={t2}) vs independent eta")

        def mech_rec(mech=mech, cell_mech=cell_mech):
            m, ev = mech()
            cell_mech[0] = m
            return m, ev
        J.compare("cells_vs_eta", lib, ref, bound, what, mech_rec, detail,
                  obs="cells_vs_eta:tri-offset" if offset_tri else None,
                  attribute=None if offset_tri
                  else cl.attribute_eta(lib, ref, terms))
        # own-correlation oracle on a rotating subset (cost: ~50-200
        # correlation() evaluations each)
        span = ((t2 if t2 is not None else t1 + dt) - (t1 - dt)) * wc
        want = (n == (i % 3)) or (n >= 3 and span <= 8.0
                                  and len(own_classes) < own_budget)
        if want and span <= 8.0:
            if n >= 3:
                own_classes.add(cls)
            own, nodes = _weighted_own(
                lambda s: obj.correlation(s, **epskw), shape, dt, t1, t2,
                wc, p["zeta"])
            area = dt * ((t2 - t1) if t2 is not None else dt)
            b_own = bound.plus(eps_eff * c0 * area, EPSABS * nq * area)
            J.compare("cells_vs_own", lib, own, b_own,
                      f"{shape} cell ({cls}) vs weighted quadrature of the "
                      "object's own correlation()",
                      own_mechanism(lib, own, nodes, ref, b_own, cell_mech,
                                    default.replace("deviation",
                                                    "vs-own-correlation")),
                      dict(detail, correlation_evaluations=len(nodes)),
                      obs="cells_vs_own:tri-offset" if offset_tri else None)
            J.count("own_correlation_evaluations", len(nodes))
            cells_cov.append("own:" + shape)
        if n == 0:
            tri0_mech = cell_mech
        if twin is not None:
            tv = twin.correlation_2d_integral(dt, t1, shape=shape, **kw)

            def mech_twin(cell_mech=cell_mech, tv=tv):
                # rounding noise is chaotic: if this very cell already carries
                # a proven accuracy tag, a last-digit difference of J between
                # the two classes may change the noise
                if cell_mech[0] in KNOWN_TAGS[1:]:
                    return cell_mech[0], {
                        "twin_value": complex(tv),
                        "inherits_from_cell_comparison": cell_mech[0]}
                return "customsd-differs-from-powerlaw", {}
            J.compare("twin_identical", lib, tv, C_TWIN * scale + 1e-300,
                      f"CustomSD(power-law j) vs PowerLawSD, {shape} cell",
                      mech_twin, detail)
            if lib == tv:
                J.count("twin_bitwise_equal")

    # ---- positivity of the triangle
    tri, _ = _lib_call(obj.correlation_2d_integral, dt, 0.0,
                       shape="upper-triangle", **epskw)
    J.count("triangle_positive")
    if not tri.real > 0:
        # same value as the first menu cell: a proven accuracy tag of that
        # comparison explains a wrong sign as well
        known = tri0_mech[0] in KNOWN_TAGS[1:]
        if known:
            J.count("tagged:" + tri0_mech[0])
            J.violations.append({
                "what": f"Re upper-triangle = {tri.real:.3e} is not positive",
                "mechanism": tri0_mech[0],
                "detail": {"sd": p, "delta": dt, "lib": tri,
                           "inherits_from_cell_comparison": tri0_mech[0]}})
        else:
            J.fail("triangle_positive_fail",
                   f"Re upper-triangle = {tri.real:.3e} is not positive",
                   "triangle-not-positive", {"sd": p, "delta": dt})

    # ---- tiling
    n = int(rng.integers(2, 7))
    sq = [None] + [_lib_call(obj.correlation_2d_integral, dt, k * dt,
                             shape="square", **epskw)[0]
                   for k in range(1, n)]
    steps = []
    terms_total = []
    for m in range(1, n + 1):
        steps.append(tri + sum(sq[k] for k in range(1, m)))
        terms_total += rb2.cell_terms("upper-triangle", dt, 0.0)[0]
        for k in range(1, m):
            terms_total += rb2.cell_terms("square", dt, k * dt)[0]
    total = sum(steps)
    big, _ = _lib_call(obj.correlation_2d_integral, n * dt, 0.0,
                       shape="upper-triangle", **epskw)
    terms_big = rb2.cell_terms("upper-triangle", n * dt, 0.0)[0]
    scale_t = sum(abs(c) * abs(eta_ref(t)) for c, t in terms_total)
    b_t = bnd(eps_eff * scale_t,
              EPSABS * nq * sum(abs(c) for c, _ in terms_total))
    det = {"n": n, "delta": dt, "sd": p, "epsrel": eps}
    diff_terms = terms_total + [(-c, t) for c, t in terms_big]
    J.compare("tiling", total - big, 0.0, b_t,
              f"sum of the cells of the first {n} steps minus library "
              f"triangle with delta = {n} dt",
              cl.eta_combo(total - big, 0.0, diff_terms, b_t, "tiling"),
              det, obs="tiling:lib",
              attribute=cl.attribute_eta(total - big, 0.0, diff_terms))
    J.compare("tiling", total, eta_ref(n * dt), b_t,
              f"sum of the cells of the first {n} steps vs independent "
              f"eta({n} dt)",
              cl.eta_combo(total, eta_ref(n * dt), terms_total, b_t,
                           "tiling"), det, obs="tiling:ref",
              attribute=cl.attribute_eta(total, eta_ref(n * dt), terms_total))
    if abs(eta_ref(n * dt)) >= 100 * b_t:
        J.sensitive += 1
    # a rectangle = the squares it covers
    k0 = int(rng.integers(1, 4))
    mm = int(rng.integers(2, 5))
    rect, _ = _lib_call(obj.correlation_2d_integral, dt, k0 * dt,
                        time_2=(k0 + mm) * dt, shape="rectangle", **epskw)
    ssum = sum(_lib_call(obj.correlation_2d_integral, dt, k * dt,
                         shape="square", **epskw)[0]
               for k in range(k0, k0 + mm))
    terms_r = rb2.cell_terms("rectangle", dt, k0 * dt, (k0 + mm) * dt)[0]
    for k in range(k0, k0 + mm):
        terms_r += [(-c, t) for c, t in
                    rb2.cell_terms("square", dt, k * dt)[0]]
    scale_r = sum(abs(c) * abs(eta_ref(t)) for c, t in terms_r)
    b_r = bnd(eps_eff * scale_r,
              EPSABS * nq * sum(abs(c) for c, _ in terms_r))
    J.compare("tiling", rect - ssum, 0.0, b_r,
              f"rectangle [{k0}dt,{k0 + mm}dt] minus the sum of its {mm} "
              "squares",
              cl.eta_combo(rect - ssum, 0.0, terms_r, b_r,
                           "tiling-rectangle"), det, obs="tiling:rect")

    # ---- correlation(): symmetry, reference, closed form
    b_c = bnd(eps_eff * c0, EPSABS * nq)
    taus = [0.0, 0.3 * dt, dt, 2.7 * dt, float(rng.uniform(5, 30)) / wc]
    for tau in taus:
        cp, nw1 = _lib_call(obj.correlation, tau, **epskw)
        cm, nw2 = _lib_call(obj.correlation, -tau, **epskw)
        nwarn += nw1 + nw2
        det = {"tau": tau, "sd": p, "epsrel": eps, "variant": variant}
        J.compare("symmetry", cm, np.conj(cp), b_c,
                  f"C(-tau) vs conj C(tau) at tau={tau:.4g}",
                  "hermitian-symmetry", det)
        cref = corr_ref(tau)
        J.compare("corr_vs_ref", cp, cref, b_c,
                  f"correlation({tau:.4g}) vs independent quadrature",
                  cl.correlation(cp, cref, tau, b_c, "correlation-deviation"),
                  det, attribute=cl.attribute_corr(cp, cref, tau))
        J.compare("corr_vs_ref", cm, np.conj(cref), b_c,
                  f"correlation({-tau:.4g}) vs independent quadrature",
                  cl.correlation(cm, np.conj(cref), -tau, b_c,
                                 "correlation-deviation"), det)
        if temp == 0.0 and p["cutoff_type"] == "exponential" \
                and variant != "custom-j":
            cf = rb.correlation_closed_T0_exp(p, tau)
            J.compare("closed_form_T0", cp, cf, b_c,
                      f"correlation({tau:.4g}) vs T=0 closed form",
                      cl.correlation(cp, cf, tau, b_c, "closed-form-T0"),
                      det)
            ef = rb.eta_closed_T0_exp(p, max(tau, dt))
            # the reference itself against the closed form (self-check of R1)
            if abs(eta_ref(max(tau, dt)) - ef) > 1e-8 * abs(ef) + 1e-13:
                raise rb.RefUnreliable("eta reference vs closed form")
        if twin is not None:
            J.compare("twin_identical", cp, twin.correlation(tau, **epskw),
                      C_TWIN * c0, "CustomSD(power-law j) vs PowerLawSD, "
                      "correlation()", "customsd-differs-from-powerlaw", det)
    if temp == 0.0 and p["cutoff_type"] == "exponential" \
            and variant != "custom-j":
        ef = rb.eta_closed_T0_exp(p, dt)
        b_e = bnd(eps_eff * abs(ef), EPSABS * nq)
        J.compare("closed_form_T0", tri, ef, b_e,
                  "upper-triangle vs T=0 closed form of eta",
                  cl.eta_combo(tri, ef, [(1.0, 0.0 + dt), (-1.0, 0.0)], b_e,
                               "closed-form-T0"), {"sd": p, "delta": dt})

    # ---- Matsubara
    if temp > 0.0:
        _matsubara(J, rng, obj, p, pref, epskw, eps_eff, nq, cells_cov,
                   quick, i, cl)

    J.note("integration_warnings", nwarn)
    J.count("lib_integration_warnings", nwarn)
    if not cl.subohmic_thermal:
        # worst ratio outside the regime in which the cancellation finding
        # bites (see also held_ratio_unattributed: comparisons that held and
        # are not small instances of a known finding)
        J.note("worst_ratio_outside_subohmic_thermal", J.maxratio)
    sig = (variant, p["cutoff_type"], tclass, zclass, eps is None,
           tuple(sorted(set(cell_sig))))
    return {
        "violations": J.violations, "cells": sorted(set(cells_cov)),
        "monitors": J.monitors, "nontrivial": J.sensitive >= 4,
        "signature": str(sig), "maxratio": J.maxratio, "obs": J.obs,
        **({"dump": J.dump} if J.dump is not None else {}),
        "sample": gen.nice({"kind": "sd", "sd": p, "variant": variant,
                            "T_class": tclass, "delta": dt, "epsrel": eps,
                            "cells": [(c, s, a, b) for c, s, a, b in menu],
                            "tiling_n": n, "sensitive_cells": J.sensitive,
                            "worst_ratio": J.maxratio}),
    }


def _matsubara(J, rng, obj, p, pref, epskw, eps_eff, nq, cells_cov, quick, i,
               cl):
    temp = p["temperature"]
    beta = 1.0 / temp
    w_g = rb2.guard_frequency(temp)
    guard_active = (p["cutoff_type"] != "hard") or (w_g < p["cutoff"])
    if guard_active:
        cells_cov.append("matsubara:guard-active")
    cm0 = rb2.matsubara_correlation(pref, 0.0)
    b_c = bnd(eps_eff * abs(cm0), EPSABS * nq)
    fracs = [0.0, float(rng.uniform(0.05, 0.45)), 0.5,
             float(rng.uniform(0.55, 0.95)), 1.0]
    for fr in fracs:
        tau = fr * beta
        lib, _ = _lib_call(obj.correlation, tau, matsubara=True, **epskw)
        J.count("matsubara_real")
        if np.iscomplexobj(lib) or not np.isfinite(lib):
            J.fail("matsubara_real_fail",
                   f"correlation(matsubara=True) returned {lib!r}",
                   "matsubara-not-real", {"tau": tau, "sd": p})
            continue
        ref = rb2.matsubara_correlation(pref, tau, 1e-10 * cm0)
        det = {"tau": tau, "beta": beta, "sd": p,
               "guard_frequency": w_g}

        def mech(lib=lib, ref=ref, tau=tau):
            ev = {}
            if guard_active:
                dropped = rb2.matsubara_correlation_dropped(pref, tau)
                ev["dropped_term"] = dropped
                if abs(lib + dropped - ref) <= b_c:
                    return "matsubara-guard-drops-term", ev
            return "matsubara-deviation", ev
        J.compare("matsubara_vs_ref", lib, ref, b_c,
                  f"Matsubara correlation at tau = {fr:.3g} beta vs "
                  "independent imaginary-time integral", mech, det)
    # symmetry about beta/2
    for fr in (0.0, fracs[1]):
        tau = fr * beta
        a, _ = _lib_call(obj.correlation, tau, matsubara=True, **epskw)
        b, _ = _lib_call(obj.correlation, beta - tau, matsubara=True, **epskw)

        def mech(a=a, b=b, tau=tau):
            if guard_active:
                d1 = rb2.matsubara_correlation_dropped(pref, tau)
                d2 = rb2.matsubara_correlation_dropped(pref, beta - tau)
                if abs((a + d1) - (b + d2)) <= 2 * b_c:
                    return "matsubara-guard-drops-term", {"dropped": [d1, d2]}
            return "matsubara-deviation", {}
        J.compare("matsubara_symmetry", a, b, b_c.times(2),
                  f"Matsubara C(tau) vs C(beta - tau), tau = {fr:.3g} beta",
                  mech, {"tau": tau, "beta": beta, "sd": p})
    # cells on the grid beta/N (as GibbsTempo uses them)
    nst = int(rng.integers(3, 11))
    dtm = beta / nst
    eta_m = rb2.ext(lambda t: rb2.matsubara_eta(pref, t))
    ks = sorted({0, 1, nst // 2, nst - 1})
    for k in ks:
        shape = "upper-triangle" if k == 0 else "square"
        lib, _ = _lib_call(obj.correlation_2d_integral, dtm, k * dtm,
                           shape=shape, matsubara=True, **epskw)
        J.count("matsubara_real")
        if np.iscomplexobj(lib) or not np.isfinite(lib):
            J.fail("matsubara_real_fail",
                   f"Matsubara {shape} integral returned {lib!r}",
                   "matsubara-not-real", {"k": k, "sd": p})
            continue
        lib_terms = rb2.cell_terms(shape, dtm, k * dtm)[0]
        # (k+1)*dtm may exceed beta by an ulp: clip for the reference only
        terms = [(c, min(t, beta)) for c, t in lib_terms]
        ref = sum(c * eta_m(t).real for c, t in terms)
        scale = sum(abs(c) * abs(eta_m(t)) for c, t in terms)
        ncoef = sum(abs(c) for c, _ in terms)
        bound = bnd(eps_eff * scale, EPSABS * nq * ncoef)
        det = {"k": k, "n_steps": nst, "delta": dtm, "beta": beta, "sd": p,
               "guard_frequency": w_g}
        cell_mech = [None]

        def mech(lib=lib, ref=ref, terms=terms, lib_terms=lib_terms,
                 bound=bound, cell_mech=cell_mech):
            ev = {}
            m = "matsubara-deviation"
            if guard_active:
                dropped = sum(c * rb2.matsubara_eta_dropped(pref, t)
                              for c, t in terms if t > 0)
                ev["dropped_term"] = dropped
                if abs(dropped) > bound and abs(lib + dropped - ref) <= bound:
                    m = "matsubara-guard-drops-term"
            if m == "matsubara-deviation":
                m, e2 = cl.eta_combo(lib, ref, lib_terms, bound, m,
                                     matsubara=True)()
                ev.update(e2)
            cell_mech[0] = m
            return m, ev
        if abs(ref) >= 100 * bound:
            J.sensitive += 1
        J.compare("matsubara_cells", lib, ref, bound,
                  f"Matsubara {shape} cell k={k} of {nst} vs independent "
                  "imaginary-time eta", mech, det,
                  attribute=cl.attribute_eta(lib, ref, lib_terms, True))
        # own consistency: cell = - int w(s) C_M(s) ds
        if k == ks[(i // 2) % len(ks)] and dtm * p["cutoff"] <= 6.0:
            def cmown(s):
                return obj.correlation(abs(s), matsubara=True, **epskw)
            own, nodes = _weighted_own(cmown, shape, dtm, k * dtm, None,
                                       p["cutoff"], p["zeta"], -1.0)
            b_own = bound.plus(eps_eff * abs(cm0) * dtm * dtm,
                               EPSABS * nq * dtm * dtm)

            def mech_own(own=own, ref=ref, b_own=b_own, cell_mech=cell_mech):
                ev = {"own": own.real, "own_minus_ref": abs(own.real - ref)}
                if abs(own.real - ref) <= b_own and cell_mech[0] in KNOWN_TAGS:
                    ev["inherits_from_cell_comparison"] = cell_mech[0]
                    return cell_mech[0], ev
                return "matsubara-vs-own-correlation", ev
            J.compare("matsubara_cells_vs_own", lib, own.real, b_own,
                      f"Matsubara {shape} cell k={k} vs weighted quadrature "
                      "of the own Matsubara correlation", mech_own, det)


# --- CustomCorrelations cases ---------------------------------------------------

STRADDLE = ("square:t1=0", "square:straddle", "square:t1<0", "rect:straddle")
# dblquad across a kink of C at tau = 0 (e.g. a e^{-(g+iw)|tau|}) reaches only
# ~5e-6 relative whatever epsrel is requested (scipy warns); calibrated extra
# term for that sub-class only: worst observed err/(max|C| * area) = 7.3e-6,
# frozen at 1e-4 (>= 10x headroom).  Smooth callables use the normal bound.
C_KINK = 1e-4


def _full_menu(rng, dt, i):
    """All 14 position classes (the sd menu is a rotating subset)."""
    f = float(rng.uniform(0.1, 0.9))
    f2 = float(rng.uniform(0.1, 0.9))
    k = int(rng.integers(2, 6))
    kk = int(rng.integers(1, 4))
    return {
        "tri:0": ("upper-triangle", 0.0, None),
        "square:k>=1": ("square", k * dt, None),
        "square:t1=0": ("square", 0.0, None),
        "square:straddle": ("square", f * dt, None),
        "square:offgrid": ("square", (kk + f2) * dt, None),
        "square:t1<0": ("square", -f2 * dt, None),
        "rect:ext<1": ("rectangle", kk * dt, kk * dt + f * dt),
        "rect:ext=1": ("rectangle", kk * dt, kk * dt + dt),
        "rect:ext>1": ("rectangle", kk * dt,
                       kk * dt + float(rng.uniform(1.1, 3.0)) * dt),
        "rect:ext>>1": ("rectangle", kk * dt,
                        kk * dt + float(rng.uniform(4.0, 6.0)) * dt),
        "rect:straddle": ("rectangle", f2 * dt,
                          f2 * dt + float(rng.uniform(0.3, 2.5)) * dt),
        "tri:offset": ("upper-triangle", [dt, f * dt, k * dt][i % 3], None),
    }


def run_cc(case):
    import oqupy
    rng = gen.rng_for(case["seed"], "c12cc", case["idx"])
    i = case["idx"]
    J = Judge()
    fam = "exp" if i % 2 == 0 else "modes"
    nterm = 1 + (i // 2) % 3
    if fam == "exp":
        amps = [complex(rng.uniform(0.2, 2.0), rng.uniform(-1.0, 1.0))
                for _ in range(nterm)]
        zs = [complex(rng.uniform(0.0 if i % 4 == 0 else 0.2, 3.0),
                      rng.uniform(-4.0, 4.0)) for _ in range(nterm)]
        cfun, f_pos, fp_pos = rb2.exp_family(amps, zs)
        cmax = sum(abs(a) for a in amps)
        desc = {"family": "exp", "amps": amps, "z": zs}
        rate = max(abs(z) for z in zs)
    else:
        ws = [float(rng.uniform(0.5, 5.0)) for _ in range(nterm)]
        gs = [float(rng.uniform(0.2, 1.0)) for _ in range(nterm)]
        ts = [0.0 if rng.random() < 0.4 else float(rng.uniform(0.1, 3.0) * w)
              for w in ws]
        cfun = rb.finite_mode_correlation(ws, gs, ts)
        f_pos = rb.finite_mode_eta(ws, gs, ts)
        fp_pos = rb2.finite_mode_eta_prime(ws, gs, ts)
        cmax = abs(cfun(0.0))
        desc = {"family": "modes", "w": ws, "g": gs, "T": ts}
        rate = max(ws)
    finite_memory = False
    if fam == "exp" and i % 8 == 6:
        # a finite-memory callable as the class documentation describes it:
        # the literal 0.0 beyond tau_max = 1 (where the function has decayed
        # to < 1e-10 of C(0): the truncation itself is immaterial)
        finite_memory = True
        amps = [complex(rng.uniform(0.2, 2.0), rng.uniform(-1.0, 1.0))]
        zs = [complex(rng.uniform(25.0, 40.0), rng.uniform(-40.0, 40.0))]
        base, f_pos, fp_pos = rb2.exp_family(amps, zs)
        cmax = abs(amps[0])
        desc = {"family": "exp-finite-memory", "amps": amps, "z": zs}
        rate = abs(zs[0])

        def cfun(t, base=base):
            if abs(t) >= 1.0:
                return 0.0
            return base(t)
    f_ext = rb2.ext(f_pos)
    eps = [None, 1e-6, 1e-9][(i // 2 + i // 6) % 3]
    epskw = {} if eps is None else {"epsrel": eps}
    dt = float(10 ** rng.uniform(-1.3, 0.2)) / max(rate, 0.5) * 2.0
    obj = oqupy.CustomCorrelations(cfun)
    cells_cov = ["cc:" + fam, "eps:default" if eps is None else "eps:explicit"]
    if finite_memory:
        cells_cov.append("cc:finite-memory-literal-zero")
    menu = _full_menu(rng, dt, i)
    names = list(menu)
    smooth_names = [n for n in names if n not in STRADDLE]
    # dblquad is slow: tri:0 + 4 rotating cells.  Smooth family: any class.
    # Kinked family: non-straddling classes, plus ONE straddling cell in every
    # fourth case at default / 1e-6 epsrel (10-25 s each).
    if fam == "modes":
        sel = ["tri:0"] + [names[(1 + (i // 2) * 3 + j * 5) % len(names)]
                           for j in range(4)]
        if (i // 2) % 2 == 0:
            sel.append(STRADDLE[(i // 4) % len(STRADDLE)])
    else:
        sel = ["tri:0"] + [smooth_names[(1 + (i // 2) * 3 + j * 3)
                                        % len(smooth_names)]
                           for j in range(4)]
        if i % 8 == 0:
            sel.append(STRADDLE[(i // 8) % len(STRADDLE)])
    if (i // 2) % 3 == 0 and "tri:offset" not in sel:
        sel.append("tri:offset")
    sel = list(dict.fromkeys(sel))
    cell_sig = []
    for cls in sel:
        shape, t1, t2 = menu[cls]
        kink = (fam == "exp" and cls in STRADDLE)
        # across the kink a request of 1e-9 only costs minutes
        eps_c = None if (kink and eps == 1e-9) else eps
        eps_eff = DEFAULT_EPSREL if eps_c is None else eps_c
        kw = {} if eps_c is None else {"epsrel": eps_c}
        if t2 is not None:
            kw["time_2"] = t2
        lib, nw = _lib_call(obj.correlation_2d_integral, dt, t1, shape=shape,
                            **kw)
        terms, prime = rb2.cell_terms(shape, dt, t1, t2)
        ref = sum(c * f_ext(t) for c, t in terms)
        if shape == "upper-triangle" and t1 != 0.0:
            ref = ref + prime[0] * fp_pos(prime[1])
            cells_cov.append("cc:tri:offset")
        length = (t2 - t1) if t2 is not None else dt
        area = dt * length * (0.5 if shape == "upper-triangle" else 1.0)
        # direct 2-D quadrature: requested tolerance eps*|I| + epsabs for the
        # outer and epsabs per unit length for the inner integral, re and im
        bound = bnd(eps_eff * cmax * area, EPSABS * 2.0 * (1.0 + length))
        if kink:
            bound = Bound(bound + C_KINK * cmax * area)
            cells_cov.append("cc:kink-straddle")
        det = {"shape": shape, "delta": dt, "time_1": t1, "time_2": t2,
               "epsrel": eps_c, "correlations": desc,
               "integration_warnings": nw}
        if cls in STRADDLE:
            cells_cov.append("cc:straddle")
        cells_cov += ["cc:shape:" + shape, "cc:pos:" + cls]
        cell_sig.append(cls)
        if abs(ref) >= 100 * bound:
            J.sensitive += 1
        mech = ("triangle" if shape == "upper-triangle" else shape) \
            + "-deviation-customcorrelations"
        J.compare("cc_cells_vs_analytic", lib, ref, bound,
                  f"CustomCorrelations {shape} cell ({cls}) vs analytic "
                  "double integral", mech, det,
                  obs="cc_cells:kink-straddle" if kink else "cc_cells")
        if kink:
            J.note("kink_relerr", abs(lib - ref) / (cmax * area))
        wq = rb.cell_by_weight(cfun, shape, dt, t1, t2)
        # the two references against each other (self-test)
        if abs(wq - ref) > 1e-9 * cmax * area + 1e-13:
            raise rb.RefUnreliable(
                f"analytic cell vs weighted quadrature differ: {wq} {ref}")
        J.count("cc_reference_selftests")
    if fam == "modes":
        tri, _ = _lib_call(obj.correlation_2d_integral, dt, 0.0,
                           shape="upper-triangle", **epskw)
        J.count("triangle_positive")
        if not tri.real > 0:
            J.fail("triangle_positive_fail",
                   f"Re upper-triangle = {tri.real:.3e} is not positive",
                   "triangle-not-positive", {"correlations": desc})
    # correlation() passes the callable through
    for tau in (0.0, 0.4 * dt, -0.4 * dt):
        J.compare("cc_correlation", complex(obj.correlation(tau)),
                  complex(cfun(tau)), 1e-14 * cmax,
                  "CustomCorrelations.correlation", "cc-correlation",
                  {"tau": tau})
    sig = ("cc", fam, nterm, eps is None, tuple(sorted(set(cell_sig))))
    return {
        "violations": J.violations, "cells": sorted(set(cells_cov)),
        "monitors": J.monitors, "nontrivial": J.sensitive >= 3,
        "signature": str(sig), "maxratio": J.maxratio, "obs": J.obs,
        **({"dump": J.dump} if J.dump is not None else {}),
        "sample": gen.nice({"kind": "cc", "correlations": str(desc),
                            "delta": dt, "epsrel": eps,
                            "cells": [(c,) + tuple(menu[c]) for c in sel],
                            "worst_ratio": J.maxratio}),
    }


def run_scale(case):
    """Unit covariance (metamorphic): measuring frequencies in units
    s times smaller (cutoff*s, T*s) and times in units s times larger
    (dt/s, t/s) leaves every 2D integral unchanged (eta is dimensionless) and
    multiplies C(tau) by s^2. Also with many cells requested from ONE object
    (values must not depend on which cells were asked before). Extreme scales
    (SI-like: cutoff 1e12, times 1e-13) only with a hard cutoff and with
    CustomCorrelations - the infinite-range tail of the other cutoffs is the
    documented finding inf-tail-quad-glitch."""
    import oqupy
    i = case["idx"]
    rng = gen.rng_for(case["seed"], "c12scale", i)
    extreme = bool(i % 2)
    s_fac = float([1e12, 1e-9, 3.3e6][(i // 2) % 3]) if extreme else \
        float([1e3, 1e-3, 37.0][(i // 2) % 3])
    use_cc = bool(i % 4 == 3)
    alpha = float(rng.uniform(0.05, 1.0))
    zeta = float(rng.choice([1.0, 1.5, 3.0]))
    wc = float(rng.uniform(1.0, 5.0))
    temp = [0.0, float(rng.uniform(0.2, 2.0)) * wc][i % 2 if not use_cc else 0]
    ctype = "hard" if extreme else ["hard", "exponential", "gaussian"][i % 3]
    dt = float(rng.uniform(0.05, 0.3)) / wc * 3
    violations, monitors = [], {"scale_cells_compared": 0}

    def make(sf):
        if use_cc:
            g, w = 0.7 * wc * sf, 1.3 * wc * sf
            amp = alpha * (wc * sf) ** 2
            return oqupy.CustomCorrelations(
                lambda t, g=g, w=w, amp=amp: amp * np.exp(-(g + 1j * w) * t))
        return oqupy.PowerLawSD(alpha, zeta, wc * sf, ctype, temp * sf)
    base, scaled = make(1.0), make(s_fac)
    cells = [("upper-triangle", 0.0, None)]
    for k in (1, 2, 3, 5):
        cells.append(("square", k * dt, None))
    cells.append(("rectangle", 2 * dt, 2 * dt + 1.6 * dt))
    cells.append(("rectangle", 3 * dt, 3 * dt + 0.4 * dt))
    worst = 0.0
    # ask the scaled object twice in different orders (cache keys!)
    for order in (cells, list(reversed(cells))):
        for (shape, t1, t2) in order:
            kw = dict(shape=shape)
            a = base.correlation_2d_integral(
                dt, t1, **(dict(kw, time_2=t2) if t2 is not None else kw))
            b = scaled.correlation_2d_integral(
                dt / s_fac, t1 / s_fac,
                **(dict(kw, time_2=t2 / s_fac) if t2 is not None else kw))
            monitors["scale_cells_compared"] += 1
            tolv = 1e-5 * max(abs(a), 1e-3 * alpha)
            dev = abs(a - b)
            worst = max(worst, dev / tolv)
            if dev > tolv:
                violations.append({
                    "what": f"unit scaling by s={s_fac:g}: {shape} cell at "
                            f"t1={t1:.4g} (dt={dt:.4g}) is {b:.8g} in the "
                            f"scaled units but {a:.8g} in the original "
                            f"units ({'CustomCorrelations' if use_cc else ctype})",
                    "mechanism": "unit-scaling", "detail": {
                        "s": s_fac, "shape": shape, "t1": t1}})
                break
        if violations:
            break
    # C(tau) itself carries units: for s < 1 its magnitude (~ s^2) drops
    # below scipy's default epsabs that the library requests for the
    # [cutoff, inf) piece, whose error estimate is then not a bound (same
    # root as inf-tail-quad-glitch) - compared only where the requested
    # absolute tolerance is negligible or the range is finite
    if not use_cc and not violations and (s_fac >= 1.0 or ctype == "hard"):
        monitors["scale_corr_compared"] = 2
        for tau in (0.3 / wc, 1.7 / wc):
            a = base.correlation(tau) * s_fac ** 2
            b = scaled.correlation(tau / s_fac)
            # scipy's default epsabs (1.49e-8 per quad call, absolute in
            # the scaled units) is part of what the library requests
            if abs(a - b) > 1e-5 * abs(a) + 1e-9 * alpha * (wc * s_fac) ** 2 \
                    + 8 * 1.49e-8:
                violations.append({
                    "what": f"unit scaling by s={s_fac:g}: C(tau) does not "
                            f"scale as s^2 ({b:.8g} vs {a:.8g})",
                    "mechanism": "unit-scaling", "detail": {"s": s_fac}})
    cells_cov = ["scale:" + ("extreme" if extreme else "moderate"),
                 "scale:" + ("cc" if use_cc else ctype)]
    return {"violations": violations[:3], "cells": cells_cov,
            "monitors": monitors, "nontrivial": True,
            "signature": f"scale-{s_fac:g}-{use_cc}-{ctype}-{temp > 0}",
            "maxratio": worst, "obs": {},
            "sample": gen.nice({"kind": "scale", "s": s_fac, "alpha": alpha,
                                "zeta": zeta, "cutoff": wc, "T": temp,
                                "cutoff_type": ctype,
                                "custom_correlations": use_cc,
                                "worst_ratio": worst})}


def run_reassign(case):
    """The 2D integrals of an object must agree with its OWN correlation
    function also after its public parameters were re-assigned: cells are
    evaluated, a parameter is changed on the same object, and the cells must
    then equal those of a freshly built object with the new parameters (which
    the other case kinds tie to the correlation function)."""
    import oqupy
    i = case["idx"]
    rng = gen.rng_for(case["seed"], "c12re", i)
    attr = ["alpha", "zeta", "cutoff", "temperature", "cutoff_type"][i % 5]
    p = dict(alpha=float(rng.uniform(0.05, 1.0)),
             zeta=float(rng.choice([1.0, 1.5, 3.0])),
             cutoff=float(rng.uniform(1.0, 5.0)),
             cutoff_type=["hard", "exponential", "gaussian"][i % 3],
             temperature=[0.0, float(rng.uniform(0.5, 3.0))][i % 2])
    dt = float(rng.uniform(0.05, 0.2))
    obj = oqupy.PowerLawSD(**p)

    def observe(c):
        vals = [c.correlation_2d_integral(dt, 0.0, shape="upper-triangle")]
        vals += [c.correlation_2d_integral(dt, k * dt, shape="square")
                 for k in (1, 2, 4)]
        vals.append(c.correlation_2d_integral(dt, 2 * dt, 2 * dt + 1.5 * dt,
                                              shape="rectangle"))
        vals.append(c.correlation(0.7 * dt))
        return np.array(vals, dtype=complex)
    before = observe(obj)
    # copies made before the change (as oqupy.Bath makes them) keep answering
    # for THEIR parameters, whatever happens to the original afterwards
    import copy as _copy
    how = ["copy.copy", "Bath.correlations", "copy.deepcopy"][(i // 5) % 3]
    if how == "Bath.correlations":
        cp = oqupy.Bath(np.diag([0.5, -0.5]).astype(complex), obj).correlations
    elif how == "copy.copy":
        cp = _copy.copy(obj)
    else:
        cp = _copy.deepcopy(obj)
    p2 = dict(p)
    if attr == "alpha":
        p2["alpha"] = p["alpha"] * 1.9
    elif attr == "zeta":
        p2["zeta"] = p["zeta"] + 0.5
    elif attr == "cutoff":
        p2["cutoff"] = p["cutoff"] * 1.6
    elif attr == "temperature":
        p2["temperature"] = p["temperature"] * 2 + 0.7
    else:
        p2["cutoff_type"] = {"hard": "gaussian", "gaussian": "exponential",
                             "exponential": "hard"}[p["cutoff_type"]]
    setattr(obj, attr, p2[attr])
    after = observe(obj)
    fresh = observe(oqupy.PowerLawSD(**p2))
    scale = float(np.abs(fresh).max())
    dev = float(np.abs(after - fresh).max()) / scale
    changed = float(np.abs(fresh - before).max()) / scale
    violations = []
    if dev > 1e-9:
        k = int(np.argmax(np.abs(after - fresh)))
        violations.append({
            "what": f"after re-assigning {attr} the object's 2D integrals / "
                    f"correlation no longer agree with each other: entry {k} "
                    f"is {after[k]:.6g}, a fresh object with the same "
                    f"parameters gives {fresh[k]:.6g} (before the change "
                    f"{before[k]:.6g})",
            "mechanism": "stale-after-reassign", "detail": {"attr": attr}})
    # real-time and imaginary-time (Matsubara) integrals of ONE object at the
    # same argument, asked in both orders
    pm = dict(p3 if False else p, temperature=max(p["temperature"], 0.8))
    o_mr, o_rm = oqupy.PowerLawSD(**pm), oqupy.PowerLawSD(**pm)
    xs = [dt, 2 * dt]
    mr = [(o_mr.eta_function(x, matsubara=True), o_mr.eta_function(x))
          for x in xs]
    rm = [(o_rm.eta_function(x), o_rm.eta_function(x, matsubara=True))
          for x in xs]
    for (m_a, r_a), (r_b, m_b), x in zip(mr, rm, xs):
        if abs(m_a - m_b) > 1e-12 * max(1.0, abs(m_b)) or \
                abs(r_a - r_b) > 1e-12 * max(1.0, abs(r_b)) or \
                abs(np.imag(m_a)) > 0:
            violations.append({
                "what": f"eta_function({x:.4g}) asked in real time and in "
                        f"imaginary time on one object depends on the order "
                        f"of the two questions: Matsubara first gives "
                        f"({m_a:.6g}, {r_a:.6g}), real time first "
                        f"({m_b:.6g}, {r_b:.6g})",
                "mechanism": "stale-after-reassign", "detail": {}})
            break
    cp_vals = observe(cp)
    dev_cp = float(np.abs(cp_vals - before).max()) / float(
        np.abs(before).max())
    if dev_cp > 1e-9:
        k = int(np.argmax(np.abs(cp_vals - before)))
        violations.append({
            "what": f"a copy ({how}) made before {attr} of the original was "
                    f"re-assigned no longer answers for its own parameters: "
                    f"entry {k} is {cp_vals[k]:.6g}, was {before[k]:.6g}",
            "mechanism": "copy-follows-original", "detail": {"attr": attr}})
    # and a parameter re-assigned on the copy
    attr2 = ["cutoff", "alpha", "temperature", "alpha", "cutoff"][i % 5]
    p3 = dict(p)
    p3[attr2] = {"cutoff": p["cutoff"] * 0.7, "alpha": p["alpha"] * 0.4,
                 "temperature": p["temperature"] + 0.9}[attr2]
    setattr(cp, attr2, p3[attr2])
    cp_new = observe(cp)
    fresh3 = observe(oqupy.PowerLawSD(**p3))
    dev3 = float(np.abs(cp_new - fresh3).max()) / float(np.abs(fresh3).max())
    if dev3 > 1e-9:
        k = int(np.argmax(np.abs(cp_new - fresh3)))
        violations.append({
            "what": f"a copy ({how}) whose {attr2} was re-assigned does not "
                    f"answer like a fresh object with its parameters: entry "
                    f"{k} is {cp_new[k]:.6g}, fresh {fresh3[k]:.6g}",
            "mechanism": "stale-after-reassign",
            "detail": {"attr": attr2, "copy": how}})
    still = observe(obj)
    if float(np.abs(still - fresh).max()) / scale > 1e-9:
        violations.append({
            "what": f"re-assigning {attr2} on a copy ({how}) changed what the "
                    f"original answers", "mechanism": "copy-follows-original",
            "detail": {}})
    dev = max(dev, dev_cp, dev3)
    return {"violations": violations, "cells": ["reassign:" + attr,
                                                "reassign-copy:" + how],
            "monitors": {"reassign_values_compared": int(len(after)) * 4},
            "nontrivial": changed > 1e-3,
            "signature": f"reassign-{attr}-{i % 6}", "maxratio": dev / 1e-9,
            "obs": {}, "sample": gen.nice({"kind": "reassign", "attr": attr,
                                           "sd": p, "new": p2[attr],
                                           "rel_dev": dev})}


def run_case(case):
    if case["kind"] == "sd":
        return run_sd(case)
    if case["kind"] == "scale":
        return run_scale(case)
    if case["kind"] == "reassign":
        return run_reassign(case)
    return run_cc(case)
