"""C12 - bath correlation functions and their 2D integrals.

Reference-model monitors (R1, vp/ref/bath.py + bath2.py) and differential
monitors on the real CustomSD / PowerLawSD / CustomCorrelations objects:

* every cell shape (upper-triangle, square, rectangle; on-grid, off-grid,
  touching / straddling the diagonal 0 <= time_1 < delta, time_1 < 0, short /
  long rectangles) against (a) the 1-D weighted quadrature
  int w(s) C(s) ds of the object's OWN correlation() and (b) second
  differences of the independent eta (plus -dt*eta'(t1) for offset triangles);
* tiling: the cells of the first n steps sum to the triangle over [0, n dt]
  (library triangle with delta = n dt, and independent eta(n dt)); a rectangle
  equals the sum of the squares it covers;
* correlation(): Hermitian symmetry C(-tau) = C(tau)^*, independent
  quadrature, T = 0 closed form (power law, exponential cutoff);
  Re triangle > 0; spectral_density() against the re-implemented J;
* CustomSD with the power-law j == PowerLawSD (same values);
* Matsubara: correlation(matsubara=True) and the Matsubara cells are real,
  symmetric about beta/2, and equal the independent imaginary-time integrals
  and (minus) the weighted quadrature of the own Matsubara correlation;
* CustomCorrelations (dblquad) against analytic cell integrals of sums of
  damped exponentials and of finite-mode cos/sin correlations.
"""
import math
import os
import warnings

import numpy as np

from vp import gen
from vp.ref import bath as rb
from vp.ref import bath2 as rb2

ID = "C12"
LEVEL = "exploration"
BATCH = 4
CASE_TIMEOUT = 200

# --- tolerance policy (DESIGN 2.1) -------------------------------------------
# The library calls scipy.integrate.quad(epsrel=eps) without epsabs, i.e. it
# *requests* max(epsabs_default, eps*|I|) per quadrature.  A cell is a linear
# combination sum_i c_i eta(t_i); its requested tolerance is therefore
#   eps * sum_i |c_i| |eta(t_i)|   +   EPSABS * nquad * sum_i |c_i|
# and the bound is a frozen multiple of that (calibrated, see RESULTS in the
# final report of the build round; >= 10x headroom over 4 seeds).
EPSABS = 1.49e-8            # scipy's default absolute tolerance
DEFAULT_EPSREL = 2.0 ** -26  # oqupy.config.INTEGRATE_EPSREL
C_REL = 100.0
C_ABS = 1.0
C_TWIN = 1e-12              # CustomSD(power law) vs PowerLawSD, relative
KNOWN_TAGS = ("triangle-offset-time1",)

RULE = ("seeded random spectral densities: alpha in (0,4], zeta in [0.1,4], "
        "cutoff 0.3..20, three cutoff types, eight temperature classes (0, "
        "below/at/above the overflow-guard crossover w/T=36 at the cutoff, "
        "T<<wc, T~wc, T>>wc), dt*wc in [0.03,3], quadrature epsrel default / "
        "1e-6 / 1e-9, PowerLawSD / CustomSD(power law) / CustomSD(other j); "
        "per case 8-10 cells drawn from 14 position classes, a tiling of n "
        "steps, correlation() at 5 time differences of both signs, Matsubara "
        "values/cells at 6 imaginary times in [0,beta]; plus "
        "CustomCorrelations cases (1-3 damped exponentials, 1-3 finite "
        "modes). A case is non-trivial iff at least 4 of its judged cells "
        "have |reference| >= 100*bound (a 1 % error would be seen) - "
        "measured; distinct = distinct (variant, cutoff, T class, zeta class, "
        "epsrel class, cell classes) signature")
ASSUMPTIONS = [
    "reference integrals by scipy.quad at epsrel 1e-12 with a w = wc x^m "
    "substitution on [0,wc]; self-test (two substitutions must agree, error "
    "estimate <= 1e-9 relative) else the case is skipped, never judged",
    "requested tolerance of the library = max(scipy default epsabs 1.49e-8, "
    "epsrel*|integral|) per quad call; bound = 100*epsrel*sum|eta terms| + "
    "epsabs*(number of quad calls)",
    "custom j-functions are finite for w -> infinity and behave like "
    "w^zeta at 0; custom correlation callables are C(-t) = C(t)^*",
    "Matsubara times restricted to [0, beta]",
]

T_CLASSES = ("zero", "cross", "low", "mid", "high", "zero", "cross-below",
             "cross-above")
VARIANTS = ("powerlaw", "powerlaw", "custom-powerlaw", "custom-j")


def required_cells(tier):
    req = {
        "shape:upper-triangle": 10, "shape:square": 10, "shape:rectangle": 10,
        "pos:square:k>=1": 5, "pos:square:t1=0": 2, "pos:square:straddle": 2,
        "pos:square:offgrid": 2, "pos:square:t1<0": 2,
        "pos:rect:ext<1": 2, "pos:rect:ext=1": 2, "pos:rect:ext>1": 2,
        "pos:rect:ext>>1": 2, "pos:rect:straddle": 2, "pos:rect:tempo": 2,
        "pos:tri:offset": 2,
        "cutoff:hard": 5, "cutoff:exponential": 5, "cutoff:gaussian": 5,
        "variant:powerlaw": 5, "variant:custom-powerlaw": 3,
        "variant:custom-j": 3,
        "zeta<1": 3, "zeta=1": 2, "zeta>1": 3, "zeta<1&T>0": 2,
        "eps:default": 3, "eps:explicit": 3,
        "cells_vs_eta": 100, "cells_vs_own": 30, "tiling": 10,
        "symmetry": 20, "corr_vs_ref": 20, "closed_form_T0": 3,
        "twin_identical": 10, "triangle_positive": 10,
        "matsubara_real": 20, "matsubara_vs_ref": 20, "matsubara_cells": 10,
        "matsubara_symmetry": 5, "matsubara:guard-active": 3,
        "cc_cells_vs_analytic": 20, "cc:exp": 2, "cc:modes": 2,
        "cc:tri:offset": 2, "cc:straddle": 2,
    }
    for tc in set(T_CLASSES):
        req["T:" + tc] = 2
    return req


def cases(tier, seed):
    n_sd, n_cc = (144, 24) if tier == "quick" else (1500, 200)
    out = [{"kind": "sd", "seed": seed, "idx": i, "tier": tier}
           for i in range(n_sd)]
    out += [{"kind": "cc", "seed": seed, "idx": i, "tier": tier}
            for i in range(n_cc)]
    return out


class Bound(float):
    """bound = C_REL*rel + C_ABS*ab, remembering the two requested-tolerance
    parts (relative part eps*scale, absolute part epsabs*nquad)."""
    rel = 0.0
    ab = 0.0

    def plus(self, rel, ab):
        return bnd(self.rel + rel, self.ab + ab)

    def times(self, k):
        return bnd(self.rel * k, self.ab * k)


def bnd(rel, ab):
    b = Bound(C_REL * rel + C_ABS * ab)
    b.rel, b.ab = rel, ab
    return b


# --- helpers -------------------------------------------------------------------

class Judge:
    """Collects comparisons: violations, monitor counts, worst ratio."""

    def __init__(self):
        self.violations = []
        self.monitors = {}
        self.maxratio = 0.0
        self.obs = {}
        self.sensitive = 0
        self.dump = [] if os.environ.get("C12_DUMP") else None

    def count(self, name, n=1):
        self.monitors[name] = self.monitors.get(name, 0) + n

    def note(self, key, val):
        val = float(val)
        if val == val:
            self.obs[key] = max(self.obs.get(key, val), val)

    def compare(self, monitor, lib, ref, bound, what, mechanism, detail=None,
                obs=None):
        """|lib-ref| <= bound ?  Returns True if it held."""
        self.count(monitor)
        err = abs(complex(lib) - complex(ref))
        if self.dump is not None:
            self.dump.append((obs or monitor, err, getattr(bound, "rel", None),
                              getattr(bound, "ab", None), abs(complex(ref))))
        ratio = err / bound if bound > 0 else (0.0 if err == 0 else math.inf)
        if not ratio == ratio:
            ratio = math.inf
        self.note("ratio:" + (obs or monitor), ratio)
        if ratio <= 1.0 or mechanism not in KNOWN_TAGS:
            # comparisons carrying a known-finding tag are reported under
            # their own obs key and do not enter the worst ratio
            self.maxratio = max(self.maxratio, ratio)
        if ratio <= 1.0:
            return True
        d = {"lib": complex(lib), "ref": complex(ref), "err": err,
             "bound": bound}
        d.update(detail or {})
        self.violations.append({
            "what": f"{what}: |lib-ref| = {err:.3e} > bound {bound:.3e}",
            "mechanism": mechanism, "detail": d})
        return False

    def fail(self, monitor, what, mechanism, detail=None):
        self.count(monitor)
        self.maxratio = math.inf
        self.violations.append({"what": what, "mechanism": mechanism,
                                "detail": detail or {}})


def _nquad(p):
    """quad calls behind one eta_function / correlation value."""
    return 2 if p["cutoff_type"] == "hard" else 4


def _custom_j(p):
    a, z, wc = p["alpha"], p["zeta"], p["cutoff"]
    return lambda w: 2.0 * a * w ** z * wc ** (1 - z) \
        * (1.0 + 0.5 * w / (w + wc))


def _gen_sd(case):
    rng = gen.rng_for(case["seed"], "c12sd", case["idx"])
    i = case["idx"]
    ctype = gen.CUTOFFS[i % 3]
    tclass = T_CLASSES[(i // 3) % 8]
    variant = VARIANTS[(i // 2) % 4] if (i // 24) % 2 == 0 \
        else VARIANTS[(i + i // 24) % 4]
    wc = float(10 ** rng.uniform(-0.5, 1.3))
    alpha = 4.0 if rng.random() < 0.1 else float(10 ** rng.uniform(-1.7, 0.6))
    zeta = float(rng.choice([0.1, 0.25, 0.5, 0.75, 1.0, 1.0, 1.5, 2.0, 3.0,
                             4.0, rng.uniform(0.1, 4.0),
                             rng.uniform(0.1, 1.0)]))
    if tclass == "zero":
        temp = 0.0
    elif tclass == "cross":
        temp = wc / 36.04 * float(rng.uniform(0.9, 1.1))
    elif tclass == "cross-below":
        temp = wc / 36.04 * float(rng.uniform(0.3, 0.9))
    elif tclass == "cross-above":
        temp = wc / 36.04 * float(rng.uniform(1.1, 3.0))
    elif tclass == "low":
        temp = wc * float(10 ** rng.uniform(-2.5, -1.7))
    elif tclass == "mid":
        temp = wc * float(10 ** rng.uniform(-1.0, 0.5))
    else:
        temp = wc * float(10 ** rng.uniform(1.0, 2.5))
    dt = float(10 ** rng.uniform(-1.5, 0.5)) / wc
    eps = [None, 1e-6, None, 1e-9][int(rng.integers(0, 4))]
    p = dict(alpha=alpha, zeta=zeta, cutoff=wc, cutoff_type=ctype,
             temperature=float(temp))
    return rng, p, variant, tclass, dt, eps


def _make_obj(p, variant):
    import oqupy
    if variant == "powerlaw":
        return gen.make_power_law(p)
    if variant == "custom-powerlaw":
        return gen.make_custom_sd(p)
    return oqupy.CustomSD(_custom_j(p), cutoff=p["cutoff"],
                          cutoff_type=p["cutoff_type"],
                          temperature=p["temperature"])


def _cell_menu(rng, dt, i, quick):
    """(class, shape, t1, t2) - every case gets the TEMPO cells plus a
    rotating selection of the other position classes."""
    f = float(rng.uniform(0.1, 0.9))
    f2 = float(rng.uniform(0.1, 0.9))
    k = int(rng.integers(2, 9))
    kk = int(rng.integers(1, 6))
    tau_add = float(rng.uniform(0.1, 2.5)) * dt
    m = int(rng.integers(1, 5))
    menu = [
        ("tri:0", "upper-triangle", 0.0, None),
        ("square:k>=1", "square", dt, None),
        ("square:k>=1", "square", k * dt, None),
        ("square:t1=0", "square", 0.0, None),
        ("square:straddle", "square", f * dt, None),
        ("square:offgrid", "square", (kk + f2) * dt, None),
        ("square:t1<0", "square", -f2 * dt, None),
        ("rect:ext<1", "rectangle", kk * dt, kk * dt + f * dt),
        ("rect:ext=1", "rectangle", kk * dt, kk * dt + dt),
        ("rect:ext>1", "rectangle", kk * dt,
         kk * dt + float(rng.uniform(1.1, 3.0)) * dt),
        ("rect:ext>>1", "rectangle", kk * dt,
         kk * dt + float(rng.uniform(5.0, 20.0)) * dt),
        ("rect:straddle", "rectangle", f2 * dt,
         f2 * dt + float(rng.uniform(0.3, 2.5)) * dt),
        ("rect:tempo", "rectangle", kk * dt,
         kk * dt + min(m * dt, dt + tau_add)),
        ("tri:offset", "upper-triangle", [dt, f * dt, k * dt][i % 3], None),
    ]
    fixed = menu[:3]
    rest = menu[3:]
    nrest = 6 if quick else 8
    start = (i * 5) % len(rest)
    chosen = [rest[(start + j) % len(rest)] for j in range(nrest)]
    return fixed + chosen


def _lib_call(fn, *a, **kw):
    """Call into the library, recording scipy IntegrationWarnings."""
    with warnings.catch_warnings(record=True) as rec:
        warnings.simplefilter("always")
        val = fn(*a, **kw)
    return val, len(rec)


_GL = {}


def _gl(n):
    if n not in _GL:
        _GL[n] = np.polynomial.legendre.leggauss(n)
    return _GL[n]


def _panels(shape, dt, t1, t2, wc):
    """Integration range of s = t' - t'' split at the kinks of the overlap
    weight and into panels of length <= 1/wc, with the weight function."""
    if shape == "upper-triangle":
        lo, hi = t1, t1 + dt
        brk = []

        def w(s):
            return t1 + dt - s
    else:
        if t2 is None:
            t2 = t1 + dt
        lo, hi = t1 - dt, t2
        brk = [x for x in sorted({t1, t2 - dt}) if lo < x < hi]

        def w(s):
            return max(0.0, min(t2, s + dt) - max(t1, s))
    edges = [lo] + brk + [hi]
    out = []
    for a, b in zip(edges[:-1], edges[1:]):
        m = max(1, int(math.ceil((b - a) * wc)))
        h = (b - a) / m
        for j in range(m):
            out.append((a + j * h, a + (j + 1) * h))
    return out, w


def _gl_order(h, wc):
    x = h * wc
    return 6 if x <= 0.25 else (8 if x <= 0.5 else 12)


def _weighted_gl(c, shape, dt, t1, t2, wc, extra=0):
    """int w(s) c(s) ds by Gauss-Legendre panels (deterministic cost: the
    library correlation carries quadrature noise ~epsrel, an adaptive rule
    with a tighter tolerance would subdivide for ever)."""
    panels, w = _panels(shape, dt, t1, t2, wc)
    tot = 0j
    nev = 0
    for a, b in panels:
        x, wt = _gl(_gl_order(b - a, wc) + extra)
        for xi, wi in zip(x, wt):
            s = 0.5 * (a + b) + 0.5 * (b - a) * xi
            tot += 0.5 * (b - a) * wi * w(s) * complex(c(s))
            nev += 1
    return tot, nev


def _weighted_own(corr, shape, dt, t1, t2, wc, zeta, sign=1.0):
    """1-D weighted quadrature of the object's own correlation callable.
    The panel rule is self-tested on a model function with the same analytic
    structure (branch point at distance 1/wc from the real axis, band width
    wc): orders n and n+4 must agree to 1e-9 (relative to the cell area; the
    bound of the comparison is >= 1e-7 * C(0) * area)."""
    def model(s):
        return (1.0 + 1j * wc * s + 0j) ** (-(zeta + 1.0)) \
            + 0.5 * np.exp(-1j * wc * s)
    m1, _ = _weighted_gl(model, shape, dt, t1, t2, wc)
    m2, _ = _weighted_gl(model, shape, dt, t1, t2, wc, extra=4)
    area = dt * ((t2 - t1) if t2 is not None else dt)
    if abs(m1 - m2) > 1e-9 * area:
        raise rb.RefUnreliable("panel rule not converged on the model "
                               f"function: {abs(m1 - m2):.2e}")
    val, nev = _weighted_gl(corr, shape, dt, t1, t2, wc)
    return sign * val, nev


# --- spectral-density cases ------------------------------------------------------

def run_sd(case):
    rng, p, variant, tclass, dt, eps = _gen_sd(case)
    i = case["idx"]
    quick = case["tier"] == "quick"
    J = Judge()
    wc, temp = p["cutoff"], p["temperature"]
    pref = dict(p)
    if variant == "custom-j":
        pref["j"] = _custom_j(p)
    obj = _make_obj(p, variant)
    twin = gen.make_power_law(p) if variant == "custom-powerlaw" else None
    epskw = {} if eps is None else {"epsrel": eps}
    eps_eff = DEFAULT_EPSREL if eps is None else eps
    nq = _nquad(p)
    nwarn = 0

    eta_ref = rb2.ext(lambda t: rb2.eta(pref, t))
    c0 = rb2.correlation(pref, 0.0).real      # >= |C(tau)| for all tau
    # the two implementations of R1 against each other (R1 of vp.ref.bath is
    # the one C01 relies on)
    try:
        e1 = rb.eta(pref, dt)
        J.count("ref_crosscheck")
        if abs(e1 - eta_ref(dt)) > 1e-8 * abs(e1):
            raise rb.RefUnreliable(
                f"vp.ref.bath.eta and vp.ref.bath2.eta differ: {e1} "
                f"{eta_ref(dt)}")
    except rb.RefUnreliable as exc:
        if "differ" in str(exc):
            raise
    cells_cov = ["cutoff:" + p["cutoff_type"], "T:" + tclass,
                 "variant:" + variant,
                 "eps:default" if eps is None else "eps:explicit"]
    zclass = "zeta<1" if p["zeta"] < 1 else ("zeta=1" if p["zeta"] == 1
                                             else "zeta>1")
    cells_cov.append(zclass)
    if p["zeta"] < 1 and temp > 0:
        cells_cov.append("zeta<1&T>0")

    # ---- spectral density itself
    jref = rb.spectral_density(pref)
    for w in (0.37 * wc, wc * 0.999, 2.3 * wc):
        lib = float(obj.spectral_density(w))
        J.compare("spectral_density", lib, jref(w),
                  1e-13 * abs(jref(w)) + 1e-300,
                  f"spectral_density({w:.4g})", "spectral-density")

    # ---- cells
    menu = _cell_menu(rng, dt, i, quick)
    own_budget = 3 if quick else 4
    own_classes = set()
    cell_sig = []
    for n, (cls, shape, t1, t2) in enumerate(menu):
        kw = dict(epskw)
        if t2 is not None:
            kw["time_2"] = t2
        lib, nw = _lib_call(obj.correlation_2d_integral, dt, t1, shape=shape,
                            **kw)
        nwarn += nw
        terms, prime = rb2.cell_terms(shape, dt, t1, t2)
        trap = sum(c * eta_ref(t) for c, t in terms)
        ref = trap
        scale = sum(abs(c) * abs(eta_ref(t)) for c, t in terms)
        ncoef = sum(abs(c) for c, _ in terms)
        offset_tri = (shape == "upper-triangle" and t1 != 0.0)
        if offset_tri:
            ref = trap + prime[0] * rb2.eta_prime(pref, prime[1],
                                                  1e-10 * c0 * prime[1])
        bound = bnd(eps_eff * scale, EPSABS * nq * ncoef)
        cells_cov += ["shape:" + shape, "pos:" + cls]
        cell_sig.append(cls)
        if abs(ref) >= 100 * bound:
            J.sensitive += 1
        detail = {"shape": shape, "delta": dt, "time_1": t1, "time_2": t2,
                  "epsrel": eps, "sd": p, "variant": variant,
                  "integration_warnings": nw}
        if offset_tri:
            # known-finding classifier: tag only if the library value equals
            # the trapezoid eta(t1+dt)-eta(t1) to within the bound
            err_def = abs(lib - ref)
            err_trap = abs(lib - trap)
            detail.update({"definition": ref, "trapezoid": trap,
                           "lib_minus_trapezoid": err_trap,
                           "lib_minus_definition": err_def})
            mech = "triangle-offset-time1" if err_trap <= bound \
                else "triangle-deviation"
            J.compare("cells_vs_eta", lib, ref, bound,
                      f"offset upper-triangle (time_1={t1:.4g}, "
                      f"delta={dt:.4g}) vs definition via independent eta",
                      mech, detail, obs="cells_vs_eta:tri-offset")
        else:
            mech = "triangle-deviation" if shape == "upper-triangle" \
                else shape + "-deviation"
            J.compare("cells_vs_eta", lib, ref, bound,
                      f"{shape} cell ({cls}, time_1={t1:.4g}, delta={dt:.4g}"
                      f", time_2={t2}) vs independent eta",
                      mech, detail)
        J.note("relerr_cell", abs(lib - ref) / max(scale, 1e-300)
               if not offset_tri else 0.0)
        # own-correlation oracle on a rotating subset (cost: ~100-300
        # correlation() evaluations each)
        span = ((t2 if t2 is not None else t1 + dt) - (t1 - dt)) * wc
        want = (n == (i % 3)) or (cls not in own_classes
                                  and n >= 3 and len(own_classes) < own_budget)
        if want and span <= 12.0 and not offset_tri:
            own_classes.add(cls)
            own, nev = _weighted_own(
                lambda s: obj.correlation(s, **epskw), shape, dt, t1, t2,
                wc, p["zeta"])
            area = dt * ((t2 - t1) if t2 is not None else dt)
            b_own = bound.plus(eps_eff * c0 * area, EPSABS * nq * area)
            J.compare("cells_vs_own", lib, own, b_own,
                      f"{shape} cell ({cls}) vs weighted quadrature of the "
                      "object's own correlation()",
                      mech.replace("deviation", "vs-own-correlation"),
                      dict(detail, correlation_evaluations=nev))
            J.count("own_correlation_evaluations", nev)
            cells_cov.append("own:" + shape)
        elif want and offset_tri and span <= 12.0:
            own, nev = _weighted_own(
                lambda s: obj.correlation(s, **epskw), shape, dt, t1, t2,
                wc, p["zeta"])
            b_own = bound.plus(eps_eff * c0 * dt * dt,
                               EPSABS * nq * dt * dt)
            err_trap = abs(lib - trap)
            J.compare("cells_vs_own", lib, own, b_own,
                      "offset upper-triangle vs weighted quadrature of the "
                      "object's own correlation()",
                      "triangle-offset-time1" if err_trap <= bound
                      else "triangle-vs-own-correlation",
                      dict(detail, own=own), obs="cells_vs_own:tri-offset")
        if twin is not None:
            tv = twin.correlation_2d_integral(dt, t1, shape=shape, **kw)
            J.compare("twin_identical", lib, tv, C_TWIN * scale + 1e-300,
                      f"CustomSD(power-law j) vs PowerLawSD, {shape} cell",
                      "customsd-differs-from-powerlaw", detail)
            if lib == tv:
                J.count("twin_bitwise_equal")

    # ---- positivity of the triangle
    tri, _ = _lib_call(obj.correlation_2d_integral, dt, 0.0,
                       shape="upper-triangle", **epskw)
    J.count("triangle_positive")
    if not tri.real > 0:
        J.fail("triangle_positive_fail",
               f"Re upper-triangle = {tri.real:.3e} is not positive",
               "triangle-not-positive", {"sd": p, "delta": dt})

    # ---- tiling
    n = int(rng.integers(2, 7))
    sq = [None] + [_lib_call(obj.correlation_2d_integral, dt, k * dt,
                             shape="square", **epskw)[0]
                   for k in range(1, n)]
    steps = []
    for m in range(1, n + 1):
        steps.append(tri + sum(sq[k] for k in range(1, m)))
    total = sum(steps)
    big, _ = _lib_call(obj.correlation_2d_integral, n * dt, 0.0,
                       shape="upper-triangle", **epskw)
    scale_t = sum((n - k) * (abs(eta_ref((k + 1) * dt)) + 2 * abs(eta_ref(k * dt))
                             + abs(eta_ref((k - 1) * dt))) for k in range(n))
    b_t = bnd(eps_eff * scale_t, EPSABS * nq * 2 * n * n)
    det = {"n": n, "delta": dt, "sd": p, "epsrel": eps}
    J.compare("tiling", total, big, b_t,
              f"sum of the cells of the first {n} steps vs library triangle "
              f"with delta = {n} dt", "tiling", det, obs="tiling:lib")
    J.compare("tiling", total, eta_ref(n * dt), b_t,
              f"sum of the cells of the first {n} steps vs independent "
              f"eta({n} dt)", "tiling", det, obs="tiling:ref")
    if abs(eta_ref(n * dt)) >= 100 * b_t:
        J.sensitive += 1
    # a rectangle = the squares it covers
    k0 = int(rng.integers(1, 4))
    mm = int(rng.integers(2, 5))
    rect, _ = _lib_call(obj.correlation_2d_integral, dt, k0 * dt,
                        time_2=(k0 + mm) * dt, shape="rectangle", **epskw)
    ssum = sum(_lib_call(obj.correlation_2d_integral, dt, k * dt,
                         shape="square", **epskw)[0]
               for k in range(k0, k0 + mm))
    scale_r = sum(abs(eta_ref((k + 1) * dt)) + 2 * abs(eta_ref(k * dt))
                  + abs(eta_ref((k - 1) * dt)) for k in range(k0, k0 + mm))
    J.compare("tiling", rect, ssum,
              bnd(eps_eff * scale_r, EPSABS * nq * 4 * (mm + 1)),
              f"rectangle [{k0}dt,{k0 + mm}dt] vs sum of its {mm} squares",
              "tiling-rectangle", det, obs="tiling:rect")

    # ---- correlation(): symmetry, reference, closed form
    b_c = bnd(eps_eff * c0, EPSABS * nq)
    taus = [0.0, 0.3 * dt, dt, 2.7 * dt, float(rng.uniform(5, 30)) / wc]
    for tau in taus:
        cp, nw1 = _lib_call(obj.correlation, tau, **epskw)
        cm, nw2 = _lib_call(obj.correlation, -tau, **epskw)
        nwarn += nw1 + nw2
        det = {"tau": tau, "sd": p, "epsrel": eps, "variant": variant}
        J.compare("symmetry", cm, np.conj(cp), b_c,
                  f"C(-tau) vs conj C(tau) at tau={tau:.4g}",
                  "hermitian-symmetry", det)
        cref = rb2.correlation(pref, tau, 1e-10 * c0)
        J.compare("corr_vs_ref", cp, cref, b_c,
                  f"correlation({tau:.4g}) vs independent quadrature",
                  "correlation-deviation", det)
        if temp == 0.0 and p["cutoff_type"] == "exponential" \
                and variant != "custom-j":
            cf = rb.correlation_closed_T0_exp(p, tau)
            J.compare("closed_form_T0", cp, cf, b_c,
                      f"correlation({tau:.4g}) vs T=0 closed form",
                      "closed-form-T0", det)
            ef = rb.eta_closed_T0_exp(p, max(tau, dt))
            # the reference itself against the closed form (self-check of R1)
            if abs(eta_ref(max(tau, dt)) - ef) > 1e-8 * abs(ef) + 1e-13:
                raise rb.RefUnreliable("eta reference vs closed form")
        if twin is not None:
            J.compare("twin_identical", cp, twin.correlation(tau, **epskw),
                      C_TWIN * c0, "CustomSD(power-law j) vs PowerLawSD, "
                      "correlation()", "customsd-differs-from-powerlaw", det)
    if temp == 0.0 and p["cutoff_type"] == "exponential" \
            and variant != "custom-j":
        ef = rb.eta_closed_T0_exp(p, dt)
        J.compare("closed_form_T0", tri, ef,
                  bnd(eps_eff * abs(ef), EPSABS * nq),
                  "upper-triangle vs T=0 closed form of eta",
                  "closed-form-T0", {"sd": p, "delta": dt})

    # ---- Matsubara
    if temp > 0.0:
        _matsubara(J, rng, obj, p, pref, epskw, eps_eff, nq, cells_cov,
                   quick, i)

    J.note("integration_warnings", nwarn)
    J.count("lib_integration_warnings", nwarn)
    sig = (variant, p["cutoff_type"], tclass, zclass, eps is None,
           tuple(sorted(set(cell_sig))))
    return {
        "violations": J.violations, "cells": sorted(set(cells_cov)),
        "monitors": J.monitors, "nontrivial": J.sensitive >= 4,
        "signature": str(sig), "maxratio": J.maxratio, "obs": J.obs,
        **({"dump": J.dump} if J.dump is not None else {}),
        "sample": gen.nice({"kind": "sd", "sd": p, "variant": variant,
                            "T_class": tclass, "delta": dt, "epsrel": eps,
                            "cells": [(c, s, a, b) for c, s, a, b in menu],
                            "tiling_n": n, "sensitive_cells": J.sensitive,
                            "worst_ratio": J.maxratio}),
    }


def _matsubara(J, rng, obj, p, pref, epskw, eps_eff, nq, cells_cov, quick, i):
    temp = p["temperature"]
    beta = 1.0 / temp
    w_g = rb2.guard_frequency(temp)
    guard_active = (p["cutoff_type"] != "hard") or (w_g < p["cutoff"])
    if guard_active:
        cells_cov.append("matsubara:guard-active")
    cm0 = rb2.matsubara_correlation(pref, 0.0)
    b_c = bnd(eps_eff * abs(cm0), EPSABS * nq)
    fracs = [0.0, float(rng.uniform(0.05, 0.45)), 0.5,
             float(rng.uniform(0.55, 0.95)), 1.0]
    vals = {}
    for fr in fracs:
        tau = fr * beta
        lib, _ = _lib_call(obj.correlation, tau, matsubara=True, **epskw)
        vals[fr] = lib
        J.count("matsubara_real")
        if np.iscomplexobj(lib) or not np.isfinite(lib):
            J.fail("matsubara_real_fail",
                   f"correlation(matsubara=True) returned {lib!r}",
                   "matsubara-not-real", {"tau": tau, "sd": p})
            continue
        ref = rb2.matsubara_correlation(pref, tau, 1e-10 * cm0)
        det = {"tau": tau, "beta": beta, "sd": p,
               "guard_frequency": w_g}
        err = abs(lib - ref)
        mech = "matsubara-deviation"
        if err > b_c and guard_active:
            dropped = rb2.matsubara_correlation_dropped(pref, tau)
            det["dropped_term"] = dropped
            if abs(lib + dropped - ref) <= b_c:
                mech = "matsubara-guard-drops-term"
        J.compare("matsubara_vs_ref", lib, ref, b_c,
                  f"Matsubara correlation at tau = {fr:.3g} beta vs "
                  "independent imaginary-time integral", mech, det)
    # symmetry about beta/2
    for fr in (0.0, fracs[1]):
        tau = fr * beta
        a, _ = _lib_call(obj.correlation, tau, matsubara=True, **epskw)
        b, _ = _lib_call(obj.correlation, beta - tau, matsubara=True, **epskw)
        mech = "matsubara-deviation"
        if abs(a - b) > 2 * b_c and guard_active:
            d1 = rb2.matsubara_correlation_dropped(pref, tau)
            d2 = rb2.matsubara_correlation_dropped(pref, beta - tau)
            if abs((a + d1) - (b + d2)) <= 2 * b_c:
                mech = "matsubara-guard-drops-term"
        J.compare("matsubara_symmetry", a, b, b_c.times(2),
                  f"Matsubara C(tau) vs C(beta - tau), tau = {fr:.3g} beta",
                  mech, {"tau": tau, "beta": beta, "sd": p})
    # cells on the grid beta/N (as GibbsTempo uses them)
    nst = int(rng.integers(3, 11))
    dtm = beta / nst
    eta_m = rb2.ext(lambda t: rb2.matsubara_eta(pref, t))
    ks = sorted({0, 1, nst // 2, nst - 1})
    for k in ks:
        shape = "upper-triangle" if k == 0 else "square"
        lib, _ = _lib_call(obj.correlation_2d_integral, dtm, k * dtm,
                           shape=shape, matsubara=True, **epskw)
        J.count("matsubara_real")
        if np.iscomplexobj(lib) or not np.isfinite(lib):
            J.fail("matsubara_real_fail",
                   f"Matsubara {shape} integral returned {lib!r}",
                   "matsubara-not-real", {"k": k, "sd": p})
            continue
        if k == 0:
            terms = [(1.0, dtm)]
        else:
            terms = [(1.0, (k + 1) * dtm), (-2.0, k * dtm),
                     (1.0, (k - 1) * dtm)]
        terms = [(c, min(t, beta)) for c, t in terms]
        ref = sum(c * eta_m(t).real for c, t in terms)
        scale = sum(abs(c) * abs(eta_m(t)) for c, t in terms)
        ncoef = sum(abs(c) for c, _ in terms)
        bound = bnd(eps_eff * scale, EPSABS * nq * ncoef)
        det = {"k": k, "n_steps": nst, "delta": dtm, "beta": beta, "sd": p,
               "guard_frequency": w_g}
        mech = "matsubara-deviation"
        if abs(lib - ref) > bound and guard_active:
            dropped = sum(c * rb2.matsubara_eta_dropped(pref, t)
                          for c, t in terms if t > 0)
            det["dropped_term"] = dropped
            if abs(lib + dropped - ref) <= bound:
                mech = "matsubara-guard-drops-term"
        if abs(ref) >= 100 * bound:
            J.sensitive += 1
        J.compare("matsubara_cells", lib, ref, bound,
                  f"Matsubara {shape} cell k={k} of {nst} vs independent "
                  "imaginary-time eta", mech, det)
        # own consistency: cell = - int w(s) C_M(s) ds
        if k == ks[(i // 2) % len(ks)] and dtm * p["cutoff"] <= 6.0:
            def cmown(s):
                return obj.correlation(abs(s), matsubara=True, **epskw)
            own, nev = _weighted_own(cmown, shape, dtm, k * dtm, None,
                                     p["cutoff"], p["zeta"], -1.0)
            b_own = bound.plus(eps_eff * abs(cm0) * dtm * dtm,
                               EPSABS * nq * dtm * dtm)
            J.compare("matsubara_cells_vs_own", lib, own.real, b_own,
                      f"Matsubara {shape} cell k={k} vs weighted quadrature "
                      "of the own Matsubara correlation",
                      "matsubara-vs-own-correlation", det)


# --- CustomCorrelations cases ---------------------------------------------------

def run_cc(case):
    import oqupy
    rng = gen.rng_for(case["seed"], "c12cc", case["idx"])
    i = case["idx"]
    quick = case["tier"] == "quick"
    J = Judge()
    fam = "exp" if i % 2 == 0 else "modes"
    nterm = 1 + (i // 2) % 3
    if fam == "exp":
        amps = [complex(rng.uniform(0.2, 2.0), rng.uniform(-1.0, 1.0))
                for _ in range(nterm)]
        zs = [complex(rng.uniform(0.0 if i % 4 == 0 else 0.2, 3.0),
                      rng.uniform(-4.0, 4.0)) for _ in range(nterm)]
        cfun, f_pos, fp_pos = rb2.exp_family(amps, zs)
        cmax = sum(abs(a) for a in amps)
        desc = {"family": "exp", "amps": amps, "z": zs}
        rate = max(abs(z) for z in zs)
    else:
        ws = [float(rng.uniform(0.5, 5.0)) for _ in range(nterm)]
        gs = [float(rng.uniform(0.2, 1.0)) for _ in range(nterm)]
        ts = [0.0 if rng.random() < 0.4 else float(rng.uniform(0.1, 3.0) * w)
              for w in ws]
        cfun = rb.finite_mode_correlation(ws, gs, ts)
        f_pos = rb.finite_mode_eta(ws, gs, ts)
        fp_pos = rb2.finite_mode_eta_prime(ws, gs, ts)
        cmax = abs(cfun(0.0))
        desc = {"family": "modes", "w": ws, "g": gs, "T": ts}
        rate = max(ws)
    f_ext = rb2.ext(f_pos)
    eps = [None, 1e-6, 1e-9][i % 3]
    epskw = {} if eps is None else {"epsrel": eps}
    eps_eff = DEFAULT_EPSREL if eps is None else eps
    dt = float(10 ** rng.uniform(-1.3, 0.2)) / max(rate, 0.5) * 2.0
    obj = oqupy.CustomCorrelations(cfun)
    cells_cov = ["cc:" + fam, "eps:default" if eps is None else "eps:explicit"]
    menu = _cell_menu(rng, dt, i, quick)
    # dblquad is slow: 5 cells per case, rotating; always one offset triangle
    # or straddling cell
    sel = [menu[0]] + [menu[(3 + (i * 3 + j * 4)) % len(menu)]
                       for j in range(4)]
    tri_off = [m for m in menu if m[0] == "tri:offset"]
    if not tri_off:
        f = float(rng.uniform(0.1, 0.9))
        tri_off = [("tri:offset", "upper-triangle", [dt, f * dt, 3 * dt][i % 3],
                    None)]
    if i % 2 == 0 and tri_off[0] not in sel:
        sel.append(tri_off[0])
    cell_sig = []
    for cls, shape, t1, t2 in sel:
        if cls == "rect:ext>>1":
            t2 = t1 + min(t2 - t1, 6.0 * dt)
        kw = dict(epskw)
        if t2 is not None:
            kw["time_2"] = t2
        lib, nw = _lib_call(obj.correlation_2d_integral, dt, t1, shape=shape,
                            **kw)
        terms, prime = rb2.cell_terms(shape, dt, t1, t2)
        ref = sum(c * f_ext(t) for c, t in terms)
        if shape == "upper-triangle" and t1 != 0.0:
            ref = ref + prime[0] * fp_pos(prime[1])
            cells_cov.append("cc:tri:offset")
        length = (t2 - t1) if t2 is not None else dt
        area = dt * length * (0.5 if shape == "upper-triangle" else 1.0)
        # direct 2-D quadrature: requested tolerance eps*|I| + epsabs for the
        # outer and epsabs per unit length for the inner integral, re and im
        bound = bnd(eps_eff * cmax * area, EPSABS * 2.0 * (1.0 + length))
        det = {"shape": shape, "delta": dt, "time_1": t1, "time_2": t2,
               "epsrel": eps, "correlations": desc,
               "integration_warnings": nw}
        if 0.0 <= t1 < dt and shape != "upper-triangle" or t1 < 0:
            cells_cov.append("cc:straddle")
        cells_cov += ["cc:shape:" + shape, "cc:pos:" + cls]
        cell_sig.append(cls)
        if abs(ref) >= 100 * bound:
            J.sensitive += 1
        mech = ("triangle" if shape == "upper-triangle" else shape) \
            + "-deviation-customcorrelations"
        J.compare("cc_cells_vs_analytic", lib, ref, bound,
                  f"CustomCorrelations {shape} cell ({cls}) vs analytic "
                  "double integral", mech, det)
        wq = rb.cell_by_weight(cfun, shape, dt, t1, t2)
        # the two references against each other (self-test)
        if abs(wq - ref) > 1e-9 * cmax * area + 1e-13:
            raise rb.RefUnreliable(
                f"analytic cell vs weighted quadrature differ: {wq} {ref}")
        J.count("cc_reference_selftests")
    if fam == "modes":
        tri, _ = _lib_call(obj.correlation_2d_integral, dt, 0.0,
                           shape="upper-triangle", **epskw)
        J.count("triangle_positive")
        if not tri.real > 0:
            J.fail("triangle_positive_fail",
                   f"Re upper-triangle = {tri.real:.3e} is not positive",
                   "triangle-not-positive", {"correlations": desc})
    # correlation() passes the callable through (array and scalar)
    for tau in (0.0, 0.4 * dt, -0.4 * dt):
        J.compare("cc_correlation", complex(obj.correlation(tau)),
                  complex(cfun(tau)), 1e-14 * cmax,
                  "CustomCorrelations.correlation", "cc-correlation",
                  {"tau": tau})
    sig = ("cc", fam, nterm, eps is None, tuple(sorted(set(cell_sig))))
    return {
        "violations": J.violations, "cells": sorted(set(cells_cov)),
        "monitors": J.monitors, "nontrivial": J.sensitive >= 3,
        "signature": str(sig), "maxratio": J.maxratio, "obs": J.obs,
        **({"dump": J.dump} if J.dump is not None else {}),
        "sample": gen.nice({"kind": "cc", "correlations": str(desc),
                            "delta": dt, "epsrel": eps,
                            "cells": [(c, s, a, b) for c, s, a, b in sel],
                            "worst_ratio": J.maxratio}),
    }


def run_case(case):
    if case["kind"] == "sd":
        return run_sd(case)
    return run_cc(case)
