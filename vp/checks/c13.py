"""C13 - computations cover exactly the requested time grid and label states
correctly.

Oracle: exact rational arithmetic on the floats the caller passed
(fractions.Fraction): q = (end - start)/dt exactly; the end time is a grid
point "up to floating point rounding" iff |q - round(q)| <= 1e-12*max(1, q)
(then n = round(q)); it is off-grid iff the distance to the nearest integer is
>= 1e-6 (then n = floor(q)); the band in between is never judged.

Two kinds of observation:

* at the hooks that turn floats into a number of steps (Tempo._get_num_step,
  MeanFieldTempo._get_num_step, the num_steps of a constructed PtTempo and of
  its backend, TempoParameters(tcut=K*dt).dkmax) for the WHOLE lattice
  dt x m=0..1000 x start, with the end time written as the decimal literal a
  user would type (decimal arithmetic on repr(start), repr(dt)), as the float
  sum start+m*dt, rounded to 10 decimals, and off-grid;
* end-to-end for every lattice point with m <= 30 and a sample beyond:
  Tempo / tempo_compute, MeanFieldTempo, PtTempo / pt_tempo_compute,
  compute_dynamics, compute_dynamics_with_field, compute_gradient_and_dynamics
  (record_all True and False) and PtTebd: number of states, every time label
  against the exact start + k*dt (<= 4 ulp), sortedness, and alignment of the
  states (and fields) with their labels - the model has an explicitly
  time-dependent commuting Hamiltonian and a field equation linear in t whose
  exact solutions are known in closed form, so a state stored under the wrong
  label is seen.
"""
import decimal
import math
from fractions import Fraction

import numpy as np

from vp import gen

ID = "C13"
LEVEL = "exploration"
BATCH = 8
CASE_TIMEOUT = 240

M_MAX = 1000          # lattice m = 0..M_MAX at the hooks
M_E2E = 30            # every lattice point up to here is run end-to-end
K_TCUT = 300          # tcut = K*dt for K = 1..K_TCUT
GRID_REL = Fraction(1, 10 ** 12)
OFF_ABS = Fraction(1, 10 ** 6)
# off-grid fractions of a step (distance to the nearest grid point >= 1.5e-6,
# i.e. inside the judged domain "distance >= 1e-6" with room for the rounding
# of start + (m+f)*dt)
OFF_EDGE = (1.5e-6, 1.0 - 1.5e-6)
OFF_MID = (1e-3, 0.25, 0.5, 0.75, 0.9, 1.0 - 1e-3)
STARTS = (0.0, 0.1, -0.3, 1.7)
FAR = ((0.01, 2000.0), (0.004, -500.0), (0.05, 12345.0))
FIXED_DTS = (0.1, 0.05, 0.01, 0.2, 0.25, 0.3, 0.7, 1e-3, 1.0 / 3.0)

ALPHA = 1e-10         # bath coupling of the cheap model
EPSREL = 1e-4
STATE_TOL = 2e-6      # |state - closed form|, calibrated: observed <= 2e-8
FIELD_TOL = 1e-9      # Heun is exact for the field equation used (obs 1e-14)
TEBD_EPSREL = 1e-10   # requested PT-TEBD truncation; at 1e-6 the truncated
#                       gate terms add up to 2e-4 over 116 steps (a requested-
#                       tolerance effect, gone at <= 1e-8), so the bound below
#                       is 1e4 x epsrel with observed deviations <= 3e-11
TEBD_TOL = 1e-6
ULPS = 4
MAX_VIOL = 6          # violations recorded per mechanism and case

RULE = ("complete lattice dt in {0.1,0.05,0.01,0.2,0.25,0.3,0.7,1e-3,1/3, "
        "seeded random float, seeded random 3-digit decimal} x start in "
        "{0,0.1,-0.3,1.7} x m=0..1000; end time as decimal literal of "
        "start+m*dt, as float sum, rounded to 10 decimals, and off-grid "
        "(m+f)*dt with f in {1.5e-6,1e-3,.25,.5,.75,.9,1-1e-3,1-1.5e-6}; step "
        "count observed at the hooks for all of them, end-to-end for all "
        "m<=30 and a seeded sample beyond (preferring points whose float "
        "quotient lies below the integer). A hook case is non-trivial iff it "
        "contains points where int((end-start)/dt) differs from the exact "
        "count or off-grid points; an end-to-end case iff relabelling a "
        "state by one step changes the closed-form state by >= 100x the "
        "comparison bound (measured). Distinct = distinct (kind, dt, start, "
        "m-group).")
ASSUMPTIONS = [
    "an end time is 'a grid point up to rounding' iff the exact rational "
    "quotient is within 1e-12*max(1,q) of an integer, off-grid iff >= 1e-6 "
    "away (generated with >= 1.5e-6); ends in between are not judged",
    "time labels may differ from the exactly rounded start+k*dt by 4 ulp of "
    "max(|start|,|k*dt|,|t|) (two roundings in start + k*dt)",
    "alignment of states with labels is judged on a cheap model (alpha=1e-10"
    ", dkmax=2, epsrel=1e-4, H(t) commuting and linear in t, sampled "
    "propagators) against its closed-form free evolution with bound 2e-6",
    "PtTebd takes an integer end step; for it only labels, lengths and "
    "alignment are judged",
    "PtTempo requires at least 2 steps: lattice points with n<2 are expected "
    "to be refused by its constructor",
]


# --------------------------------------------------------------------------
# oracle (exact arithmetic)

def oracle_steps(start, end, dt):
    """('grid'|'off'|'band', n) for the floats start, end, dt."""
    q = (Fraction(end) - Fraction(start)) / Fraction(dt)
    r = math.floor(q + Fraction(1, 2))
    dist = abs(q - r)
    # "up to floating point rounding": of the quotient, and of the two times
    # themselves (matters once |start| >> dt: one ulp of 2000.12 is 2e-11
    # steps of 0.01)
    ulp_steps = 2 * Fraction(math.ulp(max(abs(start), abs(end)))) \
        / Fraction(dt)
    if dist <= GRID_REL * max(Fraction(1), abs(q)) + ulp_steps:
        return "grid", int(r)
    if dist >= OFF_ABS:
        return "off", int(math.floor(q))
    return "band", None


def exact_time(start, dt, k):
    return Fraction(start) + k * Fraction(dt)


def label_error_ulps(t_lib, start, dt, k):
    """Deviation of a time label from the exact start + k*dt in units of the
    ulp of the largest magnitude involved."""
    ex = exact_time(start, dt, k)
    scale = max(abs(start), abs(k * dt), abs(float(ex)), 5e-324)
    return float(abs(Fraction(float(t_lib)) - ex)) / math.ulp(scale)


_DEC = decimal.Context(prec=60)


def literal_decimal(start, dt, m):
    """The decimal number start + m*dt computed from the shortest decimal
    literals of start and dt (what a user writes down, e.g. 0.3 for 3*0.1)."""
    d = _DEC.add(decimal.Decimal(repr(float(start))),
                 _DEC.multiply(decimal.Decimal(m),
                               decimal.Decimal(repr(float(dt)))))
    return d


def end_variants(start, dt, m):
    """Distinct on-grid end times for the lattice point m: list of (tag, end)."""
    lit = float(literal_decimal(start, dt, m))
    flo = start + m * dt
    r10 = round(start + m * dt, 10)
    out, seen = [], set()
    for tag, e in (("literal", lit), ("float", flo), ("round10", r10)):
        if e not in seen:
            seen.add(e)
            out.append((tag, e))
    return out


def lattice_dts(seed, tier):
    rng = gen.rng_for(seed, "c13dts")
    nrand = 1 if tier == "quick" else 4
    out = list(FIXED_DTS)
    for _ in range(nrand):
        out.append(float(rng.uniform(0.002, 1.5)))            # arbitrary float
        out.append(float(f"{rng.uniform(0.002, 0.9):.3g}"))   # short literal
    return out


def lattice_starts(seed, tier):
    out = list(STARTS)
    if tier != "quick":
        rng = gen.rng_for(seed, "c13starts")
        out.append(float(f"{rng.uniform(-3, 3):.2g}"))
        out.append(float(rng.uniform(-3, 3)))
    return out


# --------------------------------------------------------------------------
# cases

def required_cells(tier):
    pts = {
        "hook:tempo": 1000, "hook:meanfield": 1000, "hook:pttempo": 1000,
        "hook:tcut": 100, "hook:backend-memory": 1000, "end:literal": 1000, "end:float": 100,
        "end:offgrid": 1000, "quotient-below-integer": 50,
        "quotient-exact-or-above": 50,
        "api:tempo": 100, "api:meanfield": 100, "api:pttempo": 100,
        "api:compute_dynamics:all": 50, "api:compute_dynamics:final": 50,
        "api:with_field:all": 50, "api:with_field:final": 50,
        "api:gradient:all": 50, "api:gradient:final": 50,
        "api:state_gradient": 10,
        "api:pttebd": 10, "e2e:m<=30": 500, "e2e:m>30": 4,
        "e2e:quotient-below-integer": 20,
        "pttempo-refuses-n<2": 4, "tebd:query-between-computes": 2,
        "tebd:caller-parameters-reused-afterwards": 2,
        "continued-after-reading-times": 5,
        "num_steps:0": 20, "num_steps:>0": 20,
        "with-trivial-process-tensor": 20,
        "container:add-shuffled": 2, "container:constructor-unsorted": 2,
        "container:merge-two-runs": 2, "reimported-pt:file": 5,
        "reimported-pt:simple": 5,
    }
    req = {"pts/" + k: v for k, v in pts.items()}
    req.update({"labels_checked": 1000, "states_aligned": 1000,
                "fields_aligned": 500, "single_state_labels": 100})
    return req


def _sensitive(start, end, dt, n):
    """Does plain truncation of the float quotient miss the exact count?"""
    return int((end - start) / dt) != n


def cases(tier, seed):
    dts = lattice_dts(seed, tier)
    starts = lattice_starts(seed, tier)
    out = []
    # hooks: the whole lattice, one case per (dt, start)
    for i, dt in enumerate(dts):
        for j, st in enumerate(starts):
            out.append({"kind": "hook", "dt": dt, "start": st, "dti": i,
                        "sti": j, "seed": seed, "tier": tier})
    # end-to-end: every m <= 30, in groups of 5
    group = 5
    for i, dt in enumerate(dts):
        for j, st in enumerate(starts):
            for g in range(0, M_E2E, group):
                ms = list(range(g + 1, g + group + 1))
                if g == 0:
                    ms = [0] + ms
                out.append({"kind": "e2e", "dt": dt, "start": st, "dti": i,
                            "sti": j, "ms": ms, "seed": seed, "tier": tier})
    # far from the time origin: |start|/dt >= 1e5 (grid times that agree to
    # five digits must stay distinct points with their own states)
    for i, (dt, st) in enumerate(FAR):
        out.append({"kind": "hook", "dt": dt, "start": st, "dti": 100 + i,
                    "sti": 100 + i, "seed": seed, "tier": tier, "far": True})
        for g in range(0, M_E2E if tier != "quick" else 10, group):
            ms = list(range(g + 1, g + group + 1))
            out.append({"kind": "e2e", "dt": dt, "start": st, "dti": 100 + i,
                        "sti": 100 + i, "ms": ms, "seed": seed, "tier": tier,
                        "far": True})
        out.append({"kind": "tebd", "dt": dt, "start": st, "dti": 100 + i,
                    "sti": 100 + i, "ns": [4 + i, 17], "idx": 1000 + i,
                    "seed": seed, "tier": tier, "far": True})
    # a sample beyond 30 (prefer points where truncation would lose a step)
    nbeyond, mhi = (12, 200) if tier == "quick" else (80, 1000)
    rng = gen.rng_for(seed, "c13beyond")
    for b in range(nbeyond):
        i = b % len(dts)
        j = int(rng.integers(0, len(starts)))
        dt, st = dts[i], starts[j]
        cand = [int(x) for x in rng.integers(M_E2E + 1, mhi + 1, size=40)]
        if tier != "quick" and b < 4:
            cand = [M_MAX]
        m = cand[0]
        if b % 4 != 3:
            for c in cand:
                e = float(literal_decimal(st, dt, c))
                cls, n = oracle_steps(st, e, dt)
                if cls == "grid" and _sensitive(st, e, dt, n):
                    m = c
                    break
        out.append({"kind": "e2e", "dt": dt, "start": st, "dti": i, "sti": j,
                    "ms": [m], "seed": seed, "tier": tier, "beyond": True})
    for k in range(9 if tier == "quick" else 60):
        out.append({"kind": "container", "idx": k, "seed": seed,
                    "tier": tier})
    # PT-TEBD
    rng = gen.rng_for(seed, "c13tebd")
    for i, dt in enumerate(dts):
        for j, st in enumerate(starts):
            ns = sorted({int(x) for x in rng.integers(1, M_E2E + 1, size=2)})
            if tier != "quick":
                ns.append(int(rng.integers(31, 120)))
            out.append({"kind": "tebd", "dt": dt, "start": st, "dti": i,
                        "sti": j, "ns": ns, "idx": i * len(starts) + j,
                        "seed": seed, "tier": tier})
    return out


# --------------------------------------------------------------------------
# bookkeeping helpers

class Book:
    """Violations (capped per mechanism), cells, monitor counters."""

    def __init__(self):
        self.viol = []
        self.nviol = {}
        self.cells = {}
        self.mon = {}
        self.maxratio = 0.0

    def violation(self, what, mechanism, detail):
        self.nviol[mechanism] = self.nviol.get(mechanism, 0) + 1
        if self.nviol[mechanism] <= MAX_VIOL:
            self.viol.append({"what": what, "mechanism": mechanism,
                              "detail": detail})

    def cell(self, name, n=1):
        self.cells[name] = self.cells.get(name, 0) + n

    def count(self, name, n=1):
        self.mon[name] = self.mon.get(name, 0) + n

    def ratio(self, r):
        if r == r:
            self.maxratio = max(self.maxratio, float(r))

    def result(self, nontrivial, signature, obs, sample):
        for v in self.viol:
            v["detail"]["occurrences_in_case"] = self.nviol[v["mechanism"]]
        # run.py counts a cell once per case; the number of judged points
        # per cell is reported as the monitor counter "pts/<cell>"
        mon = dict(self.mon)
        for c, n in self.cells.items():
            mon["pts/" + c] = n
        return {"violations": self.viol, "cells": sorted(self.cells),
                "monitors": mon, "nontrivial": bool(nontrivial),
                "signature": signature, "maxratio": self.maxratio,
                "obs": obs, "sample": sample}


# --------------------------------------------------------------------------
# the cheap model with known closed-form evolution

RHO0 = np.array([[0.6, 0.3 - 0.2j], [0.3 + 0.2j, 0.4]], dtype=complex)
RHO1 = np.array([[0.7, 0.1 + 0.25j], [0.1 - 0.25j, 0.3]], dtype=complex)
SZ = np.array([[1.0, 0.0], [0.0, -1.0]], dtype=complex)
CHIRP = 0.5
C0, C1 = 0.3 - 0.2j, 0.5 + 0.1j
FIELD0 = 1.0 + 0.0j


class Model:
    """H(t) = w (1 + c (t-s)/T) sz/2, field equation da/dt = (c0 + c1
    (t-s)/T)/T; total phase 3.75 rad over T = n*dt (no wrap-around, so every
    grid time has its own state)."""

    def __init__(self, start, dt, n):
        self.s = start
        self.dt = dt
        self.T = max(n, 1) * dt
        self.w = 3.0 / self.T

    def freq(self, tau):
        return self.w * (1.0 + CHIRP * tau / self.T)

    def phase(self, tau):
        return self.w * (tau + CHIRP * tau * tau / (2.0 * self.T))

    def hamiltonian(self, t):
        return self.freq(t - self.s) * 0.5 * SZ

    def hamiltonian_field(self, t, a):
        return self.freq(t - self.s) * 0.5 * SZ

    def field_eom(self, t, states, a):
        return (C0 + C1 * (t - self.s) / self.T) / self.T

    def field(self, tau):
        return FIELD0 + (C0 * tau + C1 * tau * tau / (2.0 * self.T)) / self.T

    def state(self, tau):
        """Exact free evolution of RHO0 after the elapsed time tau."""
        r = RHO0.copy()
        ph = np.exp(-1j * self.phase(tau))
        r[0, 1] = RHO0[0, 1] * ph
        r[1, 0] = RHO0[1, 0] * np.conj(ph)
        return r

    def half_step_parameters(self, nsteps):
        """Parameters of a ParameterizedSystem H(x) = x sz/2: the midpoint
        frequency of every half step (exact for the linear chirp)."""
        return np.array([[self.freq((j + 0.5) * self.dt / 2.0)]
                         for j in range(2 * nsteps)])

    def separation(self, n):
        """Smallest change of the closed-form state between neighbouring
        grid times (sensitivity of the alignment monitor)."""
        if n < 1:
            return float("inf")
        taus = np.arange(n + 1) * self.dt
        ph = np.array([self.phase(t) for t in taus])
        return float(np.min(np.abs(RHO0[0, 1]) *
                            np.abs(np.exp(-1j * np.diff(ph)) - 1.0)))


def _bath():
    import oqupy
    corr = oqupy.PowerLawSD(alpha=ALPHA, zeta=1.0, cutoff=3.0,
                            cutoff_type="exponential", temperature=0.0)
    return oqupy.Bath(0.5 * SZ, corr)


def _params(dt, **kw):
    import oqupy
    args = dict(dt=dt, epsrel=EPSREL, dkmax=2, subdiv_limit=None)
    args.update(kw)
    return oqupy.TempoParameters(**args)


# --------------------------------------------------------------------------
# hook level

def _hook_points(start, dt, mmax, all_offsets=False):
    """All judged end times of the lattice row (dt, start)."""
    for m in range(0, mmax + 1):
        for tag, end in end_variants(start, dt, m):
            yield m, tag, end
        offs = (OFF_EDGE[m % 2], OFF_MID[m % len(OFF_MID)])
        if all_offsets or m in (0, 1, 2, 3, 10, 100, 999, 1000):
            offs = OFF_EDGE + OFF_MID
        for f in offs:
            yield m, "offgrid", start + (m + f) * dt


def run_hook(case):
    import oqupy
    dt, start = case["dt"], case["start"]
    book = Book()
    bath = _bath()
    par = _params(dt)
    model = Model(start, dt, 10)
    tempo = oqupy.Tempo(oqupy.TimeDependentSystem(model.hamiltonian), bath,
                        par, RHO0, start)
    mfs = oqupy.MeanFieldSystem(
        [oqupy.TimeDependentSystemWithField(model.hamiltonian_field)],
        model.field_eom)
    mft = oqupy.MeanFieldTempo(mfs, [bath], par, [RHO0], FIELD0,
                               start_time=start)
    have_t = hasattr(tempo, "_get_num_step")
    have_m = hasattr(mft, "_get_num_step")
    nsens = nband = njudged = noff = 0
    rng = gen.rng_for(case["seed"], "c13hook", case["dti"], case["sti"])
    for m, tag, end in _hook_points(start, dt, M_MAX,
                                    case["tier"] != "quick"):
        if not end > start and m > 0:
            continue
        cls, n = oracle_steps(start, end, dt)
        if cls == "band" or n < 0:
            nband += 1
            continue
        njudged += 1
        sens = _sensitive(start, end, dt, n)
        nsens += sens
        noff += tag == "offgrid"
        book.cell("end:" + tag)
        book.cell("quotient-below-integer" if sens
                  else "quotient-exact-or-above")
        det = {"dt": dt, "start": start, "end": end, "m": m, "variant": tag,
               "class": cls, "expected_steps": n,
               "float_quotient": (end - start) / dt}
        if have_t:
            got = tempo._get_num_step(0, end)
            book.cell("hook:tempo")
            if got != n:
                book.violation(
                    f"Tempo counts {got} steps from {start!r} to {end!r} "
                    f"with dt={dt!r}, exact count {n}",
                    "step-count:tempo", dict(det, got=int(got)))
            j = int(rng.integers(0, n + 3))
            got = tempo._get_num_step(j, end)
            if got != max(0, n - j):
                book.violation(
                    f"Tempo counts {got} remaining steps from step {j} to "
                    f"{end!r} (dt={dt!r}, start={start!r}), exact "
                    f"{max(0, n - j)}", "step-count:tempo",
                    dict(det, got=int(got), start_step=j))
        if have_m:
            got = mft._get_num_step(0, end)
            book.cell("hook:meanfield")
            if got != n:
                book.violation(
                    f"MeanFieldTempo counts {got} steps from {start!r} to "
                    f"{end!r} with dt={dt!r}, exact count {n}",
                    "step-count:meanfield", dict(det, got=int(got)))
        # PtTempo: the step count is fixed at construction
        try:
            ptt = oqupy.PtTempo(bath, start, end, par)
            got = (int(ptt._num_steps),
                   int(ptt._backend_instance.num_steps))
        except AssertionError:
            got = None
        book.cell("hook:pttempo")
        if n < 2:
            if got is None:
                book.cell("pttempo-refuses-n<2")
            # n<2 is outside PtTempo's documented domain: nothing is demanded
        elif got is None or got[0] != n or got[1] != n:
            book.violation(
                f"PtTempo prepares {got} steps from {start!r} to {end!r} "
                f"with dt={dt!r}, exact count {n}", "step-count:pttempo",
                dict(det, got=got))
    # tcut = K*dt must give dkmax = K (independent of start: only once per dt)
    if case["sti"] == 0:
        for k in range(1, K_TCUT + 1):
            for tag, tcut in end_variants(0.0, dt, k):
                cls, n = oracle_steps(0.0, tcut, dt)
                if cls != "grid":
                    nband += 1
                    continue
                p = oqupy.TempoParameters(dt=dt, epsrel=EPSREL, tcut=tcut)
                book.cell("hook:tcut")
                if p.dkmax != n:
                    book.violation(
                        f"tcut={tcut!r} with dt={dt!r} gives dkmax="
                        f"{p.dkmax}, expected {n}", "tcut-dkmax",
                        {"dt": dt, "tcut": tcut, "variant": tag,
                         "got": int(p.dkmax), "expected": n})
                    continue
                # ... and the back-ends built from such parameters (given as
                # tcut or as dkmax) keep exactly n steps of memory
                for ptag, par_k in ((tag, p), ("dkmax", oqupy.TempoParameters(
                        dt=dt, epsrel=EPSREL, dkmax=n))):
                    if ptag == "dkmax" and tag != "literal":
                        continue
                    ptt = oqupy.PtTempo(bath, 0.0, (n + 3.5) * dt, par_k)
                    tmp = oqupy.Tempo(
                        oqupy.TimeDependentSystem(model.hamiltonian), bath,
                        par_k, RHO0, 0.0)
                    for what, obj in (("PtTempo", ptt), ("Tempo", tmp)):
                        be = getattr(obj, "_backend_instance", None)
                        got_k = getattr(be, "_dkmax", None)
                        if be is None or got_k is None:
                            book.cell("hook-missing:memory")
                            continue
                        book.cell("hook:backend-memory")
                        if int(got_k) != n:
                            book.violation(
                                f"{what} built with {ptag}={tcut!r} "
                                f"(dt={dt!r}) keeps {int(got_k)} steps of "
                                f"memory, expected {n}", "backend-dkmax",
                                {"dt": dt, "tcut": tcut, "variant": ptag,
                                 "got": int(got_k), "expected": n,
                                 "object": what})
    if not (have_t and have_m):
        book.cell("hook-missing")
    sig = ("hook", case["dti"], repr(dt), repr(start), nsens > 0)
    return book.result(
        nontrivial=(nsens + noff) > 0, signature=str(sig),
        obs={"points_judged": njudged, "points_in_unjudged_band": nband,
             "points_where_truncation_would_fail": nsens},
        sample={"kind": "hook", "dt": dt, "start": start, "m": [0, M_MAX],
                "judged": njudged, "truncation_sensitive": nsens,
                "example_literal": format(literal_decimal(start, dt, 3), "f")})


# --------------------------------------------------------------------------
# end-to-end level

def _check_labels(book, api, times, start, dt, nexp, record_all, det):
    """Length, labels (<= 4 ulp), sortedness. Returns the list of step indices
    the entries are supposed to belong to (aligned with times)."""
    times = [float(t) for t in times]
    if record_all:
        want = list(range(nexp + 1))
    else:
        want = [nexp]
    if len(times) != len(want):
        book.violation(
            f"{api}: {len(times)} time points returned, expected "
            f"{len(want)} (start={start!r}, dt={dt!r}, {nexp} steps)",
            "length:" + api, dict(det, got=len(times), expected=len(want),
                                  times_tail=times[-3:]))
    steps = want[:len(times)]
    for t, k in zip(times, steps):
        ul = label_error_ulps(t, start, dt, k)
        book.count("labels_checked")
        book.ratio(ul / ULPS)
        if not ul <= ULPS:
            mech = ("time-label:" if record_all else "single-state-label:") \
                + api
            book.violation(
                f"{api}: entry {k if record_all else 0} is labelled {t!r}, "
                f"the grid time is {float(exact_time(start, dt, k))!r} "
                f"({ul:.3g} ulp)", mech,
                dict(det, step=k, label=t,
                     expected=float(exact_time(start, dt, k)), ulps=ul))
    if not record_all and times:
        book.count("single_state_labels")
    if any(b <= a for a, b in zip(times, times[1:])):
        book.violation(f"{api}: times are not strictly increasing",
                       "unsorted-times:" + api, dict(det, times=times[:8]))
    return steps


def _check_states(book, api, model, states, steps, start, dt, det,
                  tol=STATE_TOL):
    """Every state must be the closed-form state of the grid time its label
    stands for."""
    states = np.asarray(states)
    if len(states) != len(steps):
        book.violation(
            f"{api}: {len(states)} states for {len(steps)} time labels",
            "length:" + api, dict(det, states=len(states),
                                  labels=len(steps)))
    worst = 0.0
    for st, k in zip(states, steps):
        tau = float(exact_time(0.0, dt, k))
        dev = float(np.abs(st - model.state(tau)).max())
        worst = max(worst, dev)
        book.count("states_aligned")
        if not dev <= tol:
            # which grid time does the state belong to?
            cand = [float(np.abs(st - model.state(j * dt)).max())
                    for j in range(0, max(steps) + 3)]
            book.violation(
                f"{api}: the state stored for step {k} deviates from the "
                f"closed-form state of that time by {dev:.3e} (closest to "
                f"the state of step {int(np.argmin(cand))})",
                "misaligned-state:" + api,
                dict(det, step=k, deviation=dev, bound=tol,
                     best_matching_step=int(np.argmin(cand))))
    book.ratio(worst / tol)
    return worst


def _check_fields(book, api, model, fields, steps, dt, det):
    worst = 0.0
    for f, k in zip(fields, steps):
        dev = abs(complex(f) - model.field(float(exact_time(0.0, dt, k))))
        worst = max(worst, dev)
        book.count("fields_aligned")
        if not dev <= FIELD_TOL:
            book.violation(
                f"{api}: the field stored for step {k} deviates from the "
                f"exact field of that time by {dev:.3e}",
                "misaligned-field:" + api,
                dict(det, step=k, deviation=dev, bound=FIELD_TOL))
    book.ratio(worst / FIELD_TOL)
    return worst


def _e2e_point(book, dt, start, end, n, m, tag, apis, shortcut):
    """Run the requested APIs for one (start, end, dt)."""
    import oqupy
    model = Model(start, dt, n)
    bath = _bath()
    par = _params(dt)
    det = {"dt": dt, "start": start, "end": end, "m": m, "variant": tag,
           "expected_steps": n, "float_quotient": (end - start) / dt}
    worst = 0.0
    tdsys = oqupy.TimeDependentSystem(model.hamiltonian)
    cont = bool(n >= 2 and m % 3 == 1)
    t_mid = float(exact_time(start, dt, n // 2)) + 0.3 * dt
    if "tempo" in apis:
        if shortcut:
            dyn = oqupy.tempo_compute(tdsys, bath, RHO0, start, end, par,
                                      progress_type="silent")
        elif cont:
            # the interval reached in two calls, with a look at the times
            # recorded so far in between
            tmp = oqupy.Tempo(tdsys, bath, par, RHO0, start)
            d1 = tmp.compute(t_mid, progress_type="silent")
            if len(d1.times) != n // 2 + 1 or len(d1.states) != n // 2 + 1:
                book.violation(
                    f"tempo: compute({t_mid!r}) leaves {len(d1.times)} "
                    f"times / {len(d1.states)} states, expected "
                    f"{n // 2 + 1}", "length:tempo", dict(det, mid=t_mid))
            dyn = tmp.compute(end, progress_type="silent")
            book.cell("continued-after-reading-times")
        else:
            dyn = oqupy.Tempo(tdsys, bath, par, RHO0, start).compute(
                end, progress_type="silent")
        book.cell("api:tempo")
        steps = _check_labels(book, "tempo", dyn.times, start, dt, n, True,
                              det)
        if len(dyn) != len(dyn.times) or len(dyn.states) != len(dyn.times):
            book.violation("tempo: len(dynamics), number of states and "
                           "number of times differ",
                           "length:tempo", dict(det, len=len(dyn)))
        worst = max(worst, _check_states(book, "tempo", model, dyn.states,
                                         steps, start, dt, det))
    mfs = None
    if "meanfield" in apis or "with_field" in apis:
        mfs = oqupy.MeanFieldSystem(
            [oqupy.TimeDependentSystemWithField(model.hamiltonian_field)],
            model.field_eom)
    if "meanfield" in apis:
        mft = oqupy.MeanFieldTempo(mfs, [bath], par, [RHO0], FIELD0,
                                   start_time=start)
        if cont:
            m1 = mft.compute(t_mid, progress_type="silent")
            seen = [len(m1.times), len(m1.fields),
                    len(m1.system_dynamics[0].times)]
            if seen != [n // 2 + 1] * 3:
                book.violation(
                    f"meanfield: compute({t_mid!r}) leaves {seen} times / "
                    f"fields / system times, expected {n // 2 + 1}",
                    "length:meanfield", dict(det, mid=t_mid))
            book.cell("continued-after-reading-times")
        md = mft.compute(end, progress_type="silent")
        book.cell("api:meanfield")
        steps = _check_labels(book, "meanfield", md.times, start, dt, n,
                              True, det)
        if len(md) != len(md.times) or len(md.fields) != len(md.times):
            book.violation("meanfield: lengths of dynamics, times and "
                           "fields differ", "length:meanfield",
                           dict(det, len=len(md), fields=len(md.fields)))
        _check_fields(book, "meanfield", model, md.fields, steps, dt, det)
        sd = md.system_dynamics[0]
        steps2 = _check_labels(book, "meanfield", sd.times, start, dt, n,
                               True, det)
        worst = max(worst, _check_states(book, "meanfield", model, sd.states,
                                         steps2, start, dt, det))
    pt_apis = [a for a in apis if a in ("pttempo", "compute_dynamics",
                                        "with_field", "gradient")]
    if not pt_apis:
        return worst
    # -- the process tensor of the same interval
    try:
        if shortcut:
            pt = oqupy.pt_tempo_compute(bath, start, end, par,
                                        progress_type="silent")
        else:
            pt = oqupy.PtTempo(bath, start, end, par).get_process_tensor(
                progress_type="silent")
    except AssertionError as exc:
        if n < 2:
            book.cell("pttempo-refuses-n<2")
            return worst
        book.violation(
            f"PtTempo refuses the interval {start!r}..{end!r} with "
            f"dt={dt!r} which holds {n} steps: {exc}",
            "step-count:pttempo", dict(det))
        return worst
    if n < 2:
        return worst      # accepted although outside its domain: not judged
    book.cell("api:pttempo")
    length = len(pt)
    if length != n:
        book.violation(
            f"process tensor for {start!r}..{end!r} with dt={dt!r} has "
            f"length {length}, expected {n}", "length:pttempo",
            dict(det, got=length))
    if pt.dt != dt:
        book.violation(f"process tensor dt {pt.dt!r} != {dt!r}",
                       "pt-dt", dict(det, got=pt.dt))
    # downstream APIs: L = len(pt) steps must give L+1 states (or the last)
    for ra in (True, False):
        ratag = "all" if ra else "final"
        if "compute_dynamics" in apis:
            dyn = oqupy.compute_dynamics(
                tdsys, RHO0, start_time=start, process_tensor=pt,
                record_all=ra, subdiv_limit=None, progress_type="silent")
            book.cell("api:compute_dynamics:" + ratag)
            api = "compute_dynamics:" + ratag
            steps = _check_labels(book, api, dyn.times, start, dt, length,
                                  ra, det)
            worst = max(worst, _check_states(book, api, model, dyn.states,
                                             steps, start, dt, det))
        if "with_field" in apis:
            md = oqupy.compute_dynamics_with_field(
                mfs, FIELD0, process_tensor_list=[pt],
                initial_state_list=[RHO0], start_time=start, record_all=ra,
                subdiv_limit=None, progress_type="silent")
            book.cell("api:with_field:" + ratag)
            api = "with_field:" + ratag
            steps = _check_labels(book, api, md.times, start, dt, length, ra,
                                  det)
            _check_fields(book, api, model, md.fields, steps, dt, det)
            sd = md.system_dynamics[0]
            steps2 = _check_labels(book, api, sd.times, start, dt, length,
                                   ra, det)
            worst = max(worst, _check_states(book, api, model, sd.states,
                                             steps2, start, dt, det))
        if "gradient" in apis:
            psys = oqupy.ParameterizedSystem(lambda x: x * 0.5 * SZ)
            _, dyn = oqupy.compute_gradient_and_dynamics(
                psys, RHO0, RHO1.T, [pt],
                model.half_step_parameters(length), start_time=start,
                record_all=ra, progress_type="silent")
            book.cell("api:gradient:" + ratag)
            api = "gradient:" + ratag
            steps = _check_labels(book, api, dyn.times, start, dt, length,
                                  ra, det)
            worst = max(worst, _check_states(book, api, model, dyn.states,
                                             steps, start, dt, det))
            if ra and m % 2 == 1:
                # the front end of the same routine
                res = oqupy.state_gradient(
                    psys, RHO0, RHO1.T, [pt],
                    model.half_step_parameters(length), start_time=start,
                    progress_type="silent")
                book.cell("api:state_gradient")
                steps = _check_labels(book, "gradient:all",
                                      res["dynamics"].times, start, dt,
                                      length, True,
                                      dict(det, front_end="state_gradient"))
                worst = max(worst, _check_states(
                    book, "gradient:all", model, res["dynamics"].states,
                    steps, start, dt, det))
    # -- an (infinite) TrivialProcessTensor next to the real one, in either
    #    order: the length is still that of the finite process tensor
    if "compute_dynamics" in apis and m % 2 == 0:
        for plist in ([pt, oqupy.TrivialProcessTensor(2)],
                      [oqupy.TrivialProcessTensor(2), pt]):
            for ra in (True, False):
                dyn = oqupy.compute_dynamics(
                    tdsys, RHO0, start_time=start, process_tensor=plist,
                    record_all=ra, subdiv_limit=None, progress_type="silent")
                book.cell("with-trivial-process-tensor")
                steps = _check_labels(
                    book, "compute_dynamics:" + ("all" if ra else "final"),
                    dyn.times, start, dt, length, ra,
                    dict(det, trivial_pt_in_list=True))
                worst = max(worst, _check_states(
                    book, "compute_dynamics:" + ("all" if ra else "final"),
                    model, dyn.states, steps, start, dt, det))
    # -- only the first k steps of a longer process tensor (k = 0: the
    #    initial state alone, labelled start), and no process tensor at all
    if "compute_dynamics" in apis:
        for k in sorted({0, 1, min(3, length)}):
            for ra in (True, False):
                ratag = "all" if ra else "final"
                for with_pt in (True, False):
                    kw = dict(process_tensor=pt) if with_pt else dict(dt=dt)
                    dyn = oqupy.compute_dynamics(
                        tdsys, RHO0, start_time=start, num_steps=k,
                        record_all=ra, subdiv_limit=None,
                        progress_type="silent", **kw)
                    api = "compute_dynamics:" + ratag
                    book.cell("num_steps:%s" % ("0" if k == 0 else ">0"))
                    steps = _check_labels(book, api, dyn.times, start, dt, k,
                                          ra, dict(det, num_steps=k,
                                                   with_pt=with_pt))
                    if with_pt:
                        worst = max(worst, _check_states(
                            book, api, model, dyn.states, steps, start, dt,
                            det))
        if "with_field" in apis:
            for k in (0, 1):
                md = oqupy.compute_dynamics_with_field(
                    mfs, FIELD0, process_tensor_list=[pt],
                    initial_state_list=[RHO0], start_time=start,
                    num_steps=k, subdiv_limit=None, progress_type="silent")
                book.cell("num_steps:%s" % ("0" if k == 0 else ">0"))
                steps = _check_labels(book, "with_field:all", md.times,
                                      start, dt, k, True,
                                      dict(det, num_steps=k))
                _check_fields(book, "with_field:all", model, md.fields,
                              steps, dt, det)
        # -- the same process tensor after export and import: same dt (to the
        #    last bit), same labels
        if m % 3 == 0:
            import os
            import tempfile
            tmpd = tempfile.mkdtemp(prefix="vp_c13_")
            try:
                fn = os.path.join(tmpd, "pt.hdf5")
                pt.export(fn)
                for how in ("file", "simple"):
                    pt2 = oqupy.import_process_tensor(fn, how)
                    book.cell("reimported-pt:" + how)
                    if pt2.dt != dt:
                        book.violation(
                            f"process tensor re-imported as {how!r} reports "
                            f"dt {pt2.dt!r}, written with {dt!r}", "pt-dt",
                            dict(det, got=pt2.dt))
                    dyn = oqupy.compute_dynamics(
                        tdsys, RHO0, start_time=start, process_tensor=pt2,
                        subdiv_limit=None, progress_type="silent")
                    _check_labels(book, "compute_dynamics:all", dyn.times,
                                  start, dt, length, True,
                                  dict(det, reimported=how))
                    if hasattr(pt2, "close"):
                        pt2.close()
            finally:
                import shutil
                shutil.rmtree(tmpd, ignore_errors=True)
    return worst


ALL_APIS = ("tempo", "meanfield", "pttempo", "compute_dynamics",
            "with_field", "gradient")


def run_e2e(case):
    dt, start = case["dt"], case["start"]
    book = Book()
    worst = 0.0
    minsep = float("inf")
    nsens = 0
    nband = 0
    for m in case["ms"]:
        variants = end_variants(start, dt, m)
        f = (OFF_EDGE + OFF_MID)[(m + case["dti"]) % 8]
        variants.append(("offgrid", start + (m + f) * dt))
        first = True
        for tag, end in variants:
            cls, n = oracle_steps(start, end, dt)
            if cls == "band" or n < 0:
                nband += 1
                continue
            if first and case["tier"] == "quick" and not case.get("beyond"):
                # quick tier: the three float->steps paths of the direct
                # methods at every lattice point, the consumers in rotation
                apis = ("tempo", "pttempo", "compute_dynamics") + (
                    ("meanfield",), ("with_field",), ("gradient",)
                )[(m + case["sti"]) % 3]
            elif first:
                apis = ALL_APIS
            elif case["tier"] == "quick" or case.get("beyond"):
                # further ends of the same lattice point: the float->steps
                # paths in rotation (all of them were observed at the hooks)
                apis = (("tempo",), ("meanfield",),
                        ("pttempo", "compute_dynamics"),
                        ("tempo", "pttempo"))[(m + len(tag)) % 4]
            elif tag == "offgrid":
                apis = ("tempo", "pttempo",
                        ("compute_dynamics", "with_field", "gradient",
                         "meanfield")[m % 4])
            else:
                apis = ("tempo", "meanfield", "pttempo", "compute_dynamics")
            first = False
            sens = _sensitive(start, end, dt, n)
            nsens += sens
            book.cell("end:" + tag)
            book.cell("e2e:m>30" if m > M_E2E else "e2e:m<=30")
            if sens:
                book.cell("e2e:quotient-below-integer")
            shortcut = bool((m + case["sti"]) % 2)
            worst = max(worst, _e2e_point(book, dt, start, end, n, m, tag,
                                          apis, shortcut))
            if n >= 1:
                minsep = min(minsep, Model(start, dt, n).separation(n))
    sig = ("e2e", case["dti"], repr(dt), repr(start), tuple(case["ms"]))
    return book.result(
        nontrivial=(minsep >= 100 * STATE_TOL and minsep < float("inf")),
        signature=str(sig),
        obs={"state_dev": worst,
             "min_neighbour_separation_over_bound":
                 (minsep / STATE_TOL if minsep < float("inf") else 0.0),
             "points_in_unjudged_band": nband,
             "points_where_truncation_would_fail": nsens},
        sample={"kind": "e2e", "dt": dt, "start": start, "ms": case["ms"],
                "literal_of_last": format(
                    literal_decimal(start, dt, case["ms"][-1]), "f"),
                "state_dev": worst})


# --------------------------------------------------------------------------
# PT-TEBD

def run_tebd(case):
    import oqupy
    dt, start = case["dt"], case["start"]
    book = Book()
    worst = 0.0
    minsep = float("inf")
    for q, n in enumerate(case["ns"]):
        idx = case["idx"] + q
        total = n * dt
        w0, w1 = 2.4 / total, 1.1 / total
        jj = (0.4 / total) if idx % 2 else 0.0
        start_step = 3 if idx % 3 == 1 else 0
        with_pt = bool(idx % 4 == 2 and n >= 2)
        chain = oqupy.SystemChain([2, 2])
        chain.add_site_hamiltonian(0, 0.5 * w0 * SZ)
        chain.add_site_hamiltonian(1, 0.5 * w1 * SZ)
        if jj:
            chain.add_nn_hamiltonian(0, jj * SZ, SZ)
        pts = [None, None]
        if with_pt:
            start_step = 0
            pts[0] = oqupy.pt_tempo_compute(
                _bath(), start, start + (n + 0.5) * dt, _params(dt),
                progress_type="silent")
            book.cell("tebd:with-process-tensor")
        prm = oqupy.PtTebdParameters(dt=dt, epsrel=TEBD_EPSREL, order=2)
        tebd = oqupy.PtTebd(
            oqupy.AugmentedMPS([RHO0, RHO1]), chain, pts, prm,
            start_time=start, start_step=start_step, dynamics_sites=[0, 1])
        if idx % 5 in (2, 3):
            # the caller goes on to its next configuration with the same
            # (mutable) parameter object: the grid of this computation is
            # the one it was set up with
            prm.dt = 2.5 * dt
            book.cell("tebd:caller-parameters-reused-afterwards")
        if idx % 2 and n >= 2:
            # reached in two calls with a look at the current chain state and
            # at the times recorded so far in between (must not shift what
            # is recorded under which label)
            r1 = tebd.compute(start_step + n // 2, progress_type="silent")
            tebd.get_current_density_matrix(idx % 2)
            tebd.get_current_density_matrix((0, 1))
            seen = [len(r1["dynamics"][s_].times) for s_ in (0, 1)]
            if seen != [n // 2 + 1] * 2:
                book.violation(
                    f"pttebd: after the first {n // 2} steps the site "
                    f"dynamics show {seen} times", "length:pttebd",
                    {"dt": dt, "start": start, "steps": n})
            if idx % 5 == 3:
                prm.dt = 0.4 * dt
            book.cell("tebd:query-between-computes")
        res = tebd.compute(start_step + n, progress_type="silent")
        book.cell("api:pttebd")
        if start_step:
            book.cell("tebd:start_step>0")
        det = {"dt": dt, "start": start, "steps": n,
               "start_step": start_step, "nn_coupling": jj != 0.0}

        def site_state(site, tau):
            r_self, r_other, w = ((RHO0, RHO1, w0) if site == 0
                                  else (RHO1, RHO0, w1))
            fac = np.exp(-1j * w * tau) * (
                r_other[0, 0] * np.exp(-2j * jj * tau)
                + r_other[1, 1] * np.exp(2j * jj * tau))
            r = r_self.copy()
            r[0, 1] = r_self[0, 1] * fac
            r[1, 0] = np.conj(r[0, 1])
            return r

        steps = _check_labels(book, "pttebd", res["time"], start, dt, n,
                              True, det)
        for key in ("norm", "bond_dimensions"):
            if len(res[key]) != len(res["time"]):
                book.violation(
                    f"pttebd: results['{key}'] has {len(res[key])} entries, "
                    f"results['time'] {len(res['time'])}", "length:pttebd",
                    dict(det, key=key))
        for site in (0, 1):
            dyn = res["dynamics"][site]
            st2 = _check_labels(book, "pttebd", dyn.times, start, dt, n,
                                True, det)
            if len(dyn.times) != len(dyn.states) or len(dyn) != len(dyn.times):
                book.violation(
                    f"pttebd: site {site} dynamics has {len(dyn.times)} "
                    f"times, {len(dyn.states)} states, len {len(dyn)}",
                    "length:pttebd", dict(det, site=site))
            for st, k in zip(dyn.states, st2):
                tau = float(exact_time(0.0, dt, k))
                dev = float(np.abs(st - site_state(site, tau)).max())
                worst = max(worst, dev)
                book.count("states_aligned")
                if not dev <= TEBD_TOL:
                    book.violation(
                        f"pttebd: state of site {site} stored for step {k} "
                        f"deviates from the exact state of that time by "
                        f"{dev:.3e}", "misaligned-state:pttebd",
                        dict(det, site=site, step=k, deviation=dev,
                             bound=TEBD_TOL))
            seps = [float(np.abs(site_state(site, (k + 1) * dt)
                                 - site_state(site, k * dt)).max())
                    for k in range(n)]
            minsep = min(minsep, min(seps))
        book.ratio(worst / TEBD_TOL)
    sig = ("tebd", case["dti"], repr(dt), repr(start), tuple(case["ns"]))
    return book.result(
        nontrivial=(minsep >= 100 * TEBD_TOL and minsep < float("inf")),
        signature=str(sig),
        obs={"tebd_state_dev": worst},
        sample={"kind": "tebd", "dt": dt, "start": start, "ns": case["ns"],
                "state_dev": worst})


def run_container(case):
    """The dynamics containers themselves: entries given or added in any
    order come out sorted by time with every state (and field) still next to
    ITS time - also when two computed dynamics with interleaved grids are
    merged entry by entry."""
    import oqupy
    i = case["idx"]
    rng = gen.rng_for(case["seed"], "c13cont", i)
    book = Book()
    n = int(rng.integers(4, 12))
    times = sorted({round(float(t), 6) for t in rng.uniform(-2, 5, size=n)})
    n = len(times)

    def st(t, d=2):
        return np.array([[t, 1j * t], [-1j * t, 1 - t]], dtype=complex)[:d, :d]

    def fld(t):
        return complex(2 * t + 1, -t)
    order = [int(x) for x in rng.permutation(n)]
    mode = ["add-shuffled", "constructor-unsorted", "merge-two-runs"][i % 3]
    book.cell("container:" + mode)
    if mode == "constructor-unsorted":
        dyn = oqupy.Dynamics(times=[times[k] for k in order],
                             states=[st(times[k]) for k in order])
        mfd = oqupy.MeanFieldDynamics(
            times=[times[k] for k in order],
            system_states_list=[[st(times[k]), st(times[k])] for k in order],
            fields=[fld(times[k]) for k in order])
    else:
        dyn = oqupy.Dynamics()
        mfd = oqupy.MeanFieldDynamics()
        seq = order
        if mode == "merge-two-runs":
            # two runs on interleaved grids: all even entries, then all odd
            seq = list(range(0, n, 2)) + list(range(1, n, 2))
        for k in seq:
            dyn.add(times[k], st(times[k]))
            mfd.add(times[k], [st(times[k]), st(times[k])], fld(times[k]))
    det = {"mode": mode, "n": n}
    for name, tt in (("Dynamics", dyn.times), ("MeanFieldDynamics",
                                                mfd.times)):
        tt = [float(x) for x in tt]
        if tt != times:
            book.violation(f"{name} ({mode}): times are {tt}, expected the "
                           f"sorted list {times}", "container-times",
                           dict(det, got=tt))
    for k, t in enumerate(dyn.times):
        book.count("states_aligned")
        if np.abs(np.array(dyn.states)[k] - st(float(t))).max() > 1e-12:
            book.violation(f"Dynamics ({mode}): the state stored next to "
                           f"time {float(t)} is not the one given for it",
                           "container-misaligned", dict(det, index=k))
            break
    for k, t in enumerate(mfd.times):
        book.count("fields_aligned")
        if abs(complex(mfd.fields[k]) - fld(float(t))) > 1e-12:
            book.violation(
                f"MeanFieldDynamics ({mode}): the field recorded at time "
                f"{float(t)} is {complex(mfd.fields[k])}, the field given "
                f"for that time is {fld(float(t))}", "container-misaligned",
                dict(det, index=k))
            break
        for sd in mfd.system_dynamics:
            if len(sd.times) != len(mfd.times) or np.abs(
                    np.array(sd.states)[k] - st(float(t))).max() > 1e-12:
                book.violation(
                    f"MeanFieldDynamics ({mode}): a system state next to "
                    f"time {float(t)} is not the one given for it",
                    "container-misaligned", dict(det, index=k))
                break
    return book.result(nontrivial=order != sorted(order),
                       signature=f"container-{mode}-{i}", obs={},
                       sample={"kind": "container", "mode": mode, "n": n})


def run_case(case):
    if case["kind"] == "container":
        return run_container(case)
    if case["kind"] == "hook":
        return run_hook(case)
    if case["kind"] == "e2e":
        return run_e2e(case)
    return run_tebd(case)
