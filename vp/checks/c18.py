"""C18 - control operations act at the stated time, side of measurement and
order.

Reference monitors R4/R6 with the stated semantics: a control for step k acts
exactly once, before the recorded state (pre) or after it (post); float times
act at the nearest step; identity controls change nothing; controls stacked on
the same key act in the order they were added - for single systems
(compute_dynamics with and without environments) and for chains (PtTebd +
ChainControl, every site).

Interpretation fixed in DESIGN: order of addition is judged for controls
registered under the same key (same int step or same float time, same side,
same site); stacks that mix int-step and float-time keys are not generated.
"""
import itertools

import numpy as np
from scipy.linalg import expm

from vp import gen, scen
from vp.ref import ancilla, chain, models

ID = "C18"
LEVEL = "exploration"
BATCH = 10
CASE_TIMEOUT = 200
TOL = 1e-10
RULE = ("single systems: every (step 0..N, pre/post, int/float spec, stack "
        "1..3, kind in unitary/channel/non-TP/identity) on random dissipative "
        "systems with 0..2 ancilla environments; chains of 2..4 sites "
        "(uncoupled with ancilla/none, two-site coupled, commuting ZZ chains) "
        "with ChainControl on every site. Non-trivial iff the control changes "
        "a recorded state by >=1e-2 (identity cases: the no-control run is "
        "the oracle); distinct = (system/chain, step class, side, spec, "
        "stack, kind, site)")
ASSUMPTIONS = ["dense joint models are independent code",
               "mixed int/float stacks on one step are not judged"]


def required_cells(tier):
    return {"single": 20, "chain": 10, "step:first": 4, "step:last": 4,
            "side:pre": 8, "side:post": 8, "spec:float": 6, "stack:2": 4,
            "stack:3": 3, "kind:identity": 3, "kind:nontp": 3,
            "chain:coupled2": 2, "chain:commuting": 2, "chain:uncoupled": 3,
            "chain-site:last": 2, "record_all:False": 5,
            "control:extended-after-use": 4,
            "chain:interleaved-additions": 3, "kind:weak": 3,
            "chain:weak-control": 3, "chain:stepped-manual": 3,
            "chain:stepped-mixed": 3, "chain:stepped-twoleg": 3,
            "chain:stepped-rerun": 3, "route:gradient": 5,
            "route:meanfield": 3, "post-flag:numpy.bool_": 5,
            "mix:identity-other-spec-same-step": 5,
            "control-outside-window": 5,
            "mix:identity-other-side-same-float-time": 4,
            "post-flag:int": 5}


def cases(tier, seed):
    out = []
    # single systems: enumerate step x side x spec systematically
    ns = 3 if tier == "quick" else 24
    for rep in range(ns):
        idx = 0
        for nsteps in (3, 4):
            for step in range(nsteps + 1):
                for post in (False, True):
                    for spec in ("int", "float"):
                        out.append({"kind": "single", "seed": seed,
                                    "idx": len(out), "N": nsteps,
                                    "step": step, "post": post, "spec": spec,
                                    "rep": rep, "tier": tier})
    nc = 60 if tier == "quick" else 600
    for i in range(nc):
        out.append({"kind": "chain", "seed": seed, "idx": i, "tier": tier})
    return out


def run_single(case):
    import oqupy
    i = case["idx"]
    rng = gen.rng_for(case["seed"], "c18s", i)
    d = 2 if i % 3 else 3
    nsteps, step, post, spec = case["N"], case["step"], case["post"], \
        case["spec"]
    dt = float(rng.choice([0.1, 0.2]))
    start = [0.0, -0.3, 1.7][i % 3]
    nenv = [0, 1, 1, 2][i % 4]
    envs = [ancilla.random_env(rng, d, 2, ["unitary", "channel"][j % 2])
            for j in range(nenv)]
    pts = [ancilla.build_process_tensor(e, nsteps, dt=dt) for e in envs]
    sysd = scen.random_system(rng, d, "td" if i % 5 == 4 else "const")
    subdiv = None if sysd["td"] else 256
    hp = scen.halfprops(sysd, dt, start, subdiv)
    rho0 = gen.rand_state(rng, d)
    stack = [1, 2, 1, 3][(i // 2) % 4]
    kinds_all = ["unitary", "channel", "nontp", "identity", "unitary", "left",
                 "weak"]
    kinds = [kinds_all[(i + s) % len(kinds_all)] for s in range(stack)]
    if stack > 1:
        kinds = [k if k != "identity" else "unitary" for k in kinds]
    sups = [scen.random_superop(rng, d, k) for k in kinds]
    ctrl = oqupy.Control(d)
    off = float(rng.uniform(-0.4, 0.4))
    tkey = float(start + (step + off) * dt)
    # the flag as a caller may hold it: a Python bool, a numpy bool taken
    # from a boolean array / comparison, or 0/1
    flag_kind = ["bool", "numpy.bool_", "bool", "int"][(i // 3) % 4]
    post_flag = {"bool": bool(post), "numpy.bool_": np.bool_(post),
                 "int": int(post)}[flag_kind]
    for s in sups:
        if spec == "float":
            ctrl.add_single(tkey, s, post=post_flag)
        else:
            ctrl.add_single(int(step), s, post=post_flag)
    # identity controls change nothing - also when given in the OTHER way
    # (float time vs int step) for the same step and side, or for the other
    # side at exactly the same float time
    ident_sup = np.eye(d * d, dtype=complex)
    mixk = (i // 2) % 5
    if mixk == 1:
        if spec == "float":
            ctrl.add_single(int(step), ident_sup, post=post_flag)
        else:
            ctrl.add_single(tkey, ident_sup, post=post_flag)
        extra_mix = "identity-other-spec-same-step"
    elif mixk == 2 and spec == "float":
        ctrl.add_single(tkey, ident_sup, post=not post)
        extra_mix = "identity-other-side-same-float-time"
    elif mixk == 3 and spec == "float":
        # identity first, then nothing else changes either
        ctrl.add_single(float(tkey), ident_sup, post=not post)
        ctrl.add_single(int(step), ident_sup, post=post_flag)
        extra_mix = "identity-other-side-same-float-time"
    else:
        extra_mix = None
    # controls stamped with float times outside the computed window (more
    # than half a step before the start / after the end) belong to no step
    # of this computation and never act
    outside = None
    if i % 4 == 3:
        kick_out = scen.random_superop(rng, d, "unitary")
        t_out = [start - 0.8 * dt, start - 1.3 * dt,
                 start + (nsteps + 0.7) * dt][(i // 4) % 3]
        ctrl.add_single(float(t_out), kick_out, post=bool((i // 12) % 2))
        outside = t_out
    # a second, unrelated control elsewhere (must not interfere)
    other = None
    if i % 3 == 0 and nsteps >= 3:
        ostep = (step + 2) % (nsteps + 1)
        opost = bool(i % 2) and ostep < nsteps
        other = (ostep, opost, scen.random_superop(rng, d, "unitary"))
        ctrl.add_single(int(ostep), other[2], post=opost)
    def schedule(stack_sups, as_post):
        pr, po = {}, {}
        (po if as_post else pr).setdefault(step, []).extend(stack_sups)
        if other is not None:
            (po if other[1] else pr).setdefault(other[0], []).append(other[2])
        return pr, po
    pre, postd = schedule(sups, post)
    kw = dict(process_tensor=pts if pts else None, control=ctrl,
              start_time=start, progress_type="silent", subdiv_limit=subdiv)
    if not pts:
        kw.update(dt=dt, num_steps=nsteps)
    dyn = oqupy.compute_dynamics(sysd["oq"], rho0, **kw)
    ref = ancilla.dense_dynamics(d, envs, rho0, nsteps, hp, pre, postd)
    noctrl = ancilla.dense_dynamics(d, envs, rho0, nsteps, hp)
    states = np.array(dyn.states)
    violations = []
    err = float("inf")
    if states.shape != ref.shape:
        violations.append({"what": "lengths differ", "mechanism": "length",
                           "detail": {}})
    else:
        errs = np.abs(states - ref).max(axis=(1, 2))
        err = float(errs.max())
        if err > TOL:
            k = int(np.argmax(errs > TOL))
            # diagnose: which alternative semantics does the library follow?
            alt = {}
            tests = {"reversed-stack-order": schedule(list(reversed(sups)),
                                                      post)}
            if step < nsteps:
                tests["other-side"] = schedule(sups, not post)
            for name, (p2, q2) in tests.items():
                r2 = ancilla.dense_dynamics(d, envs, rho0, nsteps, hp, p2, q2)
                alt[name] = float(np.abs(states - r2).max())
            mech = "control-semantics"
            for name, dev in alt.items():
                if dev < 1e-9:
                    mech = "control-" + name
            violations.append({
                "what": f"compute_dynamics with {stack} {kinds} control(s) at "
                        f"step {step} ({'post' if post else 'pre'}, {spec}) "
                        f"differs from the stated semantics by {errs[k]:.3e} "
                        f"first at recorded step {k}",
                "mechanism": mech, "detail": {"errs": errs, "alt": alt}})
    # the other routines that take a Control follow the same rules: the
    # forward pass of the gradient computation and the mean-field routine
    # (two field-independent systems, each with its own control schedule)
    extra_routes = []
    if not violations and not sysd["td"] and pts and i % 2 == 0:
        h0, g0, a0 = sysd["h0"], sysd["g0"], sysd["a0"]
        psys = oqupy.ParameterizedSystem(
            lambda x: h0 + 0.0 * x,
            [(lambda x, g=g: g + 0.0 * x) for g in g0],
            [(lambda x, a=a: a + 0.0 * x) for a in a0])
        _, gdyn = oqupy.compute_gradient_and_dynamics(
            psys, rho0, np.eye(d, dtype=complex), pts,
            np.zeros((2 * nsteps, 1)), control=ctrl, start_time=start,
            progress_type="silent")
        gs = np.array(gdyn.states)
        eg = float(np.abs(gs - ref).max()) if gs.shape == ref.shape \
            else float("inf")
        extra_routes.append("gradient")
        err = max(err, eg)
        if not eg <= 1e-9:
            kbad = int(np.argmax(np.abs(gs - ref).max(axis=(1, 2)) > 1e-9)) \
                if gs.shape == ref.shape else -1
            violations.append({
                "what": f"compute_gradient_and_dynamics (forward dynamics) "
                        f"with {stack} {kinds} control(s) at step {step} of "
                        f"{nsteps} ({'post' if post else 'pre'}, {spec}) "
                        f"differs from the stated semantics by {eg:.3e} "
                        f"first at recorded step {kbad}",
                "mechanism": "control-semantics:gradient", "detail": {}})
    if not violations and not sysd["td"] and len(pts) == 1 and i % 4 == 1:
        h0, g0, a0 = sysd["h0"], sysd["g0"], sysd["a0"]

        def fsys():
            return oqupy.TimeDependentSystemWithField(
                lambda t, a: h0, [(lambda t, g=g: g) for g in g0],
                [(lambda t, a=a: a) for a in a0])
        mfs = oqupy.MeanFieldSystem([fsys(), fsys()],
                                    field_eom=lambda t, states, a: 0.0)
        # the second system: another control at another step
        stepb = (step + 1) % (nsteps + 1)
        postb = bool(i % 8 == 1) and stepb < nsteps
        supb = scen.random_superop(rng, d, "unitary")
        ctrlb = oqupy.Control(d)
        ctrlb.add_single(int(stepb), supb, post=postb)
        mdyn = oqupy.compute_dynamics_with_field(
            mfs, 0.1 + 0.2j, process_tensor_list=[pts[0], pts[0]],
            initial_state_list=[rho0, rho0], control_list=[ctrl, ctrlb],
            start_time=start, progress_type="silent")
        prb, pob = ({}, {stepb: [supb]}) if postb else ({stepb: [supb]}, {})
        refb = ancilla.dense_dynamics(d, envs, rho0, nsteps, hp, prb, pob)
        extra_routes.append("meanfield")
        for which, r_ in ((0, ref), (1, refb)):
            ms = np.array(mdyn.system_dynamics[which].states)
            em = float(np.abs(ms - r_).max()) if ms.shape == r_.shape \
                else float("inf")
            err = max(err, em)
            if not em <= 1e-9:
                violations.append({
                    "what": f"compute_dynamics_with_field: system {which} of "
                            f"two (each with its own control list) differs "
                            f"from the stated semantics of ITS controls by "
                            f"{em:.3e}",
                    "mechanism": "control-semantics:meanfield",
                    "detail": {}})
    # record_all=False: the single returned state is the final one of the
    # full run (controls act whether or not intermediate states are recorded)
    if not violations and i % 3 == 1:
        kw2 = dict(kw, record_all=False)
        dynf = oqupy.compute_dynamics(sysd["oq"], rho0, **kw2)
        sf = np.array(dynf.states)
        ef = float(np.abs(sf[-1] - ref[-1]).max()) if sf.shape[0] == 1 \
            else float("inf")
        err = max(err, ef)
        if not ef <= TOL:
            violations.append({
                "what": f"record_all=False: final state differs from the "
                        f"stated semantics by {ef:.3e} ({stack} {kinds} "
                        f"control(s) at step {step}, "
                        f"{'post' if post else 'pre'}, {spec}; "
                        f"{sf.shape[0]} states returned)",
                "mechanism": "control-record-all-false", "detail": {}})
    # history: the same Control object is extended after it was used and is
    # used again (also on another time grid)
    extra_cells = []
    if not violations and i % 3 == 2 and nsteps >= 3:
        extra_cells.append("control:extended-after-use")
        s2 = scen.random_superop(rng, d, "unitary")
        step2 = (step + 1) % (nsteps + 1)
        post2 = bool(i % 2) and step2 < nsteps
        off2 = float(rng.uniform(-0.3, 0.3))
        if i % 2:
            ctrl.add_single(float(start + (step2 + off2) * dt), s2,
                            post=post2)
        else:
            ctrl.add_single(int(step2), s2, post=post2)
        pre2 = {k: list(v) for k, v in pre.items()}
        post2d = {k: list(v) for k, v in postd.items()}
        (post2d if post2 else pre2).setdefault(step2, []).append(s2)
        dyn2 = oqupy.compute_dynamics(sysd["oq"], rho0, **kw)
        ref2 = ancilla.dense_dynamics(d, envs, rho0, nsteps, hp, pre2, post2d)
        e2 = float(np.abs(np.array(dyn2.states) - ref2).max())
        err = max(err, e2)
        if not e2 <= TOL:
            violations.append({
                "what": f"a Control extended after it had been used: second "
                        f"computation differs from the stated semantics by "
                        f"{e2:.3e} (added {'float' if i % 2 else 'int'} key "
                        f"at step {step2}, {'post' if post2 else 'pre'})",
                "mechanism": "control-stale-after-extension", "detail": {}})
    effect = float(np.abs(ref - noctrl).max())
    cells = ["single", "side:" + ("post" if post else "pre"), "spec:" + spec,
             f"stack:{stack}"] + ["kind:" + k for k in set(kinds)]
    if step == 0:
        cells.append("step:first")
    if step == nsteps:
        cells.append("step:last")
    cells += extra_cells
    cells += ["route:" + r for r in extra_routes]
    if extra_mix:
        cells.append("mix:" + extra_mix)
    if outside is not None:
        cells.append("control-outside-window")
    cells.append("post-flag:" + flag_kind)
    if i % 3 == 1:
        cells.append("record_all:False")
    ident = kinds == ["identity"] or kinds == ["weak"]
    sig = ("single", nenv, step == 0, step == nsteps, post, spec, stack,
           tuple(kinds), sysd["td"])
    return {"violations": violations, "cells": cells,
            "monitors": {"steps_compared": int(ref.shape[0])},
            "nontrivial": effect >= 1e-2 or ident or (post and step == nsteps),
            "signature": str(sig), "maxratio": err / TOL,
            "obs": {"err": err, "effect": effect},
            "sample": gen.nice({"kind": "single", "d": d, "N": nsteps,
                                "step": step, "post": post, "spec": spec,
                                "time_key": tkey if spec == "float" else step,
                                "stack": kinds, "envs": nenv, "dt": dt,
                                "start": start, "err": err})}


def run_chain(case):
    import oqupy
    i = case["idx"]
    rng = gen.rng_for(case["seed"], "c18c", i)
    ctype = ["uncoupled", "coupled2", "commuting", "uncoupled"][i % 4]
    nsteps = int(rng.integers(2, 5))
    dt = float(rng.choice([0.1, 0.2]))
    order = 1 + i % 2
    if ctype == "coupled2":
        dims = [2, 3] if i % 8 < 4 else [2, 2]
    elif ctype == "commuting":
        dims = [2] * int(rng.integers(3, 5))
    else:
        dims = [[2, 3], [2, 2, 2], [3, 2], [2, 2, 3, 2]][(i // 4) % 4]
    n = len(dims)
    sys_chain = oqupy.SystemChain(dims)
    site_h, nn, diss = [], [], []
    sz = np.diag([1.0, -1.0]).astype(complex)
    for s, d in enumerate(dims):
        if ctype == "commuting":
            h = float(rng.normal()) * sz
        else:
            h = gen.rand_herm(rng, d, 0.7)
        site_h.append(h)
        sys_chain.add_site_hamiltonian(s, h)
        if ctype != "commuting" and rng.random() < 0.5:
            lop = gen.cplx(rng, (d, d), 0.5)
            g = float(rng.uniform(0.05, 0.3))
            sys_chain.add_site_dissipation(s, lop, g)
            diss.append((s, g, lop))
    if ctype == "coupled2":
        a, b = gen.rand_herm(rng, dims[0], 0.6), gen.rand_herm(rng, dims[1],
                                                               0.6)
        sys_chain.add_nn_hamiltonian(0, a, b)
        nn.append((0, a, b))
    elif ctype == "commuting":
        for s in range(n - 1):
            j = float(rng.normal())
            sys_chain.add_nn_hamiltonian(s, j * sz, sz)
            nn.append((s, j * sz, sz))
    liou = models.chain_liouvillian(dims, site_h, nn, diss)
    # environments: exact ancillas on some sites
    envs, pts = [], []
    for s, d in enumerate(dims):
        use = (ctype != "commuting") and ((i + s) % 3 == 0)
        if use:
            env = ancilla.random_env(rng, d, 2, "unitary")
            envs.append(env)
            pts.append(ancilla.build_process_tensor(env, nsteps, dt=dt))
        else:
            envs.append(None)
            pts.append(None)
    rhos = [gen.rand_state(rng, d) for d in dims]
    # controls: 1..3 keys, each a stack of 1..3, on random sites incl. ends
    cc = oqupy.ChainControl(dims)
    pre, post = {}, {}
    desc = []
    nkeys = int(rng.integers(1, 4))
    used = set()
    interleave = bool(i % 3 == 1)
    has_weak = False
    stacks = []
    for k in range(nkeys):
        site = [0, n - 1, int(rng.integers(0, n))][k % 3]
        step = int(rng.integers(0, nsteps + 1))
        is_post = bool(rng.random() < 0.5) and step < nsteps
        if interleave and stacks:
            # several sites controlled at the SAME step and side, their
            # controls added in interleaved order (a, b, a, ...)
            step, is_post = stacks[0][1], stacks[0][2]
        if (site, step, is_post) in used:
            continue
        used.add((site, step, is_post))
        stack = int(rng.integers(1, 4))
        if interleave:
            stack = max(stack, 2)
        sups = []
        for _ in range(stack):
            kind = str(rng.choice(["unitary", "channel", "nontp", "left",
                                   "weak"]))
            if kind == "weak":
                has_weak = True
            sups.append(scen.random_superop(rng, dims[site], kind))
        stacks.append((site, step, is_post, sups))
        desc.append({"site": site, "step": step, "post": is_post,
                     "stack": stack})
    # order of addition: stack after stack, or a random merge that keeps the
    # order within each (site, step, side)
    todo = [(site, step, is_post, list(sups))
            for site, step, is_post, sups in stacks]
    n_switch, last = 0, None
    while todo:
        j = int(rng.integers(0, len(todo))) if interleave else 0
        site, step, is_post, sups = todo[j]
        sup = sups.pop(0)
        if not sups:
            todo.pop(j)
        cc.add_single_site_control(sup, site, step, post=is_post)
        (post if is_post else pre).setdefault(step, []).append((site, sup))
        if last is not None and last != (site, step, is_post):
            n_switch += 1
        last = (site, step, is_post)
    interleaved = n_switch >= len(stacks) and len(stacks) >= 2
    record = list(range(n))
    if n <= 3:
        record.append(tuple(range(n)))
    params = oqupy.PtTebdParameters(dt=dt, epsrel=1e-12, order=order)
    tebd = oqupy.PtTebd(oqupy.AugmentedMPS(rhos), sys_chain, pts, params,
                        chain_control=cc, dynamics_sites=record,
                        start_time=0.3)
    stepping = ["compute", "manual", "twoleg", "mixed", "rerun",
                "compute"][(i // 2) % 6]
    if stepping in ("twoleg", "rerun") and nsteps < 2:
        stepping = "compute"
    leg_violation = None
    if stepping == "twoleg":
        # the run is handed over half way: the chain state is taken out and
        # a second computation (same chain-control object) continues from it
        k0 = 1 + (i // 12) % (nsteps - 1)
        r1 = tebd.compute(k0, progress_type="silent")
        second = oqupy.PtTebd(tebd.get_augmented_mps(), sys_chain, pts,
                              params, chain_control=cc,
                              dynamics_sites=record,
                              start_time=float(r1["time"][-1]),
                              start_step=k0)
        r2 = second.compute(nsteps, progress_type="silent")

        class _Joined:
            def __init__(self, a, b):
                self.states = list(a.states) + list(b.states)[1:]
        res = {"dynamics": {s: _Joined(r1["dynamics"][s], r2["dynamics"][s])
                            for s in record}}
        for s in record:
            a_, b_ = r1["dynamics"][s], r2["dynamics"][s]
            if len(b_.states) != nsteps - k0 + 1 or \
                    abs(b_.times[0] - a_.times[-1]) > 1e-12:
                leg_violation = (f"second leg from step {k0} records "
                                 f"{len(b_.states)} states starting at "
                                 f"t={b_.times[0]!r}")
    elif stepping == "rerun":
        # the same chain-control object serves a second, identical run
        tebd.compute(nsteps, progress_type="silent")
        res = oqupy.PtTebd(oqupy.AugmentedMPS(rhos), sys_chain, pts, params,
                           chain_control=cc, dynamics_sites=record,
                           start_time=0.3).compute(nsteps,
                                                   progress_type="silent")
    elif stepping == "manual":
        # the chain is advanced through its public single-step interface
        tebd.initialize()
        for _ in range(nsteps):
            tebd.compute_step()
        res = tebd.get_results()
    elif stepping == "mixed":
        tebd.initialize()
        tebd.compute_step()
        res = tebd.compute(nsteps, progress_type="silent")
    else:
        res = tebd.compute(nsteps, progress_type="silent")
    ref, norms = chain.chain_dynamics(dims, envs, rhos, nsteps, liou, dt,
                                      record, pre, post)
    noc, _ = chain.chain_dynamics(dims, envs, rhos, nsteps, liou, dt, record)
    violations = []
    if leg_violation:
        violations.append({"what": leg_violation, "mechanism": "length",
                           "detail": {}})
    err = 0.0
    effect = 0.0
    for s in record:
        got = np.array(res["dynamics"][s].states)
        if got.shape != ref[s].shape:
            violations.append({"what": f"site {s}: lengths differ",
                               "mechanism": "length", "detail": {}})
            continue
        e = np.abs(got - ref[s]).max(axis=(1, 2))
        err = max(err, float(e.max()))
        effect = max(effect, float(np.abs(ref[s] - noc[s]).max()))
        if e.max() > 1e-9:
            k = int(np.argmax(e > 1e-9))
            violations.append({
                "what": f"{ctype} chain {dims}: site {s} differs from the "
                        f"dense model with the stated control semantics by "
                        f"{e[k]:.3e} first at recorded step {k} "
                        f"(controls {desc})",
                "mechanism": "chain-control-semantics",
                "detail": {"errs": e}})
            break
    cells = ["chain", "chain:" + ctype]
    if interleaved:
        cells.append("chain:interleaved-additions")
    if has_weak:
        cells.append("chain:weak-control")
    if stepping != "compute":
        cells.append("chain:stepped-" + stepping)
    for c in desc:
        cells.append("side:" + ("post" if c["post"] else "pre"))
        cells.append(f"stack:{c['stack']}")
        if c["step"] == 0:
            cells.append("step:first")
        if c["step"] == nsteps:
            cells.append("step:last")
        if c["site"] == n - 1:
            cells.append("chain-site:last")
    sig = ("chain", ctype, tuple(dims), order,
           tuple(sorted((c["site"], c["step"] == 0, c["step"] == nsteps,
                         c["post"], c["stack"]) for c in desc)))
    return {"violations": violations, "cells": cells,
            "monitors": {"steps_compared": (nsteps + 1) * len(record)},
            "nontrivial": effect >= 1e-2, "signature": str(sig),
            "maxratio": err / 1e-9, "obs": {"err": err, "effect": effect},
            "sample": gen.nice({"kind": "chain", "type": ctype, "dims": dims,
                                "N": nsteps, "dt": dt, "order": order,
                                "controls": desc,
                                "pt_sites": [s for s in range(n)
                                             if envs[s] is not None],
                                "err": err})}


def run_case(case):
    return run_single(case) if case["kind"] == "single" else run_chain(case)
