"""C14 - splitting or repeating compute calls never changes the result.

History monitor (exhaustive, bounded): every sequence of <=3 (thorough <=4)
compute(target) calls over a grid of N steps, in any order, interleaved with
get_dynamics, for Tempo (full memory and across the dkmax boundary),
MeanFieldTempo and PtTebd, against the single call to the furthest target;
idempotence of PtTempo.compute/get_process_tensor and GibbsTempo; PT-TEBD
restart from get_augmented_mps() + start_step at every k (with chain controls
before and after the restart point). Long grids (25..120 steps) with final
targets on or a hair off a grid point, reached through an intermediate call.

Fault enumeration: a clean run counts the calls c of every user callable
(H(t), gamma(t), A(t), H(t,a), field equation, correlation function); for
every j <= c a run raises at call j, the same compute call is repeated, and the
monitor demands: same dynamics as the fault-free run, or an exception again -
never silently different numbers.
"""
import itertools

import numpy as np

from vp import gen, lib, scen

ID = "C14"
LEVEL = "fault_enumeration"
BATCH = 2
CASE_TIMEOUT = 900
# two executions of the same truncated tensor-network computation agree only
# up to the requested truncation tolerance (probed in C20: 4e-9 at epsrel 1e-8
# between two identical runs in one process): 100*epsrel*2
TOL = 2e-6
RULE = ("histories: all target sequences of length <=3 (thorough <=4) over "
        "a grid of N=4 steps for 4 method configurations, split in chunks; "
        "faults: every call index of every user callable of a clean run "
        "(quick: every index up to 60, then every 3rd) x {Tempo constant/"
        "time-dependent system, Tempo with CustomCorrelations, PtTempo with "
        "CustomCorrelations, MeanFieldTempo}. Non-trivial iff the history "
        "has >=2 calls or the fault was really raised; distinct = distinct "
        "(configuration, target sequence) / (configuration, callable, call "
        "index)")
ASSUMPTIONS = ["split and single runs must agree to 2e-6 (= 200 x the "
               "requested epsrel 1e-8; two identical TEMPO runs are not "
               "bitwise reproducible); realistic defects (skipped or doubled "
               "steps, stale state) move states by >=1e-3 or change the "
               "number of time points",
               "a retry that raises again is accepted (the property allows "
               "it)"]

NGRID = 4
CONFIGS = ["tempo_full", "tempo_cut", "meanfield", "tebd"]


def required_cells(tier):
    return {"hist:tempo_full": 3, "hist:tempo_cut": 3, "hist:meanfield": 3,
            "hist:tebd": 3, "histories_checked": 400, "restart": 3,
            "idempotence:pttempo": 1, "idempotence:gibbs": 1,
            "fault:tempo_td": 1, "fault:tempo_corr": 1, "fault:pttempo_corr": 1,
            "fault:meanfield": 1, "fault:gibbs_j": 1,
            "fault:tempo_stream": 1, "fault:meanfield_stream": 1,
            "faults_injected": 60,
            "decreasing-target": 3, "repeated-target": 3,
            "edge:tempo": 2, "edge:meanfield": 1, "edge_hair_targets": 40}


def all_sequences(maxlen):
    seqs = []
    for ln in range(1, maxlen + 1):
        seqs += list(itertools.product(range(NGRID + 1), repeat=ln))
    return seqs


def cases(tier, seed):
    maxlen = 3 if tier == "quick" else 4
    seqs = all_sequences(maxlen)
    chunk = 40 if tier == "quick" else 80
    out = []
    for cfg in CONFIGS:
        for lo in range(0, len(seqs), chunk):
            out.append({"kind": "hist", "cfg": cfg, "seed": seed, "lo": lo,
                        "hi": min(len(seqs), lo + chunk), "maxlen": maxlen,
                        "tier": tier})
    for i in range(4 if tier == "quick" else 16):
        out.append({"kind": "restart", "seed": seed, "idx": i, "tier": tier})
    for i in range(2 if tier == "quick" else 8):
        out.append({"kind": "idem", "seed": seed, "idx": i, "tier": tier})
    for i in range(6 if tier == "quick" else 36):
        out.append({"kind": "edge", "seed": seed, "idx": i, "tier": tier})
    nf = 2 if tier == "quick" else 8
    for fc in ("tempo_td", "tempo_corr", "pttempo_corr", "meanfield",
               "gibbs_j", "tempo_stream", "meanfield_stream"):
        for i in range(nf):
            out.append({"kind": "fault", "cfg": fc, "seed": seed, "idx": i,
                        "tier": tier})
    return out


# ---------------------------------------------------------------- builders --

class Misaligned(Exception):
    """times and states of a dynamics object have different lengths."""


class Obj:
    """Uniform wrapper: compute(step target) / dynamics arrays."""

    def __init__(self, cfg, seed, probe=None, variant=0):
        import oqupy
        self.cfg = cfg
        rng = gen.rng_for(seed, "c14obj", cfg, variant)
        self.dt = 0.1
        self.start = 0.3
        d = 2
        p = dict(alpha=0.2, zeta=1.0, cutoff=3.0, cutoff_type="gaussian",
                 temperature=0.6)
        self.p = p
        epsrel = 1e-8
        if cfg in ("tempo_full", "tempo_cut"):
            kmax = None if cfg == "tempo_full" else 2
            tau = None if cfg == "tempo_full" else 0.05
            params = lib.tempo_params(self.dt, epsrel, kmax, tau, None)
            sysd = scen.random_system(rng, d, "td", probe)
            o = np.array([0.5, -0.5])
            self.obj = oqupy.Tempo(sysd["oq"], oqupy.Bath(np.diag(o).astype(
                complex), gen.make_power_law(p)), params,
                gen.rand_state(rng, d), self.start)
        elif cfg == "meanfield":
            mf = lib.MeanFieldModel(rng, [2, 2])
            mfs, _ = mf.build(probe=probe)
            params = lib.tempo_params(self.dt, epsrel, 2, 0.05, None)
            baths = [oqupy.Bath(np.diag([0.5, -0.5]).astype(complex),
                                gen.make_power_law(p)) for _ in range(2)]
            self.obj = oqupy.MeanFieldTempo(
                mfs, baths, params, [gen.rand_state(rng, 2) for _ in range(2)],
                0.3 - 0.1j, self.start)
        elif cfg == "tebd":
            n = 3
            self.chain, self.rhos, self.pts, self.cc = tebd_parts(rng, n,
                                                                  self.dt)
            self.tparams = oqupy.PtTebdParameters(dt=self.dt, epsrel=1e-9,
                                                  order=2)
            self.obj = oqupy.PtTebd(oqupy.AugmentedMPS(self.rhos), self.chain,
                                    self.pts, self.tparams,
                                    chain_control=self.cc,
                                    dynamics_sites=[0, 1, 2, (0, 2)],
                                    start_time=self.start)

    def compute(self, k):
        if self.cfg == "tebd":
            return self.obj.compute(int(k), progress_type="silent")
        return self.obj.compute(self.start + (k + 0.4) * self.dt,
                                progress_type="silent")

    def snapshot(self):
        """(times, flattened arrays) of what get_dynamics / results report."""
        if self.cfg == "tebd":
            if self.obj.step is None:
                return None
            # a query of the current chain state between compute calls must
            # not influence what is recorded afterwards
            self.obj.get_current_density_matrix(0)
            self.obj.get_current_density_matrix((0, 2))
            res = self.obj.get_results()
            arrs = [np.array(res["dynamics"][s].states).reshape(
                len(res["time"]), -1) for s in (0, 1, 2, (0, 2))]
            return np.array(res["time"]), np.concatenate(
                arrs + [np.array(res["norm"]).reshape(-1, 1)], axis=1)
        dyn = self.obj.get_dynamics()
        if dyn is None:
            return None
        if self.cfg == "meanfield":
            sts = [np.array(sd.states) for sd in dyn.system_dynamics]
            if any(len(x) != len(dyn.times) for x in sts) or \
                    len(dyn.fields) != len(dyn.times):
                raise Misaligned(
                    f"MeanFieldDynamics reports {len(dyn.times)} times, "
                    f"{[len(x) for x in sts]} states, {len(dyn.fields)} "
                    f"field values")
            arrs = [x.reshape(len(dyn.times), -1) for x in sts]
            arrs.append(np.array(dyn.fields).reshape(-1, 1))
            return np.array(dyn.times), np.concatenate(arrs, axis=1)
        sts = np.array(dyn.states)
        if len(sts) != len(dyn.times):
            raise Misaligned(f"Dynamics reports {len(dyn.times)} times but "
                             f"{len(sts)} states")
        return np.array(dyn.times), sts.reshape(len(dyn.times), -1)


def tebd_parts(rng, n, dt, nsteps=NGRID + 2):
    import oqupy
    from vp.ref import ancilla
    sz = np.diag([1.0, -1.0]).astype(complex)
    sx = np.array([[0, 1], [1, 0]], complex)
    chain = oqupy.SystemChain([2] * n)
    for s in range(n):
        chain.add_site_hamiltonian(s, gen.rand_herm(rng, 2, 0.6))
    for s in range(n - 1):
        chain.add_nn_hamiltonian(s, 0.7 * sz, sz)
        chain.add_nn_hamiltonian(s, 0.4 * sx, sx)
    rhos = [gen.rand_state(rng, 2) for _ in range(n)]
    env = ancilla.random_env(rng, 2, 2, "unitary")
    pt = ancilla.build_process_tensor(env, nsteps, dt=dt)
    pts = [pt if s % 2 == 0 else None for s in range(n)]
    cc = oqupy.ChainControl([2] * n)
    cc.add_single_site_control(scen.random_superop(rng, 2, "unitary"), 0, 1)
    cc.add_single_site_control(scen.random_superop(rng, 2, "channel"), 2, 3,
                               post=True)
    cc.add_single_site_control(scen.random_superop(rng, 2, "unitary"), 1,
                               NGRID)
    return chain, rhos, pts, cc


def same(a, b):
    if a is None or b is None:
        return a is None and b is None, 0.0
    (ta, xa), (tb, xb) = a, b
    if ta.shape != tb.shape or xa.shape != xb.shape:
        return False, float("inf")
    dev = max(float(np.abs(ta - tb).max()), float(np.abs(xa - xb).max()))
    return dev <= TOL, dev


# ----------------------------------------------------------------- kinds ----

def run_hist(case):
    cfg = case["cfg"]
    seqs = all_sequences(case["maxlen"])[case["lo"]:case["hi"]]
    refs = {}
    violations, cells = [], ["hist:" + cfg]
    monitors = {"histories_checked": 0, "compute_calls": 0}
    worst = 0.0
    sigs = 0
    for seq in seqs:
        top = max(seq)
        if top not in refs:
            r = Obj(cfg, case["seed"])
            r.compute(top)
            refs[top] = r.snapshot()
        o = Obj(cfg, case["seed"])
        reached = -1
        ok_hist = True
        for n, k in enumerate(seq):
            try:
                before = o.snapshot()
                o.compute(k)
                monitors["compute_calls"] += 1
                after = o.snapshot()        # interleaved get_dynamics
            except Misaligned as exc:
                violations.append({
                    "what": f"{cfg}: after the compute targets {seq[:n + 1]} "
                            f"(dynamics read in between) {exc}",
                    "mechanism": "history-differs", "detail": {"seq": seq}})
                ok_hist = False
                break
            if k <= reached:
                eq, dev = same(before, after)
                if not eq:
                    violations.append({
                        "what": f"{cfg}: compute to step {k} after step "
                                f"{reached} had been reached changed the "
                                f"dynamics (history {seq})",
                        "mechanism": "reached-target-changes",
                        "detail": {"seq": seq}})
                    ok_hist = False
                    break
            reached = max(reached, k)
        if ok_hist:
            try:
                final_snap = o.snapshot()
            except Misaligned as exc:
                violations.append({
                    "what": f"{cfg}: after the compute targets {seq} {exc}",
                    "mechanism": "history-differs", "detail": {"seq": seq}})
                ok_hist = False
        if ok_hist:
            eq, dev = same(final_snap, refs[top])
            worst = max(worst, dev if dev != float("inf") else 1e9)
            if not eq:
                fin = o.snapshot()
                violations.append({
                    "what": f"{cfg}: history of compute targets {seq} leaves "
                            f"dynamics that differ from the single call to "
                            f"step {top} (deviation {dev:.3e}, lengths "
                            f"{len(fin[0])} vs {len(refs[top][0])})",
                    "mechanism": "history-differs",
                    "detail": {"seq": seq, "times": fin[0]}})
        monitors["histories_checked"] += 1
        if len(seq) >= 2:
            sigs += 1
        if any(seq[j + 1] < seq[j] for j in range(len(seq) - 1)):
            cells.append("decreasing-target")
        if any(seq[j + 1] == seq[j] for j in range(len(seq) - 1)):
            cells.append("repeated-target")
        if len(violations) >= 5:
            break
    return {"violations": violations, "cells": cells, "monitors": monitors,
            "nontrivial": sigs > 0,
            "signature": f"hist-{cfg}-{case['lo']}", "maxratio": worst / TOL,
            "obs": {"multi_call_histories": sigs},
            "sample": {"kind": "hist", "cfg": cfg,
                       "sequences": [list(s) for s in seqs[:4]],
                       "n_sequences": len(seqs)}}


def run_restart(case):
    """PT-TEBD restarted from its exported chain state and step number."""
    import oqupy
    i = case["idx"]
    rng = gen.rng_for(case["seed"], "c14r", i)
    n, dt = 3, 0.1
    nsteps = NGRID + 1
    chain, rhos, pts, cc = tebd_parts(rng, n, dt)
    params = oqupy.PtTebdParameters(dt=dt, epsrel=1e-10, order=1 + i % 2)
    sites = [0, 1, 2, (0, 1)]
    start = 0.5
    ref = oqupy.PtTebd(oqupy.AugmentedMPS(rhos), chain, pts, params,
                       chain_control=cc, dynamics_sites=sites,
                       start_time=start).compute(nsteps,
                                                 progress_type="silent")
    violations = []
    worst = 0.0
    n_restarts = 0
    for k in range(1, nsteps):
        first = oqupy.PtTebd(oqupy.AugmentedMPS(rhos), chain, pts, params,
                             chain_control=cc, dynamics_sites=sites,
                             start_time=start)
        first.compute(k, progress_type="silent")
        mps = first.get_augmented_mps()
        second = oqupy.PtTebd(mps, chain, pts, params, chain_control=cc,
                              dynamics_sites=sites,
                              start_time=start + k * dt, start_step=k)
        res = second.compute(nsteps, progress_type="silent")
        n_restarts += 1
        texp = np.array(ref["time"])[k:]
        if len(res["time"]) != len(texp) or \
                np.abs(np.array(res["time"]) - texp).max() > 1e-12:
            violations.append({"what": f"restart at step {k}: times "
                               f"{list(res['time'])} vs {list(texp)}",
                               "mechanism": "restart-times", "detail": {}})
            continue
        for s in sites:
            a = np.array(res["dynamics"][s].states)
            b = np.array(ref["dynamics"][s].states)[k:]
            dev = float(np.abs(a - b).max())
            worst = max(worst, dev)
            if dev > 1e-9:
                j = int(np.argmax(np.abs(a - b).max(axis=(1, 2)) > 1e-9))
                violations.append({
                    "what": f"chain restarted at step {k} from its exported "
                            f"state differs from the uninterrupted run by "
                            f"{dev:.3e} (site {s}, first at step {k + j})",
                    "mechanism": "restart-differs", "detail": {"k": k}})
                break
    return {"violations": violations[:5], "cells": ["restart"],
            "monitors": {"restarts_checked": n_restarts},
            "nontrivial": True, "signature": f"restart-{i}",
            "maxratio": worst / 1e-9, "obs": {"restart_dev": worst},
            "sample": {"kind": "restart", "restart_steps":
                       list(range(1, nsteps)), "restart_dev": worst}}


def run_idem(case):
    import oqupy
    i = case["idx"]
    rng = gen.rng_for(case["seed"], "c14i", i)
    violations, cells, monitors = [], [], {}
    p = gen.sd_params(rng)
    p["temperature"] = max(p["temperature"], 0.3)
    d, dt, nsteps = 2, 0.1, 4
    o, rm, scale = lib.guard_coupling(p, rng.normal(size=d), dt, nsteps, None,
                                      None, rng)
    v = gen.haar_unitary(rng, d) if i % 2 else np.eye(d)
    oper = v @ np.diag(o) @ v.conj().T
    oper = (oper + oper.conj().T) / 2
    params = lib.tempo_params(dt, 1e-9, [None, 2][i % 2], None)
    bath = oqupy.Bath(oper, gen.make_power_law(p))
    ptt = oqupy.PtTempo(bath, 0.0, lib.end_time(0.0, dt, nsteps), params)
    cells.append("idempotence:pttempo")
    ops = [["compute", "get", "compute", "get", "get"],
           ["get", "compute", "compute", "get"]][i % 2]
    ref_pt = oqupy.pt_tempo_compute(bath, 0.0, lib.end_time(0.0, dt, nsteps),
                                    params, progress_type="silent")
    sysd = scen.random_system(rng, d, "const")
    rho0 = gen.rand_state(rng, d)
    ref_dyn = np.array(oqupy.compute_dynamics(
        sysd["oq"], rho0, process_tensor=ref_pt,
        progress_type="silent").states)
    try:
        for opn in ops:
            if opn == "compute":
                ptt.compute(progress_type="silent")
            else:
                pt = ptt.get_process_tensor(progress_type="silent")
                monitors["pt_reads"] = monitors.get("pt_reads", 0) + 1
                if len(pt) != nsteps:
                    violations.append({
                        "what": f"PtTempo after {ops}: process tensor length "
                                f"{len(pt)} != {nsteps}",
                        "mechanism": "pt-tempo-recompute", "detail": {}})
                    break
                dyn = np.array(oqupy.compute_dynamics(
                    sysd["oq"], rho0, process_tensor=pt,
                    progress_type="silent").states)
                dev = float(np.abs(dyn - ref_dyn).max())
                if dev > 1e-6:     # separate PT-TEMPO runs: truncation level
                    violations.append({
                        "what": f"PtTempo after {ops}: dynamics differ from "
                                f"a single computation by {dev:.3e}",
                        "mechanism": "pt-tempo-recompute", "detail": {}})
                    break
    except Exception as exc:   # noqa
        violations.append({
            "what": f"PtTempo {ops}: {type(exc).__name__}: {str(exc)[:120]}",
            "mechanism": "pt-tempo-recompute", "detail": {}})
    # Gibbs
    cells.append("idempotence:gibbs")
    pg = dict(p, zeta=max(1.0, p["zeta"]))
    gp = oqupy.GibbsParameters(6, 1e-9)
    gb = oqupy.Bath(np.diag(o).astype(complex), gen.make_power_law(pg))
    h = gen.rand_herm(rng, d, 0.8)
    gref = oqupy.gibbs_tempo_compute(oqupy.System(h), gb, gp,
                                     progress_type="silent")
    gt = oqupy.GibbsTempo(oqupy.System(h), gb, gp)
    try:
        for opn in ["compute", "get", "compute", "compute", "get"]:
            if opn == "compute":
                gt.compute(progress_type="silent")
            else:
                dev = float(np.abs(gt.get_state() - gref).max())
                monitors["gibbs_reads"] = monitors.get("gibbs_reads", 0) + 1
                if dev > 1e-12:
                    violations.append({
                        "what": f"GibbsTempo: repeated compute changes the "
                                f"state by {dev:.3e}",
                        "mechanism": "gibbs-recompute", "detail": {}})
                    break
    except Exception as exc:   # noqa
        violations.append({
            "what": f"GibbsTempo repeated compute: {type(exc).__name__}",
            "mechanism": "gibbs-recompute", "detail": {}})
    return {"violations": violations, "cells": cells, "monitors": monitors,
            "nontrivial": True, "signature": f"idem-{i}", "maxratio": 0.0,
            "obs": {}, "sample": {"kind": "idem", "ops": ops}}


class CorrProbe:
    """Failpoint on a user-supplied correlation function."""

    def __init__(self, fn):
        self.fn = fn
        self.count = 0
        self.fail_at = None
        self.raised = 0

    @property
    def n_raised(self):
        return self.raised

    def __call__(self, t):
        self.count += 1
        if self.fail_at is not None and self.count == self.fail_at:
            self.raised += 1
            raise scen.Probe.Boom(f"injected fault in correlation call "
                                  f"{self.count}")
        return self.fn(t)


PROG = ["silent"]


class StreamProbe:
    def __init__(self):
        self.count, self.fail_at, self.n_raised = 0, None, 0

    def write(self, text):
        self.count += 1
        if self.fail_at is not None and \
                self.count == self.fail_at:
            self.n_raised += 1
            raise BrokenPipeError("injected fault: stream")
        return len(text)

    def flush(self):
        pass


def run_fault(case):
    import oqupy
    cfg = case["cfg"]
    i = case["idx"]
    quick = case["tier"] == "quick"
    nsteps = 4
    dt, start = 0.1, 0.2
    end = start + (nsteps + 0.4) * dt

    def build():
        """Returns (object, compute(), snapshot(), set_fail(j), counter())."""
        rng = gen.rng_for(case["seed"], "c14f", cfg, i)
        if cfg == "tempo_td":
            probe = scen.Probe()
            sysd = scen.random_system(rng, 2, "td", probe)
            params = lib.tempo_params(dt, 1e-8, [None, 2][i % 2],
                                      [None, 0.05][i % 2],
                                      None if i % 2 == 0 else 8)
            p = dict(alpha=0.2, zeta=1.0, cutoff=3.0,
                     cutoff_type="gaussian", temperature=0.6)
            t = oqupy.Tempo(sysd["oq"], oqupy.Bath(
                np.diag([0.5, -0.5]).astype(complex), gen.make_power_law(p)),
                params, gen.rand_state(rng, 2), start)

            def snap():
                dyn = t.get_dynamics()
                return (np.array(dyn.times),
                        np.array(dyn.states).reshape(len(dyn.times), -1))
            return (lambda: t.compute(end, progress_type=PROG[0]), snap,
                    probe)
        if cfg == "tempo_stream":
            # not a user callable but the output stream fails once while the
            # 'simple' progress report is written (closed pipe); the same
            # contract: the repeated compute() gives the full dynamics
            sp = StreamProbe()
            sysd = scen.random_system(rng, 2, "td")
            params = lib.tempo_params(dt, 1e-8, [None, 2][i % 2], None)
            p = dict(alpha=0.2, zeta=1.0, cutoff=3.0,
                     cutoff_type="gaussian", temperature=0.6)
            t = oqupy.Tempo(sysd["oq"], oqupy.Bath(
                np.diag([0.5, -0.5]).astype(complex), gen.make_power_law(p)),
                params, gen.rand_state(rng, 2), start)

            def snap():
                dyn = t.get_dynamics()
                st = np.array(dyn.states)
                if len(st) != len(dyn.times):
                    raise Misaligned(f"{len(dyn.times)} times but "
                                     f"{len(st)} states")
                return (np.array(dyn.times), st.reshape(len(dyn.times), -1))

            def comp():
                import contextlib
                with contextlib.redirect_stdout(sp):
                    return t.compute(end, progress_type="simple")
            return comp, snap, sp
        if cfg == "gibbs_j":
            # the imaginary-time computation with a failing spectral-density
            # callable (same contract: a repeated compute() gives the same
            # dynamics and state, or raises again)
            n_g = [3, 4, 2, 6][i % 4]
            jp = CorrProbe(lambda w: 0.4 * w * np.exp(-w / 3.0))
            corr = oqupy.CustomSD(np.vectorize(jp, otypes=[float]),
                                  cutoff=3.0, cutoff_type=["hard",
                                  "exponential"][i % 2], temperature=1.3)
            gt = oqupy.GibbsTempo(
                oqupy.System(np.diag([0.3, -0.4, 0.9]).astype(complex)),
                oqupy.Bath(np.diag([0.5, -0.2, 0.1]).astype(complex), corr),
                oqupy.GibbsParameters(n_g, 1e-9))
            jp.count = 0

            def snap():
                dyn = gt.get_dynamics()
                if dyn is None:
                    return None
                st = np.array(dyn.states)
                if len(st) != len(dyn.times):
                    raise Misaligned(f"{len(dyn.times)} times but "
                                     f"{len(st)} states")
                return (np.array(dyn.times), np.concatenate(
                    [st.reshape(len(dyn.times), -1),
                     np.tile(gt.get_state().reshape(1, -1),
                             (len(dyn.times), 1))], axis=1))
            return (lambda: gt.compute(progress_type=PROG[0]), snap, jp)
        if cfg in ("tempo_corr", "pttempo_corr"):
            from vp.ref import bath as rbath
            cfun = rbath.finite_mode_correlation([1.3, 2.1], [0.3, 0.25],
                                                 [0.4, 0.0])
            cp = CorrProbe(cfun)
            corr = oqupy.CustomCorrelations(cp)
            bath = oqupy.Bath(np.diag([0.5, -0.5]).astype(complex), corr)
            kmax = [None, 2][i % 2]
            params = lib.tempo_params(dt, 1e-7, kmax,
                                      None if kmax is None else 0.05)
            sysm = oqupy.System(gen.rand_herm(rng, 2, 0.6))
            rho0 = gen.rand_state(rng, 2)

            class P:      # adapter with the Probe interface
                def __init__(self):
                    self.c = cp

                @property
                def count(self):
                    return cp.count
            if cfg == "tempo_corr":
                t = oqupy.Tempo(sysm, bath, params, rho0, start)

                def snap():
                    dyn = t.get_dynamics()
                    return (np.array(dyn.times),
                            np.array(dyn.states).reshape(len(dyn.times), -1))
                return (lambda: t.compute(end, progress_type=PROG[0]), snap,
                        cp)
            ptt = oqupy.PtTempo(bath, start, end, params)

            def comp():
                return ptt.get_process_tensor(progress_type=PROG[0])

            def snap():
                pt = ptt.get_process_tensor(progress_type=PROG[0])
                dyn = oqupy.compute_dynamics(sysm, rho0, process_tensor=pt,
                                             start_time=start,
                                             progress_type=PROG[0])
                return (np.array(dyn.times),
                        np.array(dyn.states).reshape(len(dyn.times), -1))
            return comp, snap, cp
        # mean field
        probe = scen.Probe() if cfg == "meanfield" else None
        mf = lib.MeanFieldModel(rng, [2] if i % 2 else [2, 2])
        mfs, _ = mf.build(probe=probe)
        params = lib.tempo_params(dt, 1e-8, [2, None][i % 2],
                                  [0.05, None][i % 2], None)
        p = dict(alpha=0.2, zeta=1.0, cutoff=3.0, cutoff_type="gaussian",
                 temperature=0.6)
        baths = [oqupy.Bath(np.diag([0.5, -0.5]).astype(complex),
                            gen.make_power_law(p)) for _ in mf.dims]
        t = oqupy.MeanFieldTempo(mfs, baths, params,
                                 [gen.rand_state(rng, 2) for _ in mf.dims],
                                 0.3 - 0.1j, start)

        def snap():
            dyn = t.get_dynamics()
            arrs = [np.array(sd.states).reshape(len(dyn.times), -1)
                    for sd in dyn.system_dynamics]
            arrs.append(np.array(dyn.fields).reshape(-1, 1))
            return np.array(dyn.times), np.concatenate(arrs, axis=1)
        if cfg == "meanfield_stream":
            # the output stream fails once while progress is reported
            sp = StreamProbe()

            def comp():
                import contextlib
                with contextlib.redirect_stdout(sp):
                    return t.compute(
                        end, progress_type=["simple", "bar"][(i // 2) % 2])
            return comp, snap, sp
        return (lambda: t.compute(end, progress_type=PROG[0]), snap, probe)

    comp, snap, probe = build()
    c0 = probe.count
    comp()
    ref = snap()
    total = probe.count - c0
    if total <= 0:
        return {"inconclusive": "no user callable was called"}
    idxs = list(range(1, total + 1))
    if cfg in ("tempo_corr", "pttempo_corr", "gibbs_j"):
        # the correlation function is evaluated thousands of times inside
        # each 2-D quadrature; fault indices inside one quadrature are
        # equivalent, so the index range is sampled evenly
        nsamp = 40 if quick else 250
        idxs = sorted(set(int(x) for x in np.linspace(1, total, nsamp)))
    elif quick and total > 60:
        # every early call, then an even sample of the later ones (bounded:
        # a time-dependent system with two dissipators makes thousands of
        # calls, each fault index costs two computations)
        rest = idxs[60::3]
        if len(rest) > 120:
            rest = [rest[int(x)] for x in
                    np.linspace(0, len(rest) - 1, 120)]
        idxs = idxs[:60] + sorted(set(rest))
    elif total > 400:
        rest = idxs[200::4]
        if len(rest) > 600:
            rest = [rest[int(x)] for x in
                    np.linspace(0, len(rest) - 1, 600)]
        idxs = idxs[:200] + sorted(set(rest))
    violations = []
    injected = raised_again = recovered = 0
    worst = 0.0
    for j in idxs:
        comp, snap, probe = build()
        base = probe.count
        probe.fail_at = base + j
        # the progress reporting in use must make no difference (it wraps
        # the stepping loops as a context manager)
        PROG[0] = ["silent", "simple", "silent", "bar"][j % 4]
        try:
            comp()
            fired = False
            if probe.n_raised > 0:
                # the user's exception did not come out of the call
                got = snap()
                eq, dev = same(got, ref)
                injected += 1
                if not eq:
                    violations.append({
                        "what": f"{cfg}: a user callable raised at its call "
                                f"{j} of {total} but compute("
                                f"progress_type={PROG[0]!r}) returned "
                                f"normally, with dynamics of "
                                f"{len(got[0]) if got else 0} instead of "
                                f"{len(ref[0])} time points",
                        "mechanism": "failure-swallowed",
                        "detail": {"fault_index": j}})
                    if len(violations) >= 4:
                        break
                PROG[0] = "silent"
                continue
        except scen.Probe.Boom:
            fired = True
        except Exception as exc:   # a wrapped/derived exception
            fired = "Boom" in repr(exc) or "injected fault" in str(exc)
            if not fired:
                raise
        probe.fail_at = None
        PROG[0] = "silent"
        if not fired:
            continue          # fault index not reached in this run
        injected += 1
        try:
            comp()
        except Exception:   # failing again is allowed
            raised_again += 1
            continue
        got = snap()
        eq, dev = same(got, ref)
        if dev != float("inf"):
            worst = max(worst, dev)
        if not eq:
            violations.append({
                "what": f"{cfg}: after a user callable raised at its call "
                        f"{j} of {total}, repeating compute() returned "
                        f"silently different dynamics (deviation {dev:.3e}, "
                        f"{len(got[0])} vs {len(ref[0])} time points, times "
                        f"{np.round(got[0], 6).tolist()[:8]})",
                "mechanism": "retry-differs",
                "detail": {"fault_index": j, "total_calls": total}})
            if len(violations) >= 4:
                break
        else:
            recovered += 1
    return {"violations": violations, "cells": ["fault:" + cfg],
            "monitors": {"faults_injected": injected,
                         "retries_identical": recovered,
                         "retries_raised_again": raised_again},
            "nontrivial": injected > 0, "signature": f"fault-{cfg}-{i}",
            "maxratio": worst / TOL,
            "obs": {"user_calls_in_clean_run": total},
            "sample": {"kind": "fault", "cfg": cfg,
                       "user_calls_in_clean_run": total,
                       "fault_indices": idxs[:10], "injected": injected,
                       "identical_after_retry": recovered,
                       "raised_again": raised_again}}


def run_edge(case):
    """Targets on, or a hair off, grid points of a long grid (40..120
    steps), reached in one call or through intermediate calls at literal grid
    times: the number of recorded points and the states must not depend on
    how many calls were used (the rounding rule that decides whether an end
    time lies on the grid must refer to the start of the computation, not to
    where the previous call stopped)."""
    import oqupy
    i = case["idx"]
    rng = gen.rng_for(case["seed"], "c14edge", i)
    mean_field = bool(i % 3 == 2)
    n = [40, 60, 120, 25][i % 4]
    dt = [0.1, 0.05, 0.013, 0.2][(i // 2) % 4]
    start = [0.0, 0.3, -1.7, 12.5][(i // 3) % 4]
    p = dict(alpha=0.1, zeta=1.0, cutoff=3.0, cutoff_type="exponential",
             temperature=0.4)
    params = lib.tempo_params(dt, 1e-8, 2, None, None)
    o = np.diag([0.5, -0.5]).astype(complex)
    h = gen.rand_herm(rng, 2, 0.8)
    rho0 = gen.rand_state(rng, 2)
    mf = lib.MeanFieldModel(rng, [2]) if mean_field else None

    def make():
        if mean_field:
            mfs, _ = mf.build()
            return oqupy.MeanFieldTempo(
                mfs, [oqupy.Bath(o, gen.make_power_law(p))], params, [rho0],
                0.2 + 0.1j, start)
        return oqupy.Tempo(oqupy.System(h), oqupy.Bath(
            o, gen.make_power_law(p)), params, rho0, start)

    def snap(obj):
        dyn = obj.get_dynamics()
        if mean_field:
            return np.array(dyn.times), np.concatenate(
                [np.array(dyn.system_dynamics[0].states).reshape(
                    len(dyn.times), -1),
                 np.array(dyn.fields).reshape(-1, 1)], axis=1)
        return np.array(dyn.times), np.array(dyn.states).reshape(
            len(dyn.times), -1)

    # final targets: fractional step counts relative to the grid point n
    offs = [0.0, -0.3e-9 * n, -0.7e-9 * n, +0.4e-9 * n, -0.3, +0.3]
    violations, monitors = [], {"edge_histories": 0, "edge_hair_targets": 0}
    worst = 0.0
    for off in offs:
        target = start + (n + off) * dt
        ref = make()
        ref.compute(target, progress_type=PROG[0])
        rsnap = snap(ref)
        for frac in (0.1, 0.5, 0.75, 0.95):
            k = max(1, min(n - 1, int(round(frac * n))))
            obj = make()
            # the intermediate target as a user would write it
            obj.compute(float(repr(round(start + k * dt, 10))),
                        progress_type=PROG[0])
            obj.compute(target, progress_type=PROG[0])
            eq, dev = same(snap(obj), rsnap)
            monitors["edge_histories"] += 1
            if off != 0.0 and abs(off) < 1e-3:
                monitors["edge_hair_targets"] += 1
            if dev != float("inf"):
                worst = max(worst, dev)
            if not eq:
                fin = snap(obj)
                violations.append({
                    "what": f"{'MeanFieldTempo' if mean_field else 'Tempo'}"
                            f" (start={start}, dt={dt}): compute to step "
                            f"{k} then to start+({n}{off:+.3g})*dt leaves "
                            f"{len(fin[0])} time points (last "
                            f"{fin[0][-1]!r}), a single call "
                            f"{len(rsnap[0])} (last {rsnap[0][-1]!r}); "
                            f"deviation {dev:.3e}",
                    "mechanism": "history-differs",
                    "detail": {"n": n, "off": off, "k": k}})
                break
        if len(violations) >= 3:
            break
    return {"violations": violations, "cells": [
        "edge:" + ("meanfield" if mean_field else "tempo")],
            "monitors": monitors, "nontrivial": True,
            "signature": f"edge-{i}", "maxratio": worst / TOL,
            "obs": {}, "sample": {"kind": "edge", "n": n, "dt": dt,
                                  "start": start, "offsets_in_steps": offs}}


def run_case(case):
    return {"hist": run_hist, "restart": run_restart, "idem": run_idem,
            "fault": run_fault, "edge": run_edge}[case["kind"]](case)
