"""C17 - an interrupted process-tensor file is never mistaken for a complete one.

Crash-point enumeration with real processes. A dry run of the writer (fresh
interpreter) records the sequence of file operations of
SimpleProcessTensor.export() / of a file-backed PT-TEMPO run (creation of the
HDF5 file, every oqupy.process_tensor._set_data_and_shape call, entry of
FileProcessTensor.close, entry of the HDF5 close, return of the workload); in
the thorough tier additionally every executed source line of the writing
functions (sys.monitoring LINE events). For every event k and every death
mode a writer process is started that dies exactly there; a reader process
then opens what is left on disk as 'file' and as 'simple', reads every tensor,
runs compute_dynamics, and the outcome is classified against the clean run:

  no-file / old-file-intact / open-fails / use-fails / warns /
  silent-complete / silent-incomplete

Only `silent-incomplete` refutes the property (and anything but
`silent-complete` for a writer that died *after* close returned). The clean
file itself must open without the corruption warning and equal the in-memory
object. Second part: mode matrix {write, overwrite, read} x {existing,
missing} with content hashes, and remove() entitlement.
"""
import hashlib
import json
import os
import shutil
import subprocess
import tempfile
import warnings

import numpy as np

from vp import gen
from vp.common import PYTHON, VERIF, stable_hash
from vp.mon import c17_common as cc

ID = "C17"
LEVEL = "fault_enumeration"
BATCH = 1
CASE_TIMEOUT = 900
WRITER_TIMEOUT = 120
READER_TIMEOUT = 300
DYN_TOL = 1e-10
RULE = ("complete enumeration: for each workload variant (export of seeded "
        "random PT-MPOs: rank 3/4, with/without transforms, dt, name, "
        "overwriting an older file; file-backed PT-TEMPO: diagonal / "
        "non-diagonal coupling, unique, function / class API) a dry run "
        "yields the K file-operation events; every k in 0..K-1 x every death "
        "mode {SIGKILL, os._exit, SIGTERM, unhandled exception, SIGINT/"
        "KeyboardInterrupt, sys.exit} is executed by a fresh writer process "
        "and classified by a fresh reader process ('file' and 'simple' "
        "import). thorough: additionally every executed source line of the "
        "writing functions as crash point, more variants, and multi-MB "
        "tensors. A case is non-trivial iff its writers verifiably died at "
        "the intended event (status file + exit status) and the reader "
        "classified the remains; distinct = distinct (workload, variant, "
        "level, chunk, observed outcome set). Mode matrix / remove(): all "
        "combinations of mode x existing-file kind x API, content hashes "
        "before/after.")
ASSUMPTIONS = [
    "crash points are Python-level operation boundaries (between HDF5 "
    "library calls, and between source lines in the thorough tier); a death "
    "inside a single C-level HDF5 call is not injected",
    "files live on tmpfs (/dev/shm): what a reader sees after the writer's "
    "death is what the writer's process handed to the kernel (no power-loss "
    "model)",
    "the corruption warning is recognised as a UserWarning whose text "
    "mentions 'corrupt' or 'during writing'",
    "content of export files is compared bit-exactly with the clean run; "
    "two separate PT-TEMPO runs are only equal up to a bond gauge (probed: "
    "O(1) differences in single tensors, 1e-15 in the contraction), so for "
    "that workload number/presence/shape of every tensor and the dynamics "
    "from the full contraction (<=1e-10) are compared",
    "use-fails (no warning at open, but a tensor read raises) counts as a "
    "violation of the clause 'opening either fails or warns' (tightened "
    "after a seeded change showed such files; none occur on the unchanged "
    "tree); a consumer failure alone does not excuse silently missing "
    "tensors",
]
LIB_EXC_IS_VIOLATION = True

_WRITER = os.path.join(VERIF, "vp", "mon", "c17_writer.py")
_READER = os.path.join(VERIF, "vp", "mon", "c17_reader.py")


def required_cells(tier):
    req = {"clean:export": 2, "clean:pttempo": 2,
           "level:ops": 4,
           "point:file-created": 2,
           "point:after-creation(initial tensor)": 2,
           "point:mpo-tensor": 2, "point:cap-tensor": 2,
           "point:before-close": 2, "point:inside-close": 2,
           "point:after-close": 2,
           "outcome:open-fails": 1, "outcome:warns": 1,
           "outcome:silent-complete": 1,
           "variant:preexisting": 1, "variant:rank3": 1,
           "variant:transform": 1, "variant:unique": 1, "variant:direct": 1,
           "remove_retries": 6, "variant:foreign_version": 1,
           "writers_died_as_intended": 50,
           "matrix:write:existing": 3, "matrix:write:missing": 3,
           "matrix:overwrite:existing": 3, "matrix:overwrite:missing": 3,
           "matrix:read:existing": 3, "matrix:read:missing": 3,
           "remove:refused": 3, "remove:allowed": 3}
    for wl in ("export", "pttempo"):
        for m in cc.MODES:
            req[f"{wl}:{m}"] = 1
    if tier == "thorough":
        req.update({"level:lines": 4, "variant:large": 1,
                    "line:_create_file": 1, "line:_set_data_and_shape": 1,
                    "line:compute_caps": 1, "line:export": 1,
                    "line:close": 1})
    return req


# --------------------------------------------------------------------------
# case generation
# --------------------------------------------------------------------------

def _variants(tier, seed):
    """Workload variants; deterministic in (tier, seed)."""
    out = []

    def add(i, **kw):
        rng = gen.rng_for(seed, "c17v", i)
        v = dict(seed=int(rng.integers(0, 2**31 - 1)), **kw)
        if v["workload"] == "export":
            v.setdefault("bond", int(rng.integers(2, 5)))
        else:
            v.setdefault("alpha", float(rng.uniform(0.1, 0.3)))
            v.setdefault("T", float(rng.uniform(0.3, 1.5)))
        out.append(v)

    n_a = 2 + seed % 2
    n_b = 3 - seed % 2
    add(0, workload="export", n=n_a, dt=0.1)
    add(1, workload="export", n=n_b, rank3=True, transform=True, named=True,
        dt=None, preexisting=True)
    add(2, workload="pttempo", n=n_a, coupling="z")
    add(3, workload="pttempo", n=n_b, coupling="x", unique=True, api="class",
        named=True)
    add(10, workload="export", n=n_a, dt=0.1, direct=True)
    add(11, workload=["export", "pttempo"][seed % 2], n=2, dt=0.1,
        coupling="z", foreign_version=True)
    if tier == "thorough":
        add(4, workload="export", n=1, dt=0.05, d=3)
        add(5, workload="export", n=5, rank3=True, dt=0.2, named=True)
        add(6, workload="export", n=4, transform=True, d=3, bond=3,
            preexisting=True)
        add(7, workload="pttempo", n=4, coupling="zx", dkmax=2)
        add(8, workload="pttempo", n=2, coupling="zx", unique=True,
            preexisting=True)
        add(9, workload="pttempo", n=5, coupling="z", api="class")
    return out


def cases(tier, seed):
    out = []
    variants = _variants(tier, seed)
    nchunk = 4
    for vi, v in enumerate(variants):
        for c in range(nchunk):
            out.append({"kind": "crash", "variant": v, "vi": vi,
                        "level": "ops", "modes": cc.MODES, "chunk": c,
                        "nchunk": nchunk, "seed": seed})
    if tier == "thorough":
        # every executed source line of the writing functions
        line_variants = [dict(variants[0], n=2), dict(variants[2], n=2),
                         dict(variants[1], n=2)]
        nl = 8
        for vi, v in enumerate(line_variants):
            # third variant (rank 3, transforms, overwriting): its extra
            # lines with one mode of each kind (signal / exception / exit)
            for m in (cc.MODES if vi < 2 else ["kill", "exc", "exit"]):
                for c in range(nl):
                    out.append({"kind": "crash", "variant": v,
                                "vi": 100 + vi, "level": "lines",
                                "modes": [m], "chunk": c, "nchunk": nl,
                                "seed": seed})
        # multi-MB tensors (partial HDF5 flushes under SIGKILL)
        big = {"workload": "export", "n": 3, "bond": 128, "dt": 0.1,
               "seed": 1000 + seed, "large": True}
        big3 = {"workload": "export", "n": 3, "bond": 256, "dt": 0.1,
                "rank3": True, "seed": 2000 + seed, "large": True}
        for vi, v in enumerate([big, big3]):
            for m in cc.MODES:
                out.append({"kind": "crash", "variant": v, "vi": 200 + vi,
                            "level": "ops", "modes": [m], "chunk": 0,
                            "nchunk": 1, "seed": seed})
    # explicit clean-close checks over more shapes
    nclean = 2 if tier == "quick" else 8
    for i in range(nclean):
        out.append({"kind": "clean", "idx": i, "seed": seed})
    for existing in ("pt", "interrupted", "foreign", "empty", "missing"):
        out.append({"kind": "matrix", "existing": existing, "seed": seed})
    out.append({"kind": "remove", "seed": seed})
    return out


# --------------------------------------------------------------------------
# helpers
# --------------------------------------------------------------------------

def _sha(path):
    if not os.path.exists(path):
        return None
    h = hashlib.sha1()
    with open(path, "rb") as f:
        for block in iter(lambda: f.read(1 << 20), b""):
            h.update(block)
    return h.hexdigest()


def _inconclusive(msg):
    from vp.run import Inconclusive
    raise Inconclusive(msg)


def _spawn_writer(tmp, variant, path, level, k, mode, tag):
    spec = {"variant": variant, "file": path, "level": level, "k": k,
            "mode": mode, "status": os.path.join(tmp, tag + ".status"),
            "events": os.path.join(tmp, tag + ".events") if k < 0 else None}
    specfile = os.path.join(tmp, tag + ".wspec")
    with open(specfile, "w") as f:
        json.dump(spec, f)
    try:
        res = subprocess.run([PYTHON, "-u", _WRITER, specfile], cwd=tmp,
                             capture_output=True, text=True,
                             timeout=WRITER_TIMEOUT)
    except subprocess.TimeoutExpired:
        _inconclusive(f"writer watchdog ({level} k={k} mode={mode})")
    return spec, res


def _spawn_reader(tmp, files, tag):
    out = os.path.join(tmp, tag + ".rout")
    specfile = os.path.join(tmp, tag + ".rspec")
    with open(specfile, "w") as f:
        json.dump({"files": files, "out": out}, f)
    rc = None
    try:
        res = subprocess.run([PYTHON, "-u", _READER, specfile], cwd=tmp,
                             capture_output=True, text=True,
                             timeout=READER_TIMEOUT)
        rc = res.returncode
        err = res.stderr[-600:]
    except subprocess.TimeoutExpired:
        rc, err = "watchdog", ""
    got = {}
    if os.path.exists(out):
        with open(out) as f:
            for line in f:
                try:
                    r = json.loads(line)
                except ValueError:
                    continue
                got[(r["file"], r["type"])] = r
    return got, rc, err


def _read_all(tmp, files):
    """Reader results for all files; a reader that dies is re-run per file."""
    got, rc, err = _spawn_reader(tmp, files, "all")
    nspawn = 1
    crashed = {}
    missing = [f for f in files
               if (f, "file") not in got or (f, "simple") not in got]
    for n, f in enumerate(missing):
        g1, rc1, err1 = _spawn_reader(tmp, [f], f"single{n}")
        nspawn += 1
        got.update(g1)
        if (f, "file") not in g1 or (f, "simple") not in g1:
            crashed[f] = (rc1, err1)
    return got, crashed, nspawn


_TENSOR_PREFIXES = ("len", "mpo", "cap", "initial")


def _how(variant, against_memory):
    """Comparison mode (see c17_common.compare): separate PT-TEMPO runs are
    only comparable up to a bond gauge."""
    if variant["workload"] == "pttempo":
        return "gauge"
    return "close" if against_memory else "exact"


def classify(res, ref_digest, how):
    """Outcome of one (file, import type) reader result against the clean
    run's digest. Returns (outcome, details)."""
    if res is None:
        return "reader-died", []
    if res["corrupt_warned"]:
        sub = "opened" if res["opened"] else "open-failed"
        return "warns", [sub]
    if not res["opened"]:
        return "open-fails", [res["open_exc"][0] if res["open_exc"] else "?"]
    dig = res["digest"]
    diffs = cc.compare(dig, ref_digest, how, dyn_tol=DYN_TOL)
    tensor_fail = [f for f in dig["failures"]
                   if f[0].startswith(_TENSOR_PREFIXES)]
    dyn_silently_wrong = dig["dyn"] is not None and \
        not cc.dyn_dev(dig["dyn"], ref_digest["dyn"]) <= DYN_TOL
    if not diffs and not dig["failures"] and dig["dyn"] is not None:
        return "silent-complete", []
    if dyn_silently_wrong:
        return "silent-incomplete", ["consumer computed different dynamics "
                                     "without any warning"] + diffs[:8]
    if tensor_fail:
        return "use-fails", [f"{f[0]}: {f[1]}" for f in tensor_fail[:4]]
    content = [d for d in diffs if not d.startswith(("dynamics", "no dyn"))]
    if content:
        return "silent-incomplete", content[:10]
    return "use-fails", [f"{f[0]}: {f[1]}" for f in dig["failures"][:4]] + \
        ([f"compute_dynamics: {dig['dyn_exc'][0]}"] if dig["dyn_exc"] else [])


_EXPECTED = {}


def _expected_digest(variant):
    key = stable_hash(variant)
    if key not in _EXPECTED:
        with warnings.catch_warnings():
            warnings.simplefilter("ignore")
            _EXPECTED[key] = cc.digest_pt(cc.expected_pt(variant))
    return _EXPECTED[key]


def _check_clean(variant, res_file, res_simple, violations, where):
    """A cleanly closed file opens without the corruption warning and has
    the content of the in-memory object. Returns worst dynamics deviation."""
    exp = _expected_digest(variant)
    worst = 0.0
    for typ, res in (("file", res_file), ("simple", res_simple)):
        if res is None:
            violations.append({
                "what": f"reader died on a cleanly closed file ({typ})",
                "mechanism": "closed-file-not-clean",
                "detail": {"where": where, "variant": variant}})
            continue
        if not res["opened"]:
            violations.append({
                "what": f"cleanly closed file cannot be imported as '{typ}':"
                        f" {res['open_exc']}",
                "mechanism": "closed-file-not-clean",
                "detail": {"where": where, "variant": variant}})
            continue
        if res["corrupt_warned"]:
            violations.append({
                "what": f"cleanly closed file opens with the corruption "
                        f"warning (import '{typ}')",
                "mechanism": "closed-file-warns",
                "detail": {"where": where, "warnings": res["warnings"],
                           "variant": variant}})
        dig = res["digest"]
        diffs = cc.compare(dig, exp, _how(variant, True), dyn_tol=DYN_TOL)
        if dig["failures"] or dig["dyn"] is None:
            diffs = [f"{f[0]} raised {f[1]}" for f in dig["failures"][:5]] + \
                ([f"compute_dynamics raised {dig['dyn_exc']}"]
                 if dig["dyn_exc"] else []) + diffs
        dev = cc.dyn_dev(dig["dyn"], exp["dyn"])
        if np.isfinite(dev):
            worst = max(worst, dev)
        if diffs:
            violations.append({
                "what": f"cleanly closed file is not complete (import "
                        f"'{typ}'): {diffs[:4]}",
                "mechanism": "closed-file-incomplete",
                "detail": {"where": where, "diffs": diffs[:20],
                           "variant": variant}})
    return worst


# --------------------------------------------------------------------------
# crash-point cases
# --------------------------------------------------------------------------

def run_crash(case):
    variant, level = case["variant"], case["level"]
    wl = variant["workload"]
    tmp = tempfile.mkdtemp(prefix="vp_c17_")
    try:
        return _run_crash(case, variant, level, wl, tmp)
    finally:
        shutil.rmtree(tmp, ignore_errors=True)


def _run_crash(case, variant, level, wl, tmp):
    violations, cells, rows = [], [], []
    monitors = {"writer_processes": 0, "reader_processes": 0,
                "writers_died_as_intended": 0, "writers_survived": 0,
                "crash_points": 0, "reader_classifications": 0,
                "clean_files_verified": 0}
    pre = bool(variant.get("preexisting"))
    # ---- dry run = clean run -------------------------------------------
    clean_path = os.path.join(tmp, "clean.hdf5")
    if pre:
        cc.make_preexisting(variant, clean_path)
    spec, res = _spawn_writer(tmp, variant, clean_path, level, -1, "none",
                              "clean")
    monitors["writer_processes"] += 1
    if res.returncode != 0 or "completed" not in res.stdout:
        return {"violations": [{
            "what": "fault-free writer failed: " + res.stderr[-300:],
            "mechanism": "clean-write-failed",
            "detail": {"variant": variant, "stderr": res.stderr[-1500:]}}],
            "cells": [], "monitors": monitors, "nontrivial": True,
            "signature": f"clean-write-failed:{wl}"}
    with open(spec["events"]) as f:
        events = json.load(f)
    nev = len(events)
    ks = [k for k in range(nev) if k % case["nchunk"] == case["chunk"]]
    # ---- faulted writers ------------------------------------------------
    plan = []
    for mode in case["modes"]:
        for k in ks:
            path = os.path.join(tmp, f"w_{mode}_{k}.hdf5")
            old_sha = None
            if pre:
                cc.make_preexisting(variant, path)
                old_sha = _sha(path)
            spec, res = _spawn_writer(tmp, variant, path, level, k, mode,
                                      f"w_{mode}_{k}")
            monitors["writer_processes"] += 1
            status = None
            if os.path.exists(spec["status"]):
                with open(spec["status"]) as f:
                    status = json.load(f)
            if status is None:
                if res.returncode == 0 and "completed" in res.stdout:
                    _inconclusive(f"event {k} not reached in the faulted "
                                  f"writer (sequence not deterministic?)")
                _inconclusive(f"writer failed before the crash point "
                              f"{level} k={k}: {res.stderr[-300:]}")
            if status["event"] != events[k]:
                _inconclusive(f"event sequence not deterministic: "
                              f"{status['event']} != {events[k]}")
            died = cc.died_as_intended(mode, res.returncode, res.stderr)
            if died:
                monitors["writers_died_as_intended"] += 1
            elif res.returncode == 0 and "completed" in res.stdout:
                monitors["writers_survived"] += 1   # fault swallowed
            else:
                _inconclusive(f"writer exit status {res.returncode} does "
                              f"not match mode {mode}: {res.stderr[-300:]}")
            plan.append({"mode": mode, "k": k, "event": events[k],
                         "path": path, "old_sha": old_sha, "died": died,
                         "sha": _sha(path)})
    monitors["crash_points"] = len(plan)
    # ---- reader ----------------------------------------------------------
    to_read = [clean_path] + [p["path"] for p in plan
                              if p["sha"] is not None
                              and not (pre and p["sha"] == p["old_sha"])]
    got, crashed, nspawn = _read_all(tmp, to_read)
    monitors["reader_processes"] += nspawn
    ref = {typ: got.get((clean_path, typ)) for typ in ("file", "simple")}
    worst = _check_clean(variant, ref["file"], ref["simple"], violations,
                         f"{wl} dry run")
    monitors["clean_files_verified"] += 1
    cells.append(f"clean:{wl}")
    clean_ok = all(ref[t] is not None and ref[t]["opened"]
                   and ref[t]["digest"]["dyn"] is not None
                   for t in ("file", "simple"))
    for p in plan:
        mode, k, ev = p["mode"], p["k"], p["event"]
        pcl = cc.point_class(ev)
        outcomes = {}
        details = {}
        if p["sha"] is None:
            outcomes = {"file": "no-file", "simple": "no-file"}
        elif pre and p["sha"] == p["old_sha"]:
            outcomes = {"file": "old-file-intact", "simple": "old-file-intact"}
        elif not clean_ok:
            continue
        else:
            for typ in ("file", "simple"):
                r = got.get((p["path"], typ))
                outcomes[typ], details[typ] = classify(r, ref[typ]["digest"],
                                                          _how(variant, False))
                monitors["reader_classifications"] += 1
            if _sha(p["path"]) != p["sha"]:
                violations.append({
                    "what": f"reading the file left by a writer killed at "
                            f"{ev} ({mode}) modified it",
                    "mechanism": "read-modified-file",
                    "detail": {"event": ev, "k": k, "mode": mode,
                               "variant": variant}})
        rows.append([level, k, ev, mode, outcomes["file"],
                     outcomes["simple"]])
        cells += [f"{wl}:{mode}",
                  pcl if pcl.startswith("line:") else f"point:{pcl}"]
        for typ in ("file", "simple"):
            o = outcomes[typ]
            cells.append("outcome:" + ("open-fails" if o == "no-file" else o))
            if o == "use-fails":
                # The property's first clause: opening an interrupted file
                # "either fails or warns". A file that opens WITHOUT the
                # warning although tensors are missing/unreadable violates it
                # even if a later read or consumer raises (0 such outcomes on
                # the unchanged tree in the thorough tier).
                violations.append({
                    "what": f"{wl}: writer died by {cc.MODE_NAMES[mode]} at "
                            f"event {k}/{nev} ({ev}); the file imports as "
                            f"'{typ}' without any warning although it is "
                            f"incomplete (reads fail later: "
                            f"{details[typ][:2]})",
                    "mechanism": "opens-unwarned-incomplete",
                    "detail": {"workload": wl, "level": level, "k": k,
                               "event": ev, "mode": mode, "import": typ,
                               "diffs": details[typ], "variant": variant}})
            if o == "silent-incomplete":
                violations.append({
                    "what": f"{wl}: writer died by {cc.MODE_NAMES[mode]} at "
                            f"event {k}/{nev} ({ev}); the file imports as "
                            f"'{typ}' without any warning but is incomplete: "
                            f"{details[typ][:3]}",
                    "mechanism": "silent-incomplete",
                    "detail": {"workload": wl, "level": level, "k": k,
                               "event": ev, "mode": mode, "import": typ,
                               "diffs": details[typ], "variant": variant}})
            elif ev == "after-workload" and o != "silent-complete":
                violations.append({
                    "what": f"{wl}: writer died by {cc.MODE_NAMES[mode]} "
                            f"AFTER close() returned, yet the file is "
                            f"classified {o} on import '{typ}': "
                            f"{details.get(typ)}",
                    "mechanism": "closed-file-not-clean"
                    if o != "warns" else "closed-file-warns",
                    "detail": {"workload": wl, "mode": mode, "import": typ,
                               "outcome": o, "details": details.get(typ),
                               "variant": variant}})
    cells.append("level:" + level)
    for flag in ("preexisting", "rank3", "transform", "unique", "large",
                 "named", "direct", "foreign_version"):
        if variant.get(flag):
            cells.append("variant:" + flag)
    outcome_set = sorted({r[4] for r in rows} | {r[5] for r in rows})
    vkey = {k: v for k, v in variant.items() if k != "seed"}
    sig = stable_hash([wl, vkey, level, case["chunk"], case["modes"],
                       outcome_set])
    enum = {"variant": vkey, "workload": wl, "level": level, "K": nev,
            "events": events if level == "ops" else sorted(set(events)),
            "rows": rows}
    return {"violations": violations, "cells": cells, "monitors": monitors,
            "nontrivial": monitors["writers_died_as_intended"] > 0
            and len(rows) > 0,
            "signature": sig, "maxratio": worst / DYN_TOL,
            "obs": {"events_K": nev, "clean_dyn_dev": worst},
            "enum": enum,
            "sample": {"kind": "crash", "workload": wl, "variant": vkey,
                       "level": level, "K": nev,
                       "crash_points_in_this_case": len(plan),
                       "first_rows": rows[:6]}}


# --------------------------------------------------------------------------
# clean-close cases (more shapes)
# --------------------------------------------------------------------------

def _clean_variants(idx, seed):
    rng = gen.rng_for(seed, "c17clean", idx)
    s = int(rng.integers(0, 2**31 - 1))
    table = [
        [dict(workload="export", n=1, bond=2, dt=0.1, d=3),
         dict(workload="pttempo", n=2, coupling="zx", named=True),
         dict(workload="export", n=4, bond=3, rank3=True, dt=None,
              named=True)],
        [dict(workload="export", n=3, bond=2, transform=True, dt=0.3, d=3),
         dict(workload="pttempo", n=3, coupling="x", unique=True,
              api="class"),
         dict(workload="pttempo", n=3, coupling="z", dkmax=1)],
    ]
    if idx < 2:
        vs = table[idx]
    else:
        vs = [dict(workload="export", n=int(rng.integers(1, 7)),
                   bond=int(rng.integers(1, 6)), rank3=bool(idx % 2),
                   transform=bool(idx % 3 == 0), d=2 + idx % 2,
                   dt=[0.1, None][idx % 2], named=bool(idx % 4 == 1)),
              dict(workload="pttempo", n=int(rng.integers(2, 6)),
                   coupling=["z", "x", "zx"][idx % 3],
                   unique=bool(idx % 2), api=["function", "class"][idx % 2],
                   alpha=float(rng.uniform(0.05, 0.3)))]
    return [dict(v, seed=s + j) for j, v in enumerate(vs)]


def run_clean(case):
    tmp = tempfile.mkdtemp(prefix="vp_c17_")
    violations, cells = [], []
    monitors = {"writer_processes": 0, "reader_processes": 0,
                "clean_files_verified": 0}
    worst = 0.0
    try:
        vs = _clean_variants(case["idx"], case["seed"])
        paths = []
        for j, v in enumerate(vs):
            path = os.path.join(tmp, f"c{j}.hdf5")
            _, res = _spawn_writer(tmp, v, path, "ops", -1, "none", f"c{j}")
            monitors["writer_processes"] += 1
            if res.returncode != 0 or "completed" not in res.stdout:
                violations.append({
                    "what": "fault-free writer failed: " + res.stderr[-300:],
                    "mechanism": "clean-write-failed",
                    "detail": {"variant": v, "stderr": res.stderr[-1500:]}})
                paths.append(None)
            else:
                paths.append(path)
        got, crashed, nspawn = _read_all(tmp, [p for p in paths if p])
        monitors["reader_processes"] += nspawn
        sigs = []
        for v, p in zip(vs, paths):
            if p is None:
                continue
            h0 = _sha(p)
            worst = max(worst, _check_clean(
                v, got.get((p, "file")), got.get((p, "simple")), violations,
                "clean case"))
            monitors["clean_files_verified"] += 1
            cells.append("clean:" + v["workload"])
            r = got.get((p, "file"))
            sigs.append([v["workload"], v["n"],
                         r["digest"]["len"] if r and r["digest"] else None,
                         r["digest"]["ncaps"] if r and r["digest"] else None])
            if _sha(p) != h0:
                violations.append({"what": "file changed while being read",
                                   "mechanism": "read-modified-file",
                                   "detail": {"variant": v}})
    finally:
        shutil.rmtree(tmp, ignore_errors=True)
    return {"violations": violations, "cells": cells, "monitors": monitors,
            "nontrivial": monitors["clean_files_verified"] > 0,
            "signature": "clean:" + stable_hash(sigs),
            "maxratio": worst / DYN_TOL, "obs": {"clean_dyn_dev": worst},
            "sample": {"kind": "clean", "files": sigs}}


# --------------------------------------------------------------------------
# mode matrix and remove()
# --------------------------------------------------------------------------

def _small_variant(seed, salt=0, **kw):
    v = dict(workload="export", n=2, bond=2, dt=0.1, seed=seed, salt=salt)
    v.update(kw)
    return v


def _make_existing(kind, path, seed):
    """Put an 'existing file' of the given kind at path."""
    if kind == "missing":
        return
    if kind in ("pt", "interrupted"):
        cc.build_simple_pt(_small_variant(seed, salt=5, n=3)).export(path)
        if kind == "interrupted":
            import h5py
            with h5py.File(path, "r+") as f:
                f.attrs["writing"] = True
    elif kind == "foreign":
        with open(path, "wb") as f:
            f.write(b"precious notes, not an HDF5 file\n" * 20)
    elif kind == "empty":
        open(path, "wb").close()
    else:
        raise ValueError(kind)


def _import_check(path, variant):
    """Open in-process, return (corrupt_warned, diffs vs in-memory object)."""
    import oqupy
    from vp.mon.c17_reader import corrupt_warning
    with warnings.catch_warnings(record=True) as wl:
        warnings.simplefilter("always")
        pt = oqupy.import_process_tensor(path, "file")
        msgs = [str(w.message) for w in wl]
    try:
        with warnings.catch_warnings():
            warnings.simplefilter("ignore")
            dig = cc.digest_pt(pt)
    finally:
        pt.close()
    diffs = cc.compare(dig, _expected_digest(variant), _how(variant, True),
                       dyn_tol=DYN_TOL)
    diffs = [f"{f[0]} raised {f[1]}" for f in dig["failures"]] + diffs
    return any(corrupt_warning(m) for m in msgs), diffs


def _do_write(api, mode, path, variant):
    """Create a process tensor file at path through one of the APIs, with
    mode 'write' or 'overwrite'."""
    import oqupy
    overwrite = mode == "overwrite"
    if api == "export":
        cc.build_simple_pt(variant).export(path, overwrite=overwrite)
    elif api == "fpt":
        src = cc.build_simple_pt(variant)
        f = oqupy.FileProcessTensor(
            mode=mode, filename=path,
            hilbert_space_dimension=src.hilbert_space_dimension, dt=src.dt,
            transform_in=src.transform_in, transform_out=src.transform_out,
            name=src.name, description=src.description)
        try:
            for s in range(len(src)):
                f.set_mpo_tensor(s, src._mpo_tensors[s])
            f.compute_caps()
        finally:
            f.close()
    elif api == "pttempo":
        pt = cc.run_pttempo(variant, path, overwrite=overwrite)
        pt.close()
    else:
        raise ValueError(api)


def run_matrix(case):
    import oqupy
    kind = case["existing"]
    seed = case["seed"]
    exists = kind != "missing"
    col = "existing" if exists else "missing"
    tmp = tempfile.mkdtemp(prefix="vp_c17_")
    violations, cells, log = [], [], []
    monitors = {"matrix_scenarios": 0, "hash_comparisons": 0}

    def viol(what, mech, **detail):
        violations.append({"what": what, "mechanism": mech,
                           "detail": dict(detail, existing=kind)})

    try:
        n = 0
        # ---- write / overwrite through three APIs -----------------------
        # (mode 'write' is exercised again AFTER overwriting runs happened
        # in this process: a request to overwrite concerns that call only)
        for mode in ("write", "overwrite", "write"):
            for api in ("fpt", "export", "pttempo"):
                n += 1
                path = os.path.join(tmp, f"m{n}.hdf5")
                _make_existing(kind, path, seed)
                h0 = _sha(path)
                variant = _small_variant(seed + n) if api != "pttempo" else \
                    dict(workload="pttempo", n=2, coupling="z", seed=seed)
                exc = None
                try:
                    _do_write(api, mode, path, variant)
                except Exception as e:  # pylint: disable=broad-except
                    exc = e
                h1 = _sha(path)
                monitors["matrix_scenarios"] += 1
                monitors["hash_comparisons"] += 1
                cells.append(f"matrix:{mode}:{col}")
                log.append([mode, api, kind, type(exc).__name__
                            if exc else None, h0 == h1])
                if mode == "write" and exists:
                    if exc is None:
                        viol(f"{api}: mode 'write' on an existing ({kind}) "
                             f"file did not raise", "write-did-not-raise",
                             api=api, mode=mode)
                    if h1 != h0:
                        viol(f"{api}: mode 'write' changed/destroyed an "
                             f"existing ({kind}) file without overwrite "
                             f"being requested", "existing-file-clobbered",
                             api=api, mode=mode, exc=repr(exc))
                else:
                    if exc is not None:
                        viol(f"{api}: mode '{mode}' on a {col} file raised "
                             f"{type(exc).__name__}: {str(exc)[:150]}",
                             "create-failed", api=api, mode=mode)
                        continue
                    if h1 is None:
                        viol(f"{api}: mode '{mode}' created no file",
                             "create-failed", api=api, mode=mode)
                        continue
                    warned, diffs = _import_check(path, variant)
                    if warned:
                        viol(f"{api}/{mode}: freshly written and closed file "
                             f"opens with the corruption warning",
                             "closed-file-warns", api=api, mode=mode)
                    if diffs:
                        viol(f"{api}/{mode} on {col} file: written file is "
                             f"not complete: {diffs[:4]}",
                             "closed-file-incomplete", api=api, mode=mode,
                             diffs=diffs[:20])
        # ---- read --------------------------------------------------------
        for api in ("fpt-read", "import-file", "import-simple"):
            n += 1
            path = os.path.join(tmp, f"m{n}.hdf5")
            _make_existing(kind, path, seed)
            h0 = _sha(path)
            exc, pt, msgs = None, None, []
            from vp.mon.c17_reader import corrupt_warning
            with warnings.catch_warnings(record=True) as wl:
                warnings.simplefilter("always")
                try:
                    if api == "fpt-read":
                        pt = oqupy.FileProcessTensor(mode="read",
                                                     filename=path)
                    else:
                        pt = oqupy.import_process_tensor(
                            path, api.split("-")[1])
                except Exception as e:  # pylint: disable=broad-except
                    exc = e
                msgs = [str(w.message) for w in wl]
            warned = any(corrupt_warning(m) for m in msgs)
            mutators = []
            if pt is not None:
                with warnings.catch_warnings():
                    warnings.simplefilter("ignore")
                    dig = cc.digest_pt(pt)
                if api != "import-simple":
                    # a read-mode object must not be able to change the file
                    z = np.zeros((1, 1, 4, 4), dtype=complex)
                    for name, fn in (
                            ("set_mpo_tensor", lambda: pt.set_mpo_tensor(0, z)),
                            ("set_cap_tensor", lambda: pt.set_cap_tensor(
                                0, np.ones(1, dtype=complex))),
                            ("set_initial_tensor",
                             lambda: pt.set_initial_tensor(None)),
                            ("compute_caps", pt.compute_caps),
                            ("name", lambda: setattr(pt, "name", "renamed")),
                            ("description", lambda: setattr(
                                pt, "description", "changed"))):
                        try:
                            fn()
                            mutators.append([name, None])
                        except Exception as e:  # pylint: disable=broad-except
                            mutators.append([name, type(e).__name__])
                    try:
                        pt.close()
                    except Exception as e:  # pylint: disable=broad-except
                        mutators.append(["close", type(e).__name__])
                    try:
                        pt.close()     # closing twice is harmless
                    except Exception as e:  # pylint: disable=broad-except
                        mutators.append(["close2", type(e).__name__])
            h1 = _sha(path)
            monitors["matrix_scenarios"] += 1
            monitors["hash_comparisons"] += 1
            cells.append(f"matrix:read:{col}")
            log.append(["read", api, kind, type(exc).__name__ if exc else None,
                        h0 == h1, warned])
            if h1 != h0:
                if h0 is None:
                    viol(f"{api}: reading a missing file created one",
                         "missing-read-created-file", api=api)
                else:
                    viol(f"{api}: mode 'read' modified the existing ({kind}) "
                         f"file (mutators: {mutators})", "read-modified-file",
                         api=api, mutators=mutators)
            if kind in ("missing", "foreign", "empty") and exc is None:
                viol(f"{api}: reading a {kind} file did not raise",
                     "read-did-not-raise", api=api)
            if kind == "pt":
                if exc is not None:
                    viol(f"{api}: complete file cannot be read: {exc!r}",
                         "closed-file-not-clean", api=api)
                elif warned:
                    viol(f"{api}: complete file opens with the corruption "
                         f"warning", "closed-file-warns", api=api)
            if kind == "interrupted" and exc is None and not warned:
                viol(f"{api}: file whose writer never closed it opens "
                     f"without the corruption warning", "silent-incomplete",
                     api=api, note="flag set, content complete")
    finally:
        shutil.rmtree(tmp, ignore_errors=True)
    return {"violations": violations, "cells": cells, "monitors": monitors,
            "nontrivial": monitors["matrix_scenarios"] >= 9,
            "signature": "matrix:" + kind + ":" + stable_hash(log),
            "maxratio": 0.0, "obs": {},
            "matrix": {"existing": kind, "rows": log},
            "sample": {"kind": "matrix", "existing": kind, "rows": log[:5]}}


def run_remove(case):
    import oqupy
    seed = case["seed"]
    tmp = tempfile.mkdtemp(prefix="vp_c17_")
    violations, cells, log = [], [], []
    monitors = {"remove_scenarios": 0}
    variant = _small_variant(seed, salt=3)
    ptvariant = dict(workload="pttempo", n=2, coupling="z", seed=seed)
    tempdir = tempfile.gettempdir()
    before = set(os.listdir(tempdir))

    def fpt(mode, filename):
        src = cc.build_simple_pt(variant)
        f = oqupy.FileProcessTensor(
            mode=mode, filename=filename,
            hilbert_space_dimension=src.hilbert_space_dimension, dt=src.dt)
        for s in range(len(src)):
            f.set_mpo_tensor(s, src._mpo_tensors[s])
        f.compute_caps()
        return f

    def existing(path):
        cc.build_simple_pt(_small_variant(seed, salt=8, n=3)).export(path)

    def path(n):
        return os.path.join(tmp, f"r{n}.hdf5")

    def sc_read(p, how):
        existing(p)
        return (oqupy.FileProcessTensor(mode="read", filename=p)
                if how == "fpt" else oqupy.import_process_tensor(p, "file"))

    def sc_read_interrupted(p):
        _make_existing("interrupted", p, seed)
        with warnings.catch_warnings():
            warnings.simplefilter("ignore")
            return oqupy.FileProcessTensor(mode="read", filename=p)

    def sc_over_existing(p):
        existing(p)
        return fpt("overwrite", p)

    def sc_pttempo(p, overwrite, pre=False):
        if pre:
            existing(p)
        return cc.run_pttempo(ptvariant, p, overwrite=overwrite)

    # (label, entitled?, builder, variant whose content the file must have
    #  when removal is refused on a written file)
    scenarios = [
        ("read-mode FileProcessTensor", False,
         lambda p: sc_read(p, "fpt"), None),
        ("import_process_tensor('file')", False,
         lambda p: sc_read(p, "import"), None),
        ("read-mode on interrupted file", False, sc_read_interrupted, None),
        ("named write-mode FileProcessTensor", False,
         lambda p: fpt("write", p), variant),
        ("named write-mode PT-TEMPO file", False,
         lambda p: sc_pttempo(p, False), ptvariant),
        ("named overwrite-mode (fresh path)", "by-mode",
         lambda p: fpt("overwrite", p), variant),
        ("named overwrite-mode (existing file)", "by-mode",
         sc_over_existing, variant),
        ("named overwrite PT-TEMPO file", "by-mode",
         lambda p: sc_pttempo(p, True, pre=True), ptvariant),
        ("unnamed temporary write-mode", True,
         lambda p: fpt("write", None), None),
        ("unnamed temporary overwrite-mode", True,
         lambda p: fpt("overwrite", None), None),
        ("PT-TEMPO process_tensor_file=True", True,
         lambda p: cc.run_pttempo(ptvariant, True), None),
    ]
    try:
        for n, (label, entitled, build, content) in enumerate(scenarios):
            p = path(n)
            obj = build(p)
            fname = obj.filename
            if entitled is True and os.path.dirname(fname) == tmp:
                _inconclusive("temporary file scenario got a named path")
            present0 = os.path.exists(fname)
            if not present0:
                _inconclusive(f"{label}: no file before remove()")
            if entitled is False and content is None:
                h0 = _sha(fname)        # read-mode: must stay bit-identical
            else:
                h0 = None
            exc = None
            try:
                obj.remove()
            except Exception as e:  # pylint: disable=broad-except
                exc = e
            present1 = os.path.exists(fname)
            monitors["remove_scenarios"] += 1
            refused = exc is not None
            cells.append("remove:refused" if refused else "remove:allowed")
            log.append([label, entitled, type(exc).__name__ if exc else None,
                        present1])
            det = {"scenario": label, "exc": repr(exc), "present": present1}
            if entitled is False and not refused:
                violations.append({
                    "what": f"remove() was not refused for: {label}"
                            f" (file {'deleted' if not present1 else 'kept'})",
                    "mechanism": "remove-not-refused", "detail": det})
            if entitled is False and not present1:
                violations.append({
                    "what": f"remove() deleted a file the object is not "
                            f"entitled to delete: {label}",
                    "mechanism": "remove-deleted-protected-file",
                    "detail": det})
            if entitled is True and (refused or present1):
                violations.append({
                    "what": f"remove() failed for the object's own temporary "
                            f"file: {label} ({exc!r})",
                    "mechanism": "remove-own-tempfile-failed", "detail": det})
            if refused and not present1:
                violations.append({
                    "what": f"remove() raised but the file is gone: {label}",
                    "mechanism": "remove-deleted-protected-file",
                    "detail": det})
            if not refused and present1:
                violations.append({
                    "what": f"remove() returned normally but the file is "
                            f"still there: {label}",
                    "mechanism": "remove-accepted-but-file-present",
                    "detail": det})
            if entitled is False and refused and present1:
                # the refusal is not a one-off: asking again (the first call
                # has closed the handle) or closing and asking again must
                # still leave the file alone
                for again in ("remove() again", "close() then remove()"):
                    exc2 = None
                    try:
                        if again.startswith("close"):
                            obj.close()
                        obj.remove()
                    except Exception as e:  # pylint: disable=broad-except
                        exc2 = e
                    monitors["remove_retries"] = monitors.get(
                        "remove_retries", 0) + 1
                    if not os.path.exists(fname):
                        violations.append({
                            "what": f"{again} after a refused remove() "
                                    f"deleted the file: {label}",
                            "mechanism": "remove-deleted-protected-file",
                            "detail": dict(det, retry=again,
                                           exc2=repr(exc2))})
                        break
                    if exc2 is None:
                        violations.append({
                            "what": f"{again} after a refused remove() was "
                                    f"not refused: {label}",
                            "mechanism": "remove-not-refused",
                            "detail": dict(det, retry=again)})
                present1 = os.path.exists(fname)
            if present1:
                if h0 is not None and _sha(fname) != h0:
                    violations.append({
                        "what": f"refused remove() changed the file: {label}",
                        "mechanism": "read-modified-file", "detail": det})
                if content is not None and refused:
                    # remove() closes the file first: it must now be a
                    # cleanly closed, complete file
                    try:
                        warned, diffs = _import_check(fname, content)
                    except Exception as e:  # pylint: disable=broad-except
                        warned, diffs = False, [f"cannot be read: {e!r}"]
                    if warned:
                        violations.append({
                            "what": f"file kept by a refused remove() opens "
                                    f"with the corruption warning: {label}",
                            "mechanism": "closed-file-warns", "detail": det})
                    if diffs:
                        violations.append({
                            "what": f"file kept by a refused remove() is "
                                    f"incomplete: {label}: {diffs[:3]}",
                            "mechanism": "closed-file-incomplete",
                            "detail": dict(det, diffs=diffs[:10])})
                if os.path.dirname(fname) != tmp:
                    os.remove(fname)
    finally:
        shutil.rmtree(tmp, ignore_errors=True)
        for name in set(os.listdir(tempdir)) - before:
            if name.startswith("pt_") and name.endswith(".hdf5"):
                try:
                    os.remove(os.path.join(tempdir, name))
                except OSError:
                    pass
    return {"violations": violations, "cells": cells, "monitors": monitors,
            "nontrivial": monitors["remove_scenarios"] >= len(scenarios),
            "signature": "remove:" + stable_hash(log), "maxratio": 0.0,
            "obs": {}, "remove": log,
            "sample": {"kind": "remove", "rows": log}}


def run_case(case):
    return {"crash": run_crash, "clean": run_clean, "matrix": run_matrix,
            "remove": run_remove}[case["kind"]](case)


# --------------------------------------------------------------------------
# evidence: what was enumerated, what was observed
# --------------------------------------------------------------------------

def extra_coverage(results, tier):
    table = {}
    totals = {}
    by_mode = {}
    by_point = {}
    matrix, remove = [], []
    for res in results:
        if not res:
            continue
        if "matrix" in res:
            matrix.append(res["matrix"])
        if "remove" in res:
            remove = res["remove"]
        enum = res.get("enum")
        if not enum:
            continue
        key = f"{enum['workload']}/{enum['level']}/" + stable_hash(
            enum["variant"])
        ent = table.setdefault(key, {
            "variant": enum["variant"], "level": enum["level"],
            "K_events": enum["K"],
            "events": enum["events"] if enum["level"] == "ops" else
            f"{len(enum['events'])} distinct source lines: "
            + ", ".join(enum["events"][:400]),
            "crash_points_executed": set(), "modes": set(),
            "outcome_counts": {}})
        for level, k, ev, mode, o_file, o_simple in enum["rows"]:
            ent["crash_points_executed"].add(k)
            ent["modes"].add(mode)
            pcl = cc.point_class(ev)
            for o in (o_file, o_simple):
                ent["outcome_counts"][o] = ent["outcome_counts"].get(o, 0) + 1
                totals[o] = totals.get(o, 0) + 1
                by_mode.setdefault(mode, {})
                by_mode[mode][o] = by_mode[mode].get(o, 0) + 1
                by_point.setdefault(pcl, {})
                by_point[pcl][o] = by_point[pcl].get(o, 0) + 1
    for ent in table.values():
        pts = sorted(ent["crash_points_executed"])
        ent["all_points_covered"] = pts == list(range(ent["K_events"]))
        ent["crash_points_executed"] = len(pts)
        ent["modes"] = sorted(ent["modes"])
    return {"crash_enumeration": table,
            "classification_counts": totals,
            "classification_by_death_mode": by_mode,
            "classification_by_crash_point_class": by_point,
            "mode_matrix": matrix, "remove_scenarios": remove}
