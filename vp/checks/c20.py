"""C20 - results depend only on current inputs: no mutation, aliasing or stale
state.

Monitors:
* immutability: byte snapshots of every caller array (and the public
  attributes of every caller parameter object) before each library call,
  compared after it returned or raised;
* layout sweep: the same values as C-ordered, Fortran-ordered, transposed
  view, strided slice, read-only, real dtype and nested list must give the
  same results and no exception;
* aliasing: after an object was built from caller arrays the arrays are
  overwritten; later computations must still use the values at call time;
* history replay: random sequences of computations on shared
  correlations/bath/system/parameters/process-tensor objects must equal replays
  on freshly built equal objects;
* attribute updates: after changing a public parameter an object answers as a
  fresh object with the new values in all methods, and objects built from it
  earlier are unaffected.
"""
import copy

import numpy as np

from vp import gen, lib, scen
from vp.ref import ancilla

ID = "C20"
LEVEL = "exploration"
BATCH = 4
CASE_TIMEOUT = 400
TOL = 1e-12
# two TEMPO runs of equal inputs agree only to the truncation tolerance
DYN_TOL = 2e-6
# groups that run truncated tensor networks (epsrel 1e-8 / 1e-9)
GROUP_TOL = {"tempo": 2e-6, "meanfield": 2e-6, "chain": 2e-7}
RULE = ("kinds: layout (7 memory layouts x 8 API groups), alias (caller "
        "arrays overwritten after construction), history (random sequences "
        "of 4-7 computations on shared objects vs fresh replays), attr "
        "(public attribute updates on correlations / parameters objects). "
        "Non-trivial iff the varied input influences the result (checked "
        "against a run with different values); distinct = (kind, api group, "
        "layout / sequence / attribute)")
ASSUMPTIONS = ["layout variants agree to 1e-12 (different BLAS paths for "
               "strided inputs are not bitwise identical)",
               "stale-state comparisons against fresh objects at 1e-12"]

LAYOUTS = ["C", "F", "Tview", "strided", "readonly", "list", "real"]
GROUPS = ["tempo", "dynamics", "correlations", "gradient", "control",
          "chain", "process_tensor", "meanfield", "bath_dynamics"]


def required_cells(tier):
    req = {"layout:" + k: 3 for k in LAYOUTS}
    req.update({"group:" + g: 2 for g in GROUPS})
    req.update({"alias": 6, "history": 6, "history:control-on-two-grids": 3,
                "history:getters-read-in-between": 3,
                "history:estimate-then-compute": 1,
                "history:factory-results-adapted-in-place": 1,
                "history:object-reused-inside-one-operation": 2,
                "history:other-systems-in-between": 1,
                "history:process-tensor-edited-after-use": 1,
                "attr:alpha": 1,
                "attr:temperature": 1, "attr:cutoff": 1, "attr:zeta": 1,
                "attr:cutoff_type": 1, "attr:j_function": 1,
                "attr:pttebd_parameters": 1, "attr:bath_before_change": 2,
                "attr:updated-on-bath.correlations": 3,
                "immutability_snapshots": 200})
    return req


def cases(tier, seed):
    out = []
    reps = 2 if tier == "quick" else 8
    for rep in range(reps):
        for g in GROUPS:
            for lay in LAYOUTS:
                out.append({"kind": "layout", "group": g, "layout": lay,
                            "seed": seed, "rep": rep, "tier": tier})
        for i in range(len(GROUPS)):
            out.append({"kind": "alias", "group": GROUPS[i], "seed": seed,
                        "rep": rep, "tier": tier})
    for i in range(8 if tier == "quick" else 60):
        out.append({"kind": "history", "seed": seed, "idx": i, "tier": tier})
    for i in range(16 if tier == "quick" else 48):
        out.append({"kind": "attr", "seed": seed, "idx": i, "tier": tier})
    return out


# ------------------------------------------------------------ immutability --

class Snap:
    """Byte snapshots of caller-owned arrays / parameter objects."""

    def __init__(self):
        self.items = []
        self.count = 0

    def add(self, name, obj):
        if isinstance(obj, np.ndarray):
            self.items.append((name, obj, obj.tobytes(), obj.shape,
                               obj.strides, obj.dtype))
            self.count += 1
        elif isinstance(obj, (list, tuple)):
            for k, x in enumerate(obj):
                self.add(f"{name}[{k}]", x)
        elif hasattr(obj, "__dict__") and type(obj).__module__.startswith(
                "oqupy"):
            for k, v in vars(obj).items():
                if isinstance(v, (int, float, complex, str, bool,
                                  type(None))):
                    self.items.append((f"{name}.{k}", obj, (k, v), None,
                                       None, None))
                    self.count += 1
        return obj

    def verify(self, violations, where):
        for name, obj, snap, shape, strides, dtype in self.items:
            if shape is None:
                k, v = snap
                now = vars(obj).get(k)
                if now != v and not (now != now and v != v):
                    violations.append({
                        "what": f"{where}: attribute {name} of a caller "
                                f"object changed from {v!r} to {now!r}",
                        "mechanism": "caller-object-mutated", "detail": {}})
            else:
                if obj.tobytes() != snap or obj.shape != shape \
                        or obj.strides != strides or obj.dtype != dtype:
                    violations.append({
                        "what": f"{where}: caller array {name} was modified "
                                f"by the library",
                        "mechanism": "caller-array-mutated", "detail": {}})


def layout(a, kind):
    """The same values in a different memory layout / container."""
    a = np.array(a, dtype=complex)
    if kind == "C":
        return np.ascontiguousarray(a)
    if kind == "F":
        return np.asfortranarray(a)
    if kind == "Tview":
        return np.ascontiguousarray(a.T).T
    if kind == "strided":
        big = np.zeros(tuple(2 * s for s in a.shape), complex) + 7.7
        sl = tuple(slice(None, None, 2) for _ in a.shape)
        big[sl] = a
        return big[sl]
    if kind == "readonly":
        r = a.copy()
        r.setflags(write=False)
        return r
    if kind == "list":
        return a.tolist()
    if kind == "real":
        return np.array(a.real) if np.abs(a.imag).max() == 0 else a.copy()
    raise ValueError(kind)


class Inputs:
    """One consistent set of input values for all API groups."""

    def __init__(self, rng, real=False):
        d = 2
        self.d = d
        cp = (lambda s: gen.rand_herm(rng, d, s, real=real))
        self.h = cp(0.6)
        self.o = cp(0.5)
        self.lop = rng.normal(size=(d, d)) * 0.5 if real else \
            gen.cplx(rng, (d, d), 0.5)
        r = gen.rand_state(rng, d)
        self.rho = np.real(r).astype(complex) if real else r
        self.a = cp(1.0)
        self.b = cp(1.0)
        u = gen.haar_unitary(rng, d)
        self.sup = np.kron(u, u.conj())
        if real:
            q, _ = np.linalg.qr(rng.normal(size=(d, d)))
            self.sup = np.kron(q, q).astype(complex)
        self.target = cp(1.0)
        self.dt = 0.1
        self.n = 3
        self.params = rng.normal(size=(2 * self.n, 1))
        self.env = ancilla.random_env(rng, d, 2, "unitary")
        self.sd = dict(alpha=0.15, zeta=1.0, cutoff=3.0,
                       cutoff_type="gaussian", temperature=0.6)


def run_group(group, inp, lay, snap, violations, scribble=False):
    """Run one API group with all array inputs in layout `lay`.
    Returns a dict of result arrays. With scribble=True the caller arrays are
    overwritten after the objects were constructed and before computing."""
    import oqupy
    L = lambda x: layout(x, lay)
    d, dt, n = inp.d, inp.dt, inp.n
    owned = []

    def own(name, arr):
        """A caller-owned array in the requested layout (snapshotted)."""
        v = L(arr)
        snap.add(name, v)
        if isinstance(v, np.ndarray):
            owned.append(v)
        return v

    def maybe_scribble():
        if scribble:
            for v in owned:
                if v.flags.writeable:
                    v[...] = 3.21 - 1.5j if np.iscomplexobj(v) else 3.21
            # the snapshots no longer apply after the caller's own writes
            snap.items.clear()

    def pt_ancilla():
        pt = oqupy.SimpleProcessTensor(d, dt=dt)
        tens = inp.env.tensors(n)
        caps = inp.env.caps(n)
        tv = [own(f"mpo{k}", t) for k, t in enumerate(tens)]
        cv = [own(f"cap{k}", c) for k, c in enumerate(caps)]
        for k, t in enumerate(tv):
            pt.set_mpo_tensor(k, t)
        for k, c in enumerate(cv):
            pt.set_cap_tensor(k, c)
        return pt

    def plain_pt():
        return ancilla.build_process_tensor(inp.env, n, dt=dt)

    res = {}
    if group == "tempo":
        h, o, lop, rho = (own("H", inp.h), own("O", inp.o),
                          own("L", inp.lop), own("rho0", inp.rho))
        corr = gen.make_power_law(inp.sd)
        params = oqupy.TempoParameters(dt=dt, epsrel=1e-8, dkmax=2)
        snap.add("TempoParameters", params)
        snap.add("correlations", corr)
        sysm = oqupy.System(h, [0.1], [lop])
        bath = oqupy.Bath(o, corr)
        if isinstance(rho, list):
            rho = np.array(rho)          # initial_state must be an ndarray
        t = oqupy.Tempo(sysm, bath, params, rho, 0.0)
        maybe_scribble()
        res["tempo"] = np.array(t.compute(lib.end_time(0.0, dt, n),
                                          progress_type="silent").states)
        pt = oqupy.pt_tempo_compute(bath, 0.0, lib.end_time(0.0, dt, n),
                                    params, progress_type="silent")
        res["pt"] = np.array(oqupy.compute_dynamics(
            sysm, inp.rho.copy(), process_tensor=pt,
            progress_type="silent").states)
    elif group == "dynamics":
        h, lop, rho = own("H", inp.h), own("L", inp.lop), own("rho0", inp.rho)
        sysm = oqupy.System(h, [0.2], [lop])
        pt = plain_pt()
        if isinstance(rho, list):
            rho = np.array(rho)          # initial_state must be an ndarray
        # (the caller's arrays are overwritten right after construction,
        # before the system is used for the first time, and the system is
        # used twice)
        maybe_scribble()
        res["cd"] = np.array(oqupy.compute_dynamics(
            sysm, inp.rho.copy() if scribble else rho, process_tensor=pt,
            progress_type="silent").states)
        res["cd2"] = np.array(oqupy.compute_dynamics(
            sysm, inp.rho.copy(), process_tensor=pt,
            progress_type="silent").states)
    elif group == "correlations":
        h, a, b, rho = (own("H", inp.h), own("A", inp.a), own("B", inp.b),
                        own("rho0", inp.rho))
        sysm = oqupy.System(h)
        pt = plain_pt()
        if isinstance(rho, list):
            rho, a, b = np.array(rho), np.array(a), np.array(b)
        for order in ("ordered", "anti"):
            _, c = oqupy.compute_correlations(
                sysm, pt, a, b, [2, 0, 1], slice(None), time_order=order,
                initial_state=rho, progress_type="silent")
            res["corr_" + order] = np.nan_to_num(np.asarray(c), nan=-7.0)
        _, c = oqupy.compute_correlations_nt(
            sysm, pt, [a, b, a], [0, slice(None), [3, 1]],
            ["left", "right", "left"], initial_state=rho,
            progress_type="silent")
        res["corr_nt"] = np.nan_to_num(np.asarray(c), nan=-7.0)
    elif group == "gradient":
        rho, tgt = own("rho0", inp.rho), own("target", inp.target)
        base = np.real(inp.params).astype(float)
        if lay == "F":
            par = np.asfortranarray(base)
        elif lay == "Tview":
            par = np.ascontiguousarray(base.T).T
        elif lay == "strided":
            par = np.repeat(base, 2, axis=0)[::2]
        elif lay == "readonly":
            par = base.copy()
            par.setflags(write=False)
        else:
            par = base.copy()
        snap.add("parameters", par)
        owned.append(par)
        hk = inp.h.copy()
        psys = oqupy.ParameterizedSystem(lambda x: x * hk)
        pt = plain_pt()
        if isinstance(rho, list):
            rho, tgt = np.array(rho), np.array(tgt)
        r = oqupy.state_gradient(psys, rho, tgt, [pt], par,
                                 progress_type="silent")
        res["gradient"] = np.asarray(r["gradient"])
        res["grad_dyn"] = np.array(r["dynamics"].states)
    elif group == "control":
        sup, rho, h = own("control", inp.sup), own("rho0", inp.rho), \
            own("H", inp.h)
        sysm = oqupy.System(h)
        c = oqupy.Control(d)
        c.add_single(1, sup)
        c.add_single(float(2.1 * dt), sup, post=True)
        pt = plain_pt()
        if isinstance(rho, list):
            rho = np.array(rho)
        maybe_scribble()
        res["ctrl"] = np.array(oqupy.compute_dynamics(
            sysm, inp.rho.copy() if scribble else rho, process_tensor=pt,
            control=c, progress_type="silent").states)
    elif group == "chain":
        h, o, lop, rho, sup = (own("H", inp.h), own("O", inp.o),
                               own("L", inp.lop), own("rho0", inp.rho),
                               own("control", inp.sup))
        chain = oqupy.SystemChain([d, d])
        chain.add_site_hamiltonian(0, h)
        chain.add_nn_hamiltonian(0, o, h)
        chain.add_site_dissipation(1, lop, 0.2)
        chain.add_nn_dissipation(0, lop, o, 0.1)
        cc = oqupy.ChainControl([d, d])
        cc.add_single_site_control(sup, 0, 1)
        mps = oqupy.AugmentedMPS([rho, rho])
        tparams = oqupy.PtTebdParameters(dt=dt, epsrel=1e-9)
        snap.add("PtTebdParameters", tparams)
        tebd = oqupy.PtTebd(mps, chain, [None, plain_pt()], tparams,
                            chain_control=cc, dynamics_sites=[0, 1, (0, 1)])
        maybe_scribble()
        r = tebd.compute(n, progress_type="silent")
        res["tebd"] = np.concatenate([
            np.array(r["dynamics"][s].states).reshape(n + 1, -1)
            for s in (0, 1, (0, 1))], axis=1)
    elif group == "process_tensor":
        pt = pt_ancilla()
        h, rho = own("H", inp.h), own("rho0", inp.rho)
        sysm = oqupy.System(h)
        if isinstance(rho, list):
            rho = np.array(rho)
        maybe_scribble()
        res["pt_hand"] = np.array(oqupy.compute_dynamics(
            sysm, inp.rho.copy() if scribble else rho, process_tensor=pt,
            progress_type="silent").states)
    elif group == "bath_dynamics":
        # TwoTimeBathCorrelations with a caller-supplied system correlation
        # matrix (as returned by compute_correlations: NaN outside the time
        # ordering)
        o = np.diag(np.diag(inp.o).real).astype(complex)
        corr = gen.make_power_law(inp.sd)
        bath = oqupy.Bath(o, corr)
        params = oqupy.TempoParameters(dt=dt, epsrel=1e-8, dkmax=None)
        pt = oqupy.pt_tempo_compute(bath, 0.0, lib.end_time(0.0, dt, n),
                                    params, progress_type="silent")
        sysm = oqupy.System(np.diag(np.diag(inp.h).real).astype(complex))
        rho = np.diag(np.real(np.diag(inp.rho))).astype(complex)
        _, cmat = oqupy.compute_correlations(
            sysm, pt, o, o, slice(n), slice(n), initial_state=rho,
            progress_type="silent")
        cmat = np.array(cmat)
        sc = own("system_correlations", cmat)
        if isinstance(sc, list):
            sc = np.array(sc)
        bd = oqupy.TwoTimeBathCorrelations(sysm, bath, pt, initial_state=rho,
                                           system_correlations=sc)
        _, occ = bd.occupation(1.1, dw=0.01, change_only=True,
                               progress_type="silent")
        res["occupation"] = np.asarray(occ)
        res["bath_corr"] = np.array([bd.correlation(
            1.1, 0.1, 0.9, 0.2, dw=(0.01, 0.01), dagg=(1, 0),
            progress_type="silent")])
        res["nan_pattern"] = np.isnan(np.asarray(sc, dtype=complex)
                                      ).astype(float)
    elif group == "meanfield":
        rho = own("rho0", inp.rho)
        hv = own("H", inp.h)
        xv = own("X", inp.a)

        def hfun(t, a):
            return np.array(hv) + np.real(a) * np.array(xv)

        def eom(t, states, a):
            return -0.3 * a - 0.2j * np.trace(np.array(xv) @ states[0])
        mfs = oqupy.MeanFieldSystem(
            [oqupy.TimeDependentSystemWithField(hfun)], eom)
        bath = oqupy.Bath(own("O", np.diag(np.diag(inp.o).real)),
                          gen.make_power_law(inp.sd))
        params = oqupy.TempoParameters(dt=dt, epsrel=1e-8, dkmax=2)
        if isinstance(rho, list):
            rho = np.array(rho)
        t = oqupy.MeanFieldTempo(mfs, [bath], params, [rho], 0.2 + 0.1j, 0.0)
        if scribble:
            # H and X are used by the caller's own callables: keep them
            owned[:] = [v for v in owned if v is not hv and v is not xv]
        maybe_scribble()
        dyn = t.compute(lib.end_time(0.0, dt, n), progress_type="silent")
        res["mf_states"] = np.array(dyn.system_dynamics[0].states)
        res["mf_field"] = np.array(dyn.fields)
    return res


def compare(res, ref, tol, what, violations, mech):
    worst = 0.0
    for k in ref:
        if k not in res:
            continue
        a, b = np.asarray(res[k]), np.asarray(ref[k])
        if a.shape != b.shape:
            violations.append({"what": f"{what}: result '{k}' has shape "
                               f"{a.shape} instead of {b.shape}",
                               "mechanism": mech, "detail": {}})
            continue
        dev = float(np.abs(a - b).max())
        worst = max(worst, dev)
        if not dev <= tol:
            violations.append({
                "what": f"{what}: result '{k}' differs by {dev:.3e}",
                "mechanism": mech, "detail": {}})
    return worst


def run_layout(case):
    rng = gen.rng_for(case["seed"], "c20l", case["group"], case["rep"])
    real = case["layout"] == "real"
    inp = Inputs(rng, real=real)
    violations = []
    snap0 = Snap()
    ref = run_group(case["group"], inp, "C", snap0, violations)
    snap = Snap()
    res = run_group(case["group"], inp, case["layout"], snap, violations)
    snap.verify(violations, f"{case['group']} ({case['layout']})")
    snap0.verify(violations, f"{case['group']} (C)")
    tol = GROUP_TOL.get(case["group"], TOL)
    worst = compare(res, ref, tol, f"{case['group']} with "
                    f"{case['layout']} inputs", violations,
                    "layout-dependent")
    # non-triviality: other values give other results
    inp2 = Inputs(gen.rng_for(case["seed"], "c20l2", case["group"]),
                  real=real)
    other = run_group(case["group"], inp2, "C", Snap(), [])
    sens = max(float(np.abs(np.asarray(other[k]) - np.asarray(ref[k])).max())
               for k in ref if np.asarray(other[k]).shape
               == np.asarray(ref[k]).shape)
    return {"violations": violations,
            "cells": ["layout:" + case["layout"], "group:" + case["group"]],
            "monitors": {"immutability_snapshots": snap.count + snap0.count},
            "nontrivial": sens > 1e-3,
            "signature": f"layout-{case['group']}-{case['layout']}-"
                         f"{case['rep']}", "maxratio": worst / tol,
            "obs": {"layout_dev": worst},
            "sample": {"kind": "layout", "group": case["group"],
                       "layout": case["layout"], "dev": worst,
                       "arrays_snapshotted": snap.count}}


def run_alias(case):
    rng = gen.rng_for(case["seed"], "c20a", case["group"], case["rep"])
    inp = Inputs(rng)
    violations = []
    ref = run_group(case["group"], inp, "C", Snap(), violations)
    res = run_group(case["group"], inp, "C", Snap(), violations,
                    scribble=True)
    tol = GROUP_TOL.get(case["group"], TOL)
    worst = compare(res, ref, tol, f"{case['group']}: after the caller "
                    "overwrote its input arrays (objects were built before)",
                    violations, "aliases-caller-array")
    return {"violations": violations,
            "cells": ["alias", "group:" + case["group"]],
            "monitors": {"alias_runs": 1}, "nontrivial": True,
            "signature": f"alias-{case['group']}-{case['rep']}",
            "maxratio": worst / tol, "obs": {"alias_dev": worst},
            "sample": {"kind": "alias", "group": case["group"],
                       "dev": worst}}


# ------------------------------------------------------------ history -------

def run_history(case):
    import oqupy
    i = case["idx"]
    rng = gen.rng_for(case["seed"], "c20h", i)
    d, dt, n = 2, 0.1, 3
    sdp = gen.sd_params(rng)
    sdp["alpha"] = min(sdp["alpha"], 0.3)
    h = gen.rand_herm(rng, d, 0.6)
    lop = gen.cplx(rng, (d, d), 0.4)
    o = gen.rand_herm(rng, d, 0.5)
    rho = gen.rand_state(rng, d)
    a, b = gen.rand_herm(rng, d), gen.rand_herm(rng, d)
    pars = rng.normal(size=(2 * n, 1))
    tgt = gen.rand_herm(rng, d)
    end = lib.end_time(0.0, dt, n)

    kick = scen.random_superop(gen.rng_for(case["seed"], "c20hk", i), d,
                               "unitary")
    kick2 = scen.random_superop(gen.rng_for(case["seed"], "c20hk2", i), d,
                                "channel")

    kick3 = scen.random_superop(gen.rng_for(case["seed"], "c20hk3", i), d,
                                "unitary")

    def make_control(rev=False):
        # three time-stamped controls that fall into one step on the
        # dt = 0.1 grids (two steps on the dt = 0.05 grid) and act in
        # chronological order; the shared object gets them in reverse order
        # of their times, the fresh ones chronologically: equal content
        c = oqupy.Control(d)
        stamped = [(0.17, kick2), (0.2, kick), (0.22, kick3)]
        for t_, k_ in (stamped[::-1] if rev else stamped):
            c.add_single(t_, k_.copy())             # float times
        c.add_single(1, kick2.copy(), post=True)    # int step
        return c

    def fresh(rev=False):
        corr = gen.make_power_law(sdp) if i % 2 else gen.make_custom_sd(sdp)
        return dict(corr=corr, bath=oqupy.Bath(o.copy(), corr),
                    sysm=oqupy.System(h.copy(), [0.1], [lop.copy()]),
                    params=oqupy.TempoParameters(dt=dt, epsrel=1e-8, dkmax=2),
                    psys=oqupy.ParameterizedSystem(lambda x: x * h),
                    tparams=oqupy.PtTebdParameters(dt=dt, epsrel=1e-9),
                    control=make_control(rev))

    def make_pt(ob):
        return oqupy.pt_tempo_compute(ob["bath"], 0.0, end, ob["params"],
                                      progress_type="silent")

    def op_tempo(ob, pt):
        return np.array(oqupy.Tempo(ob["sysm"], ob["bath"], ob["params"],
                                    rho.copy(), 0.0).compute(
            end, progress_type="silent").states)

    def op_dyn(ob, pt):
        return np.array(oqupy.compute_dynamics(
            ob["sysm"], rho.copy(), process_tensor=pt,
            progress_type="silent").states)

    # one Control object (a float-time and an int-step control) used on
    # different time grids: t=0.2 is step 2, step 1 (start 0.1), step 4
    # (dt 0.05) - what it means must be worked out per computation
    def op_ctl(ob, pt):
        return np.array(oqupy.compute_dynamics(
            ob["sysm"], rho.copy(), process_tensor=pt, control=ob["control"],
            progress_type="silent").states)

    def op_ctl_shift(ob, pt):
        return np.array(oqupy.compute_dynamics(
            ob["sysm"], rho.copy(), process_tensor=pt, control=ob["control"],
            start_time=0.1, progress_type="silent").states)

    def op_ctl_dt(ob, pt):
        if "pt2" not in ob:
            ob["pt2"] = oqupy.pt_tempo_compute(
                ob["bath"], 0.0, lib.end_time(0.0, 0.05, 2 * n),
                oqupy.TempoParameters(dt=0.05, epsrel=1e-8, dkmax=4),
                progress_type="silent")
        return np.array(oqupy.compute_dynamics(
            ob["sysm"], rho.copy(), process_tensor=ob["pt2"],
            control=ob["control"], progress_type="silent").states)

    def op_corr(ob, pt):
        return np.nan_to_num(np.asarray(oqupy.compute_correlations(
            ob["sysm"], pt, a.copy(), b.copy(), slice(None), [2, 0],
            initial_state=rho.copy(), progress_type="silent")[1]), nan=-7.0)

    def op_grad(ob, pt):
        return np.asarray(oqupy.state_gradient(
            ob["psys"], rho.copy(), tgt.copy(), [pt], pars.copy(),
            progress_type="silent")["gradient"])

    def op_tebd(ob, pt):
        chain = oqupy.SystemChain([d, d])
        chain.add_site_hamiltonian(0, h.copy())
        chain.add_nn_hamiltonian(0, o.copy(), o.copy())
        r = oqupy.PtTebd(oqupy.AugmentedMPS([rho.copy(), rho.copy()]), chain,
                         [pt, None], ob["tparams"],
                         dynamics_sites=[0, 1]).compute(
            n, progress_type="silent")
        return np.array([r["dynamics"][0].states, r["dynamics"][1].states])

    def op_pt(ob, pt):
        p2 = make_pt(ob)
        return np.array(oqupy.compute_dynamics(
            ob["sysm"], rho.copy(), process_tensor=p2,
            progress_type="silent").states)

    def op_eta(ob, pt):
        c = ob["corr"]
        return np.array([c.correlation_2d_integral(dt, k * dt,
                                                   shape="square")
                         for k in range(1, 4)]
                        + [c.correlation(0.3)])
    def op_peek(ob, pt):
        """Read every array-valued attribute / getter of the shared objects
        (reads must be free of side effects; the arrays are not written to:
        several getters of the pinned tree hand out their own storage and the
        property does not promise copies)."""
        b, sm = ob["bath"], ob["sysm"]
        for obj, names in ((b, ("coupling_operator", "unitary_transform",
                                "north_degeneracy_map",
                                "west_degeneracy_map", "correlations")),
                           (sm, ("hamiltonian", "gammas",
                                 "lindblad_operators", "dimension")),
                           (pt, ("transform_in", "transform_out", "dt",
                                 "max_step", "hilbert_space_dimension"))):
            for nm in names:
                try:
                    getattr(obj, nm)
                except AttributeError:
                    pass
        sm.liouvillian()
        pt.get_bond_dimensions()
        for k in range(len(pt)):
            if k % 2:
                pt.get_mpo_tensor(k)
                pt.get_mpo_tensor(k, transformed=False)
            else:
                pt.get_mpo_tensor(k, transformed=False)
                pt.get_mpo_tensor(k)
        for k in range(len(pt) + 1):
            pt.get_cap_tensor(k)
        for st in range(0, 4):
            ob["control"].get_controls(st, dt=dt, start_time=0.0)
            ob["control"].get_controls(st, dt=0.05, start_time=0.1)
        str(b), str(sm), str(pt), str(ob["params"])
        return np.zeros(1)

    edit_devs = []

    def op_ptedit(ob, pt):
        """A process tensor that was already used is edited through its
        public interface (a stored rank-3 tensor replaced by another rank-3
        tensor, caps recomputed) and used again: it must then behave like a
        process tensor that was built with the new tensors from scratch."""
        p2 = make_pt(ob)
        oqupy.compute_dynamics(ob["sysm"], rho.copy(), process_tensor=p2,
                               progress_type="silent")          # first use
        n2 = len(p2)
        raws = []
        for k in range(n2):
            t4 = np.array(p2.get_mpo_tensor(k, transformed=False))
            raws.append(np.stack([t4[:, :, q, q] for q in
                                  range(t4.shape[2])], axis=-1))
        kk = 1 % n2
        new = raws[kk] * (0.5 + 0.25j)
        p2.set_mpo_tensor(kk, new)
        p2.compute_caps()
        edited = np.array(oqupy.compute_dynamics(
            ob["sysm"], rho.copy(), process_tensor=p2,
            progress_type="silent").states)
        scratch_pt = oqupy.SimpleProcessTensor(
            p2.hilbert_space_dimension, dt=p2.dt,
            transform_in=p2.transform_in, transform_out=p2.transform_out)
        for k in range(n2):
            scratch_pt.set_mpo_tensor(k, new if k == kk else raws[k])
        scratch_pt.compute_caps()
        scratch = np.array(oqupy.compute_dynamics(
            ob["sysm"], rho.copy(), process_tensor=scratch_pt,
            progress_type="silent").states)
        edit_devs.append(float(np.abs(edited - scratch).max()))
        return np.zeros(1)

    reuse_devs = []

    def op_chainctl(ob, pt):
        """One ChainControl object (two controls composed on one site and
        step) serves two chain computations: the second must see what the
        first saw."""
        k1 = scen.random_superop(gen.rng_for(case["seed"], "c20cc1", i), d,
                                 "unitary")
        k2 = scen.random_superop(gen.rng_for(case["seed"], "c20cc2", i), d,
                                 "channel")
        cc = oqupy.ChainControl([d, d])
        cc.add_single_site_control(k1, 0, 1)
        cc.add_single_site_control(k2, 0, 1)
        cc.add_single_site_control(k1, 1, 2, post=True)
        cc.add_single_site_control(k2, 1, 2, post=True)
        chain = oqupy.SystemChain([d, d])
        chain.add_site_hamiltonian(0, h.copy())
        chain.add_nn_hamiltonian(0, o.copy(), o.copy())
        runs = []
        for _ in range(2):
            r = oqupy.PtTebd(oqupy.AugmentedMPS([rho.copy(), rho.copy()]),
                             chain, [None, None], ob["tparams"],
                             chain_control=cc,
                             dynamics_sites=[0, 1]).compute(
                n, progress_type="silent")
            runs.append(np.array([r["dynamics"][0].states,
                                  r["dynamics"][1].states]))
        reuse_devs.append(("ChainControl used by a second PtTebd",
                           float(np.abs(runs[1] - runs[0]).max())))
        return runs[0]

    def op_gradloop(ob, pt):
        """An optimiser loop: ONE system and ONE parameter table, the table
        updated in place between the calls; every call must answer for the
        values the table holds at that time."""
        tab = pars.copy()
        worst_ = 0.0
        for rep in range(3):
            tab[...] = pars * (1.0 + 0.4 * rep)
            r = oqupy.state_gradient(ob["psys"], rho.copy(), tgt.copy(), [pt],
                                     tab, progress_type="silent")
            f = oqupy.state_gradient(
                oqupy.ParameterizedSystem(lambda x: x * h), rho.copy(),
                tgt.copy(), [pt], tab.copy(), progress_type="silent")
            worst_ = max(worst_, float(np.abs(
                np.asarray(r["gradient"]) - np.asarray(f["gradient"])).max()),
                float(np.abs(np.array(r["dynamics"].states)
                             - np.array(f["dynamics"].states)).max()))
        reuse_devs.append(("ParameterizedSystem and parameter table re-used "
                           "in a loop, table updated in place", worst_))
        return np.zeros(1)

    def op_ptlist(ob, pt):
        """The list of process tensors handed to PtTebd belongs to the
        caller: it is not rewritten, and re-using it for the next
        configuration after the object was set up changes nothing."""
        chain = oqupy.SystemChain([d, d])
        chain.add_site_hamiltonian(0, h.copy())
        chain.add_nn_hamiltonian(0, o.copy(), o.copy())
        outs = []
        for reuse in (False, True):
            lst = [pt, None]
            t_ = oqupy.PtTebd(oqupy.AugmentedMPS([rho.copy(), rho.copy()]),
                              chain, lst, ob["tparams"],
                              dynamics_sites=[0, 1])
            if lst[0] is not pt or lst[1] is not None or len(lst) != 2:
                reuse_devs.append(("PtTebd rewrote the caller's list of "
                                   "process tensors", 1.0))
            if reuse:
                lst[0], lst[1] = None, None     # the caller moves on
            r = t_.compute(n, progress_type="silent")
            outs.append(np.array([r["dynamics"][0].states,
                                  r["dynamics"][1].states]))
        reuse_devs.append(("PtTebd whose caller re-used the list of process "
                           "tensors after construction",
                           float(np.abs(outs[1] - outs[0]).max())))
        return outs[0]

    def op_scan5(ob, pt):
        """A scan over five other systems with dissipators in between (the
        shared system must be unaffected by what else was computed)."""
        acc = 0.0
        for k in range(5):
            hk_ = h * (1.0 + 0.1 * (k + 1))
            sk_ = oqupy.System(hk_, [0.05 * (k + 1)], [lop.copy()])
            acc += float(np.abs(sk_.liouvillian()).sum())
            oqupy.compute_dynamics(sk_, rho.copy(), dt=dt, num_steps=1,
                                   progress_type="silent")
        return np.zeros(1)

    def op_bathdyn(ob, pt):
        """TwoTimeBathCorrelations asked for an early time first and a later
        time afterwards answers the later question like a fresh object."""
        od = np.diag(np.diag(o).real).astype(complex)
        bath_d = oqupy.Bath(od, ob["corr"])
        ptd = oqupy.pt_tempo_compute(bath_d, 0.0, lib.end_time(0.0, dt, 4),
                                     ob["params"], progress_type="silent")
        sd_ = oqupy.System(np.diag(np.diag(h).real).astype(complex))
        rd = np.diag(np.real(np.diag(rho))).astype(complex)
        rd = rd / np.trace(rd)
        vals = []
        for early in (True, False):
            bd = oqupy.TwoTimeBathCorrelations(sd_, bath_d, ptd,
                                               initial_state=rd)
            if early:
                bd.correlation(1.1, dt, 0.9, dt, dw=(0.01, 0.01),
                               dagg=(1, 0), progress_type="silent")
                bd.correlation(0.7, dt, 0.9, 2 * dt, dw=(0.01, 0.01),
                               dagg=(0, 1), progress_type="silent")
            c_late = bd.correlation(1.1, 2 * dt, 0.9, 3 * dt,
                                    dw=(0.01, 0.01), dagg=(1, 0),
                                    progress_type="silent")
            vals.append(complex(c_late))
        reuse_devs.append(("TwoTimeBathCorrelations after an earlier-time "
                           "query", abs(vals[0] - vals[1])
                           / max(abs(vals[1]), 1e-30)))
        return np.zeros(1)

    factory_devs = []

    def op_factory(ob, pt):
        """The library's operator factories hand out arrays that belong to
        the caller: adapting one in place (h = sigma('x'); h *= 0.65) must
        not change what the factory returns the next time."""
        from oqupy import operators as ops_
        calls = [(ops_.sigma, n) for n in ("id", "x", "y", "z", "+", "-")] \
            + [(ops_.spin_dm, n) for n in ("up", "down", "z+", "x+", "y-",
                                           "mixed")] \
            + [(ops_.identity, 3), (ops_.create, 3), (ops_.destroy, 4)]
        for fn, arg in calls:
            first = fn(arg)
            want = np.array(first, dtype=complex)
            if isinstance(first, np.ndarray) and first.flags.writeable:
                first *= 0.65
                first[0, 0] = 0.8
            again = np.asarray(fn(arg), dtype=complex)
            factory_devs.append((fn.__name__, str(arg),
                                 float(np.abs(again - want).max())))
        return np.zeros(1)

    def op_guess(ob, pt):
        """A read-only estimate of computation parameters for the shared
        system and bath."""
        import warnings
        with warnings.catch_warnings():
            warnings.simplefilter("ignore")
            prm = oqupy.guess_tempo_parameters(
                bath=ob["bath"], start_time=0.0, end_time=end,
                system=ob["sysm"], tolerance=1e-2)
        return np.array([prm.dt, -1.0 if prm.dkmax is None else prm.dkmax,
                         prm.epsrel])

    def object_state(ob):
        """What the public attributes of the shared parameter objects show
        (bytes)."""
        b, sm = ob["bath"], ob["sysm"]
        parts = [np.asarray(b.coupling_operator), np.asarray(sm.hamiltonian),
                 np.asarray(sm.gammas, dtype=complex)]
        parts += [np.asarray(x) for x in sm.lindblad_operators]
        c = ob["corr"]
        parts.append(np.array([c.cutoff, c.temperature], dtype=complex))
        prm = ob["params"]
        parts.append(np.array([prm.dt, prm.epsrel, -1 if prm.dkmax is None
                               else prm.dkmax], dtype=complex))
        return b"".join(np.ascontiguousarray(x, dtype=complex).tobytes()
                        for x in parts)

    ops = {"gradloop": op_gradloop, "ptlist": op_ptlist, "scan5": op_scan5,
           "chainctl": op_chainctl, "bathdyn": op_bathdyn,
           "factory": op_factory, "ptedit": op_ptedit, "guess": op_guess, "peek": op_peek, "tempo": op_tempo, "dyn": op_dyn, "corr": op_corr,
           "grad": op_grad, "tebd": op_tebd, "pt": op_pt, "eta": op_eta,
           "ctl": op_ctl, "ctl_shift": op_ctl_shift, "ctl_dt": op_ctl_dt}
    names = list(ops)
    seq = [names[int(x)] for x in rng.integers(0, len(names),
                                               size=int(rng.integers(4, 8)))]
    if i % 2 == 1:
        seq[0] = "peek"
        seq[len(seq) // 2] = "peek"
    if i % 4 == 2:
        seq[-1] = "ptedit"
    if i % 4 == 0:
        seq[0] = "factory"
    if i % 4 == 1:
        seq[-1] = ["chainctl", "bathdyn", "ptlist", "gradloop"][(i // 4) % 4]
    if i % 4 == 3 and len(seq) >= 4:
        # use the shared system, scan five others, use it again
        seq[1], seq[2], seq[3] = "dyn", "scan5", "dyn"
    if i % 4 == 3:
        # estimate first, compute afterwards
        seq[0] = "guess"
        if seq[1] in ("peek", "guess", "eta"):
            seq[1] = "dyn"
    if i % 2 == 0:
        # make sure the shared Control meets at least two different grids
        ctl = ["ctl", "ctl_shift", "ctl_dt"]
        k0 = int(rng.integers(0, 3))
        seq[0], seq[-1] = ctl[k0], ctl[(k0 + 1 + int(rng.integers(0, 2))) % 3]
    forced = {0: ["factory", "dyn", "ptedit", "dyn"],
              1: ["peek", "dyn", "peek", "chainctl"],
              2: ["ctl", "peek", "ctl_dt", "ptedit", "grad", "gradloop"],
              3: ["guess", "dyn", "scan5", "dyn"],
              4: ["factory", "ctl", "ctl_shift", "tebd"],
              5: ["peek", "tempo", "peek", "bathdyn"],
              6: ["ctl_shift", "peek", "ctl_dt", "eta", "corr", "ptedit"],
              7: ["guess", "dyn", "scan5", "dyn", "ptlist"]}
    if i in forced:
        # the first eight histories are fixed (every kind of operation is
        # met in every run); the others are seeded random sequences
        seq = forced[i]
    shared = fresh(rev=True)
    shared_pt = make_pt(shared)
    violations = []
    worst = 0.0
    # tolerance: truncated tensor networks recomputed from equal inputs are
    # deterministic, so equality is demanded tightly
    for step, name in enumerate(seq):
        state0 = object_state(shared)
        got = ops[name](shared, shared_pt)
        if object_state(shared) != state0:
            violations.append({
                "what": f"history {seq}: operation {step} ({name}) changed "
                        f"what the caller's system / bath / parameter "
                        f"objects show (public attributes differ after the "
                        f"call)", "mechanism": "caller-object-modified",
                "detail": {"seq": seq}})
            break
        f = fresh()
        exp = ops[name](f, make_pt(f))
        if got.shape != exp.shape:
            violations.append({"what": f"history {seq}: step {step} ({name}) "
                               "shape differs from a fresh replay",
                               "mechanism": "stale-state", "detail": {}})
            break
        dev = float(np.abs(got - exp).max())
        # quadrature values are deterministic; truncated tensor networks are
        # reproducible only up to the requested truncation tolerance (SVD
        # gauge / alignment dependent rounding): 100*epsrel
        htol = 1e-12 if name == "eta" else 2e-6
        worst = max(worst, dev / htol)
        if dev > htol:
            violations.append({
                "what": f"history {seq}: operation {step} ({name}) on "
                        f"re-used objects differs from the same operation "
                        f"on freshly built equal objects by {dev:.3e}",
                "mechanism": "stale-state", "detail": {"seq": seq}})
            break
    cells = ["history"]
    if edit_devs:
        cells.append("history:process-tensor-edited-after-use")
        if max(edit_devs) > 1e-10:
            violations.append({
                "what": f"a process tensor whose rank-3 tensor was replaced "
                        f"(set_mpo_tensor + compute_caps) after its first use "
                        f"differs from one built with the new tensors from "
                        f"scratch by {max(edit_devs):.3e}",
                "mechanism": "stale-state", "detail": {"seq": seq}})
    for what_, dv_ in reuse_devs:
        cells.append("history:object-reused-inside-one-operation")
        if dv_ > 1e-7:
            violations.append({
                "what": f"{what_}: differs from the first / a fresh use by "
                        f"{dv_:.3e}", "mechanism": "stale-state",
                "detail": {"seq": seq}})
    if factory_devs:
        cells.append("history:factory-results-adapted-in-place")
        bad = [x for x in factory_devs if x[2] > 0]
        if bad:
            violations.append({
                "what": f"oqupy.operators.{bad[0][0]}({bad[0][1]!r}) returns "
                        f"something else after an earlier result was "
                        f"modified in place by its caller (changed by "
                        f"{bad[0][2]:.3g}; {len(bad)} factory calls affected)",
                "mechanism": "stale-state", "detail": {"seq": seq}})
    if "scan5" in seq:
        cells.append("history:other-systems-in-between")
    if seq[0] == "guess":
        cells.append("history:estimate-then-compute")
    if "peek" in seq[:-1]:
        cells.append("history:getters-read-in-between")
    if len({x for x in seq if x.startswith("ctl")}) >= 2:
        cells.append("history:control-on-two-grids")
    return {"violations": violations, "cells": cells,
            "monitors": {"history_ops_compared": len(seq)},
            "nontrivial": len(set(seq)) >= 2,
            "signature": "hist-" + "-".join(seq), "maxratio": worst,
            "obs": {"history_dev": worst},
            "sample": {"kind": "history", "sequence": seq, "dev": worst}}


# ------------------------------------------------------------ attributes ----

def run_attr(case):
    import oqupy
    i = case["idx"]
    rng = gen.rng_for(case["seed"], "c20t", i)
    violations, cells = [], []
    attr = ["alpha", "temperature", "cutoff", "zeta", "cutoff_type",
            "j_function", "pttebd_parameters", "alpha"][i % 8]
    cells.append("attr:" + attr)
    dt = 0.1
    worst = 0.0
    if attr == "pttebd_parameters":
        d = 2
        chain = oqupy.SystemChain([d, d])
        chain.add_site_hamiltonian(0, gen.rand_herm(rng, d, 0.6))
        chain.add_nn_hamiltonian(0, gen.rand_herm(rng, d, 0.6),
                                 gen.rand_herm(rng, d, 0.6))
        rhos = [gen.rand_state(rng, d), gen.rand_state(rng, d)]
        prm = oqupy.PtTebdParameters(dt=0.1, epsrel=1e-9, order=2)
        tebd = oqupy.PtTebd(oqupy.AugmentedMPS(rhos), chain, [None, None],
                            prm, dynamics_sites=[0, 1])
        ref = oqupy.PtTebd(oqupy.AugmentedMPS(rhos), chain, [None, None],
                           oqupy.PtTebdParameters(dt=0.1, epsrel=1e-9,
                                                  order=2),
                           dynamics_sites=[0, 1]).compute(
            3, progress_type="silent")
        prm.dt = 0.2
        prm.epsrel = 1e-3
        prm.order = 1
        got = tebd.compute(3, progress_type="silent")
        dev = max(float(np.abs(np.array(got["time"])
                               - np.array(ref["time"])).max()),
                  float(np.abs(np.array(got["dynamics"][0].states)
                               - np.array(ref["dynamics"][0].states)).max()))
        worst = dev
        if dev > 1e-12:
            violations.append({
                "what": f"a PtTebd built before its caller changed the "
                        f"PtTebdParameters object follows the new values "
                        f"(deviation {dev:.3e}, times {list(got['time'])})",
                "mechanism": "parameters-aliased", "detail": {}})
        # setters answer for current values
        if prm.dt != 0.2 or prm.order != 1:
            violations.append({"what": "PtTebdParameters setters ignored",
                               "mechanism": "attribute-update", "detail": {}})
    else:
        p = gen.sd_params(rng)
        p["temperature"] = max(p["temperature"], 0.2)
        custom = (attr == "j_function") or (i % 3 == 0 and attr != "alpha"
                                            and attr != "zeta")
        mk = gen.make_custom_sd if custom else gen.make_power_law
        corr = mk(p)
        o = np.diag(rng.normal(size=2)).astype(complex)
        bath_before = oqupy.Bath(o, corr)
        # warm the caches with the old parameters
        times = [dt, 2 * dt, 0.37]

        def observe(c):
            vals = [c.correlation(0.3), c.correlation(0.05)]
            for t1 in (0.0, dt, 2 * dt):
                vals.append(c.correlation_2d_integral(
                    dt, t1, shape="upper-triangle" if t1 == 0 else "square"))
            vals.append(c.correlation_2d_integral(dt, 2 * dt, 2 * dt + 0.15,
                                                  shape="rectangle"))
            vals.append(c.eta_function(0.37))
            vals.append(c.spectral_density(1.3))
            if c.temperature > 0:
                vals.append(c.correlation_2d_integral(dt, dt, shape="square",
                                                      matsubara=True))
            return np.array(vals, dtype=complex)
        old_vals = observe(corr)
        old_bath_vals = observe(bath_before.correlations)
        rho0 = gen.rand_state(rng, 2)
        params = oqupy.TempoParameters(dt=dt, epsrel=1e-8, dkmax=2)
        sysm = oqupy.System(gen.rand_herm(rng, 2, 0.6))
        tempo_before = oqupy.Tempo(sysm, bath_before, params, rho0, 0.0)
        ref_dyn = np.array(oqupy.Tempo(sysm, oqupy.Bath(o, mk(p)), params,
                                       rho0, 0.0).compute(
            lib.end_time(0.0, dt, 3), progress_type="silent").states)
        # the object that is updated: the caller's own correlations object,
        # or the one the bath hands out (bath.correlations), adapted to
        # derive a variant of the bath ("the same bath, but hotter")
        handout = bool((i // 8) % 2 == 1)
        if handout:
            corr = bath_before.correlations
            observe(corr)
            cells.append("attr:updated-on-bath.correlations")
        # the update
        p2 = dict(p)
        if attr == "alpha":
            if custom:
                attr_eff = "cutoff"
            p2["alpha"] = p["alpha"] * 2.5
            corr.alpha = p2["alpha"]
        elif attr == "temperature":
            p2["temperature"] = p["temperature"] * 3 + 0.4
            corr.temperature = p2["temperature"]
        elif attr == "cutoff":
            p2["cutoff"] = p["cutoff"] * 1.7
            corr.cutoff = p2["cutoff"]
        elif attr == "zeta":
            p2["zeta"] = p["zeta"] + 0.8
            corr.zeta = p2["zeta"]
        elif attr == "cutoff_type":
            p2["cutoff_type"] = {"hard": "gaussian", "gaussian": "exponential",
                                 "exponential": "hard"}[p["cutoff_type"]]
            corr.cutoff_type = p2["cutoff_type"]
        elif attr == "j_function":
            p2["alpha"] = p["alpha"] * 0.3
            a2, z2, wc2 = p2["alpha"], p2["zeta"], p2["cutoff"]
            corr.j_function = np.vectorize(
                lambda w: 2.0 * a2 * w ** z2 * wc2 ** (1 - z2))
        if custom and attr in ("zeta",):
            # a CustomSD has no zeta: the update must simply not matter
            p2 = dict(p)
        fresh = mk(p2) if not (custom and attr == "alpha") else None
        if custom and attr == "cutoff":
            # the caller's j-function keeps its own (old) frequency scale;
            # only the cutoff of the CustomSD object changes
            a0, z0, wc0 = p["alpha"], p["zeta"], p["cutoff"]
            fresh = oqupy.CustomSD(
                lambda w: 2.0 * a0 * w ** z0 * wc0 ** (1 - z0),
                cutoff=p2["cutoff"], cutoff_type=p["cutoff_type"],
                temperature=p["temperature"])
        if fresh is not None:
            new_vals = observe(corr)
            exp_vals = observe(fresh)
            scale = float(np.abs(exp_vals).max()) + 1e-12
            dev = float(np.abs(new_vals - exp_vals).max()) / scale
            worst = max(worst, dev)
            if dev > 1e-9:
                k = int(np.argmax(np.abs(new_vals - exp_vals)))
                violations.append({
                    "what": f"after setting {attr} the correlations object "
                            f"does not answer like a fresh object with the "
                            f"new value (entry {k} of the observation "
                            f"vector: {new_vals[k]:.6g} vs {exp_vals[k]:.6g};"
                            f" old value {old_vals[k]:.6g})",
                    "mechanism": "stale-after-attribute-update",
                    "detail": {"attr": attr, "custom": custom}})
            changed = float(np.abs(exp_vals - old_vals).max()) / scale
        else:
            changed = 1.0
        # objects built earlier are unaffected
        cells.append("attr:bath_before_change")
        now_bath_vals = observe(bath_before.correlations)
        devb = float(np.abs(now_bath_vals - old_bath_vals).max())
        if devb > 1e-12 * (1 + float(np.abs(old_bath_vals).max())):
            violations.append({
                "what": f"a Bath built before {attr} of the caller's "
                        f"correlations object was changed now answers "
                        f"differently (by {devb:.3e})",
                "mechanism": "bath-follows-caller-object", "detail": {}})
        dyn = np.array(tempo_before.compute(lib.end_time(0.0, dt, 3),
                                            progress_type="silent").states)
        devd = float(np.abs(dyn - ref_dyn).max())
        worst = max(worst, devd * 1e-3)
        if devd > DYN_TOL:
            violations.append({
                "what": f"a Tempo built before {attr} was changed computes "
                        f"different dynamics afterwards (by {devd:.3e})",
                "mechanism": "bath-follows-caller-object", "detail": {}})
        # second bath from the updated object must not share state with the
        # first (both used afterwards on the same grid)
        if fresh is not None:
            bath_after = oqupy.Bath(o, corr)
            d_after = np.array(oqupy.Tempo(sysm, bath_after, params, rho0,
                                           0.0).compute(
                lib.end_time(0.0, dt, 3), progress_type="silent").states)
            d_exp = np.array(oqupy.Tempo(sysm, oqupy.Bath(o, fresh), params,
                                         rho0, 0.0).compute(
                lib.end_time(0.0, dt, 3), progress_type="silent").states)
            d_before_again = np.array(oqupy.Tempo(
                sysm, bath_before, params, rho0, 0.0).compute(
                lib.end_time(0.0, dt, 3), progress_type="silent").states)
            e1 = float(np.abs(d_after - d_exp).max())
            e2 = float(np.abs(d_before_again - ref_dyn).max())
            worst = max(worst, e1 * 1e-3, e2 * 1e-3)
            if e1 > DYN_TOL or e2 > DYN_TOL:
                violations.append({
                    "what": f"two baths built from one correlations object "
                            f"before/after changing {attr} share state: "
                            f"after-bath off by {e1:.3e}, before-bath off "
                            f"by {e2:.3e}",
                    "mechanism": "shared-cache-between-copies",
                    "detail": {}})
    return {"violations": violations, "cells": cells,
            "monitors": {"attribute_updates": 1}, "nontrivial": True,
            "signature": f"attr-{attr}-{i}", "maxratio": worst / 1e-9,
            "obs": {"attr_dev": worst},
            "sample": {"kind": "attr", "attribute": attr, "dev": worst}}


def run_case(case):
    return {"layout": run_layout, "alias": run_alias, "history": run_history,
            "attr": run_attr}[case["kind"]](case)
