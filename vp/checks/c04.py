"""C04 - every reported state is a physical density matrix.

Invariant-at-a-hook monitor: icontract postconditions on the real entry points
(Tempo.compute, compute_dynamics, MeanFieldTempo.compute,
compute_dynamics_with_field, PtTebd.compute, GibbsTempo.get_state,
gibbs_tempo_compute) check every state of every returned dynamics object
(Hermitian, unit trace, and - with full memory - positive semidefinite, PT-TEBD
norm one) while a stress workload drives them: coupling up to the conditioning
limit, T=0 and T>0, pure and rank-deficient initial states, dissipative and
time-dependent systems, degenerate couplings, unique on/off, memory cut-offs,
1-3 mean-field systems, chains of 2-5 sites.
"""
import numpy as np

from vp import gen, lib, scen

ID = "C04"
LEVEL = "exploration"
BATCH = 4
CASE_TIMEOUT = 3200
RULE = ("seeded stress workloads per entry point x {full memory, cut-off} x "
        "{T=0, T>0}; the contract evaluates every returned state; bound "
        "100*epsrel*(1+spread^2 sum|eta|) (x (n_steps/5)^2 for Gibbs, x sites for chains); positivity "
        "only without memory cut-off. Non-trivial iff the bath changes the "
        "state (strong coupling R>=0.5 or dissipation present); distinct = "
        "(entry point, memory, T class, state kind, d/dims, unique)")
ASSUMPTIONS = ["conditioning guard R<=8 (beyond it the path sum itself loses "
               "the trace in floating point, DESIGN 2.3)",
               "bound c=100 times the requested truncation tolerance"]

ENTRY = ["tempo", "pt", "meanfield", "meanfield_pt", "tebd", "gibbs"]


def required_cells(tier):
    req = {}
    for e in ENTRY[:4]:
        req[f"{e}:full"] = 2
        req[f"{e}:cut"] = 2
        req[f"{e}:T=0"] = 1
        req[f"{e}:T>0"] = 1
    req.update({"tebd:full": 3, "tebd:continued-from-exported-chain-state": 2, "gibbs:full": 3, "pt:file-backed": 2, "tempo:shared-correlations-history": 1, "state:pure": 4,
                "state:rankdef": 4, "strong": 6,
                "physical:Tempo.compute": 20, "physical:compute_dynamics": 20,
                "physical:MeanFieldTempo.compute": 10,
                "physical:compute_dynamics_with_field": 10,
                "physical:PtTebd.compute": 10, "physical:PtTebd.norm": 10,
                "physical:gibbs_tempo_compute": 3,
                "physical:GibbsTempo.get_state": 3})
    return req


def cases(tier, seed):
    n = 144 if tier == "quick" else 1200
    out = [{"kind": "phys", "seed": seed, "idx": i, "tier": tier}
           for i in range(n)]
    if tier == "thorough":
        # the repository's own tests under the physicality postconditions
        out.append({"kind": "repotests", "seed": seed, "tier": tier})
    return out


def run_case(case):
    if case["kind"] == "repotests":
        from vp import repotests
        return repotests.run(lambda m: m in ("trace", "hermiticity",
                                             "positivity", "norm"))
    import oqupy
    from vp.mon import contracts
    contracts.install_physicality_contracts()
    rec, phys = contracts.REC, contracts.PHYS
    rec.reset()
    i = case["idx"]
    rng = gen.rng_for(case["seed"], "c04", i)
    quick = case["tier"] == "quick"
    entry = ENTRY[i % 6]
    t0 = bool((i // 6) % 2 == 0)
    cut = bool((i // 12) % 2 == 1) and entry not in ("tebd", "gibbs")
    skind = ["pure", "rankdef", "mixed"][(i // 2) % 3]
    unique = bool((i // 4) % 2)
    epsrel = float(rng.choice([1e-6, 1e-7, 1e-8]))
    dt = float(rng.choice([0.05, 0.1, 0.2]))
    nsteps = int(rng.integers(4, 8 if quick else 11))
    d = int(rng.choice([2, 2, 3]))
    p = gen.sd_params(rng, strong=True, temperature=0.0 if t0 else None)
    if p["temperature"] == 0.0 and not t0:
        p["temperature"] = float(rng.uniform(0.2, 2.0))
    kmax = int(rng.integers(1, max(2, nsteps - 1))) if cut else None
    tau = [None, 0.5 * dt, float("inf")][i % 3] if cut else None
    cells = [f"{entry}:{'cut' if cut else 'full'}",
             f"{entry}:{'T=0' if p['temperature'] == 0 else 'T>0'}",
             "state:" + skind]
    phys.epsrel = epsrel
    phys.positive = not cut
    phys.c = 100.0
    base_c = [100.0]
    rm = 0.0
    scales = [1.0]

    def coupling(dd):
        o = rng.normal(size=dd)
        if i % 5 == 2 and dd >= 3:
            o[1] = o[0]
        # push towards the conditioning limit in half of the cases
        o, r, scale = lib.guard_coupling(p, o * (3.0 if i % 2 else 1.0), dt,
                                         nsteps, kmax, tau, rng)
        # same tolerance policy as C01/C02: the requested tolerance times the
        # magnitude of the influence exponents (1 + spread^2 sum|eta|)
        scales.append(scale)
        v = gen.haar_unitary(rng, dd) if i % 3 == 1 else np.eye(dd)
        oper = v @ np.diag(o) @ v.conj().T
        phys.c = base_c[0] * max(scales) * (
            lib.pt_growth(nsteps) if entry in ("pt", "meanfield_pt", "tebd")
            else 1.0)
        return (oper + oper.conj().T) / 2, r

    params = lib.tempo_params(dt, epsrel, kmax, tau)
    start = [0.0, 1.3][i % 2]
    dims_sig = d
    if entry in ("tempo", "pt"):
        oper, rm = coupling(d)
        sysd = scen.random_system(rng, d, "td" if i % 4 == 1 else "const")
        rho0 = gen.rand_state(rng, d, skind)
        corr = gen.make_power_law(p)
        if entry == "tempo" and (i // 6) % 4 == 0:
            # history: two baths built from ONE correlations object whose
            # coupling strength is changed in between; both are then used on
            # the same time grid (every reported state must stay physical)
            cells.append("tempo:shared-correlations-history")
            strong = corr.alpha
            corr.alpha = strong / 40.0
            bath_weak = oqupy.Bath(oper, corr)
            corr.alpha = strong
            bath_strong = oqupy.Bath(oper, corr)
            end = lib.end_time(start, dt, nsteps)
            oqupy.Tempo(sysd["oq"], bath_weak, params, rho0, start,
                        unique=unique).compute(
                start + (max(2, nsteps // 2) + 0.4) * dt,
                progress_type="silent")
            oqupy.Tempo(sysd["oq"], bath_strong, params, rho0, start,
                        unique=unique).compute(end, progress_type="silent")
        elif entry == "tempo":
            lib.run_tempo(sysd["oq"], oper, corr, rho0, start, dt, nsteps,
                          params, unique)
        else:
            fb = bool((i // 6) % 3 == 1)
            if fb:
                cells.append("pt:file-backed")
            lib.run_pt(sysd["oq"], oper, corr, rho0, start, dt, nsteps,
                       params, unique, file_backed=fb)
    elif entry in ("meanfield", "meanfield_pt"):
        dims = [[2], [2, 3], [2, 2, 2]][(i // 6) % 3]
        if quick and len(dims) == 3:
            nsteps = min(nsteps, 5)
        dims_sig = tuple(dims)
        mf = lib.MeanFieldModel(rng, dims)
        mfs, _ = mf.build()
        opers, baths = [], []
        for dd in dims:
            oper, r = coupling(dd)
            rm = max(rm, r)
            baths.append(oqupy.Bath(oper, gen.make_power_law(p)))
        rhos = [gen.rand_state(rng, dd, skind) for dd in dims]
        a0 = 0.4 - 0.3j
        end = lib.end_time(start, dt, nsteps)
        if entry == "meanfield":
            oqupy.MeanFieldTempo(mfs, baths, params, rhos, a0, start,
                                 unique=unique).compute(
                end, progress_type="silent")
        else:
            pts = [oqupy.pt_tempo_compute(b, start, end, params,
                                          unique=unique,
                                          progress_type="silent")
                   for b in baths]
            oqupy.compute_dynamics_with_field(
                mfs, a0, process_tensor_list=pts, initial_state_list=rhos,
                start_time=start, progress_type="silent")
    elif entry == "tebd":
        n = int(rng.integers(2, 6 if not quick else 5))
        # sites of different dimension, couplings A (x) B with unrelated
        # factors, non-normal two-site jump operators (every third case keeps
        # the homogeneous spin-1/2 chain with symmetric couplings)
        generic = bool(i % 3)
        dims = [2] * n
        if generic:
            dims = [2] + [int(rng.choice([2, 3])) for _ in range(n - 1)]
        dims_sig = tuple(dims)
        nsteps = min(nsteps, 5)
        chain = oqupy.SystemChain(dims)
        sx = np.array([[0, 1], [1, 0]], complex)
        sz = np.diag([1.0, -1.0]).astype(complex)
        sm = np.array([[0, 0], [1, 0]], complex)
        for s in range(n):
            chain.add_site_hamiltonian(s, gen.rand_herm(rng, dims[s], 0.6))
            if rng.random() < 0.5:
                lop = gen.cplx(rng, (dims[s], dims[s]), 0.5) if generic \
                    else sm
                chain.add_site_dissipation(s, lop,
                                           float(rng.uniform(0.05, 0.3)))
        for s in range(n - 1):
            if generic:
                a = gen.rand_herm(rng, dims[s], 0.5)
                b = gen.rand_herm(rng, dims[s + 1], 0.5)
                chain.add_nn_hamiltonian(s, a, b)
                if dims[s] == dims[s + 1]:
                    # antisymmetric exchange  a (x) b - b (x) a
                    chain.add_nn_hamiltonian(s, 0.5 * b, a)
                    chain.add_nn_hamiltonian(s, -0.5 * a, b)
                if rng.random() < 0.5:
                    chain.add_nn_dissipation(
                        s, gen.cplx(rng, (dims[s], dims[s]), 0.5),
                        gen.cplx(rng, (dims[s + 1], dims[s + 1]), 0.5),
                        float(rng.uniform(0.05, 0.2)))
                continue
            chain.add_nn_hamiltonian(s, float(rng.normal()) * sz, sz)
            chain.add_nn_hamiltonian(s, float(rng.normal()) * 0.5 * sx, sx)
            if rng.random() < 0.3:
                chain.add_nn_dissipation(s, sm, sm.conj().T,
                                         float(rng.uniform(0.05, 0.2)))
        oper, rm = coupling(2)
        end = lib.end_time(0.0, dt, nsteps)
        pt = oqupy.pt_tempo_compute(oqupy.Bath(oper, gen.make_power_law(p)),
                                    0.0, end, params, progress_type="silent")
        pts = [pt if (s % 2 == 0 and dims[s] == 2) else None
               for s in range(n)]
        rhos = [gen.rand_state(rng, dims[s], skind) for s in range(n)]
        teps = float(rng.choice([1e-6, 1e-7, 1e-8]))
        phys.epsrel = max(epsrel, teps)
        # truncation of the chain MPS: errors accumulate over bonds and steps
        phys.c = 100.0 * n * max(scales) * lib.pt_growth(nsteps)
        record = list(range(n)) + [(0, 1), (0, n - 1)]
        # physical control operations (CPTP maps: resets, damping, unitary
        # kicks) at some sites and steps keep every state physical
        cc = None
        if i % 2 == 0:
            cc = oqupy.ChainControl(dims)
            for _ in range(int(rng.integers(1, 4))):
                site = int(rng.integers(0, n))
                step = int(rng.integers(0, nsteps + 1))
                kind = ["channel", "unitary", "channel"][int(rng.integers(0, 3))]
                cc.add_single_site_control(
                    scen.random_superop(rng, dims[site], kind), site, step,
                    post=bool(rng.random() < 0.5) and step < nsteps)
        tparams = oqupy.PtTebdParameters(dt=dt, epsrel=teps, order=1 + i % 2)
        if (i // 6) % 2 == 1 and nsteps >= 2:
            # the run is interrupted half way: the chain state is taken out
            # (Gamma-Lambda form, correlated and mixed by then) and a new
            # computation is started from it
            k0 = nsteps // 2
            first = oqupy.PtTebd(oqupy.AugmentedMPS(rhos), chain, pts,
                                 tparams, dynamics_sites=record,
                                 chain_control=cc)
            first.compute(k0, progress_type="silent")
            mps = first.get_augmented_mps()
            oqupy.PtTebd(mps, chain, pts, tparams, dynamics_sites=record,
                         chain_control=cc, start_step=k0).compute(
                             nsteps, progress_type="silent")
            cells.append("tebd:continued-from-exported-chain-state")
        else:
            oqupy.PtTebd(oqupy.AugmentedMPS(rhos), chain, pts, tparams,
                         dynamics_sites=record, chain_control=cc).compute(
                             nsteps, progress_type="silent")
    else:   # gibbs
        dd = int(rng.choice([2, 3]))
        dims_sig = dd
        n_steps = int(rng.choice([3, 6, 10, 16]))
        temp = float(rng.uniform(0.1, 2.0)) * p["cutoff"]
        pg = dict(p, temperature=temp, zeta=max(1.0, p["zeta"]))
        o = rng.normal(size=dd)
        h = gen.rand_herm(rng, dd, 0.8) if i % 2 else \
            np.diag(rng.normal(size=dd)).astype(complex)
        phys.epsrel = epsrel
        phys.c = 100.0 * max(1.0, (n_steps / 5.0) ** 2)
        gp = oqupy.GibbsParameters(n_steps, epsrel)
        bath = oqupy.Bath(np.diag(o).astype(complex), gen.make_power_law(pg))
        oqupy.gibbs_tempo_compute(oqupy.System(h), bath, gp,
                                  progress_type="silent")
        gt = oqupy.GibbsTempo(oqupy.System(h), bath, gp)
        gt.compute(progress_type="silent")
        gt.get_state()
        rm = 1.0
    if rm >= 0.5:
        cells.append("strong")
    if unique and entry in ("tempo", "pt", "meanfield", "meanfield_pt"):
        cells.append("unique")
    worst = max([rec.worst.get(k, 0.0) for k in
                 ("trace", "hermiticity", "positivity", "norm")] + [0.0])
    sig = (entry, cut, p["temperature"] == 0, skind, dims_sig, unique)
    return {"violations": list(rec.violations), "cells": cells,
            "monitors": dict(rec.evals),
            "nontrivial": True, "signature": str(sig), "maxratio": worst,
            "obs": {"R": rm, **{"worst_" + k: v for k, v in rec.worst.items()}},
            "sample": gen.nice({"entry": entry, "sd": p, "dims": dims_sig,
                                "dt": dt, "N": nsteps, "dkmax": kmax,
                                "add_correlation_time": tau, "epsrel": epsrel,
                                "state": skind, "unique": unique, "R": rm,
                                "contract_evaluations": dict(rec.evals),
                                "worst_defect_over_bound": worst})}
