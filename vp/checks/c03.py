"""C03 - contracting any process tensor reproduces the exact joint evolution.

Reference monitor R4: process tensors are built by hand from finite ancilla
environments with known joint maps; the dense joint density-matrix evolution
is the oracle for compute_dynamics at every step, for 0..3 environments, every
permutation of the list (oracle applies the maps in list order), rank-3/4
tensors, transforms, explicit and computed caps, controls. Order independence
is demanded only where it is mathematically exact (commuting environment
maps); "two baths = one bath with the summed spectral density" is checked on
PT-TEMPO process tensors.
"""
import itertools

import numpy as np

from vp import gen, scen
from vp.ref import ancilla

ID = "C03"
LEVEL = "exploration"
BATCH = 12
CASE_TIMEOUT = 200
TOL = 1e-10
RULE = ("seeded random ancilla environments (d=2..3, e=2..3; unitary, CPTP, "
        "non-TP, dephasing/rank-3; with/without transforms; explicit or "
        "computed caps), 0..3 environments incl. TrivialProcessTensor/None, "
        "all permutations, constant and time-dependent dissipative systems, "
        "random control schedules; plus PT-TEMPO summed-spectral-density "
        "cases. Non-trivial iff the environment changes the reduced state by "
        ">=1e-2; distinct = distinct (d,e-list,kinds,rank,transform,caps,"
        "system kind,#controls,N) signature")
ASSUMPTIONS = ["dense joint evolution written independently (einsum on the "
               "joint density matrix, Kraus sums)",
               "order independence judged only for commuting environment maps"]


def required_cells(tier):
    return {"envs:0": 1, "envs:1": 3, "envs:2": 3, "envs:3": 2, "rank3": 2,
            "transform": 2, "caps:compute": 2, "perm:nonidentity": 3,
            "controls": 3, "system:td": 2, "kind:nontp": 1, "kind:channel": 1,
            "commuting-order": 2, "summed-sd": 1, "trivial-pt": 1,
            "kind:rotdeph": 2, "via-import:file": 1, "via-import:simple": 1,
            "controls:stacked": 1, "transform:one-sided": 2,
            "history:tensor-replaced": 2, "feed:buffer": 3,
            "feed:fortran": 3, "env:time-dependent": 3, "gauge": 10,
            "gauge:bond-dimension-1": 3, "bond-dimension-1": 5,
            "record_all:False": 10,
            "system:slow-near-identity-propagators": 5, "pt-lengths-differ": 4,
            "drive-commensurate-with-half-step": 3}


def cases(tier, seed):
    n, ns = (600, 12) if tier == "quick" else (6000, 120)
    out = [{"kind": "ancilla", "seed": seed, "idx": i, "tier": tier}
           for i in range(n)]
    out += [{"kind": "commuting", "seed": seed, "idx": i, "tier": tier}
            for i in range(n // 10)]
    out += [{"kind": "summed", "seed": seed, "idx": i, "tier": tier}
            for i in range(ns)]
    return out


def _pt_for_env(rng, env, nsteps, dt, i):
    rank3 = bool(getattr(env, "is_dephasing", False) and i % 2 == 0)
    transform = None
    if i % 3 == 1 and not rank3:
        d2 = env.d ** 2
        if i % 2:
            u = gen.haar_unitary(rng, env.d)
            tin = np.kron(u, u.conj())
            tout = np.linalg.inv(tin) if rng.random() < 0.5 else \
                gen.cplx(rng, (d2, d2)) + 2 * np.eye(d2)
        else:
            tin = gen.cplx(rng, (d2, d2)) + 2 * np.eye(d2)
            tout = gen.cplx(rng, (d2, d2)) + 2 * np.eye(d2)
        transform = (tin, tout)
        if i % 9 == 4:
            transform = (tin, None)        # one-sided transforms
        elif i % 9 == 7:
            transform = (None, tout)
    return rank3, transform


def run_ancilla(case):
    import oqupy
    rng = gen.rng_for(case["seed"], "c03a", case["idx"])
    i = case["idx"]
    d = 2 if i % 3 else 3
    nenv = [1, 2, 1, 3, 0, 2, 1, 2][i % 8]
    nsteps = int(rng.integers(1, 7))
    if nenv == 3:
        nsteps = min(nsteps, 4)
    dt = float(rng.choice([0.05, 0.1, 0.13, 0.2]))
    start = float(rng.choice([0.0, -0.3, 1.7]))
    kinds = ["unitary", "channel", "dephasing", "nontp", "rotdeph",
             "dephasing", "unitary"]
    envs, pts, desc = [], [], []
    cells = [f"envs:{nenv}"]
    for j in range(nenv):
        kind = kinds[(i + j) % len(kinds)]
        e = int(rng.integers(2, 4)) if (d == 2 and nenv < 3) else 2
        if (i + j) % 7 == 3:
            e = 1          # memoryless environment: every bond has dimension 1
            cells.append("bond-dimension-1")
        caps = "compute" if (kind != "nontp" and (i + j) % 4 == 2) else \
            "explicit"
        # the same process tensor in another gauge of its bonds (an
        # invertible matrix per bond, a scalar on bonds of dimension 1)
        gauge = gen.rng_for(case["seed"], "c03g", i, j) \
            if (i + j) % 3 == 1 else None
        if gauge is not None:
            cells.append("gauge")
            if e == 1:
                cells.append("gauge:bond-dimension-1")
        if kind == "rotdeph":
            env, denv, tin, tout = ancilla.rotated_dephasing_env(rng, d, e)
            rank3, transform = True, (tin, tout)
            pt = build_pt(denv, nsteps, dt if (i + j) % 2 else None, True,
                          transform, caps, gauge=gauge)
        else:
            env = ancilla.random_env(rng, d, e, kind)
            env.is_dephasing = (kind == "dephasing")
            if (i + j) % 6 == 1 and kind in ("unitary", "channel",
                                             "dephasing") and nsteps >= 2:
                # time-dependent environment: other joint maps in some steps
                other = ancilla.random_env(rng, d, e, kind)
                env.step_kraus = {k: other.kraus for k in range(nsteps)
                                  if k % 2 == 1}
                cells.append("env:time-dependent")
            rank3, transform = _pt_for_env(rng, env, nsteps, dt, i + j)
            feed = ["copy", "buffer", "fortran"][(i + j) % 3] \
                if caps == "explicit" else "copy"
            if feed != "copy":
                cells.append("feed:" + feed)
            pt = build_pt(env, nsteps, dt if (i + j) % 2 else None, rank3,
                          transform, caps, feed, gauge=gauge)
        envs.append(env)
        pts.append(pt)
        desc.append(dict(kind=kind, e=e, rank3=rank3,
                         transform=transform is not None, caps=caps,
                         gauge=gauge is not None))
        cells.append("kind:" + kind)
        if rank3:
            cells.append("rank3")
        if transform is not None:
            cells.append("transform")
            if transform[0] is None or transform[1] is None:
                cells.append("transform:one-sided")
        if caps == "compute":
            cells.append("caps:compute")
    skind = "td" if i % 4 == 3 else "const"
    commens = bool(skind == "td" and i % 8 == 7)
    slow = bool(skind == "const" and i % 10 == 6)
    if slow:
        # (switch_on carries the time step for the "slow" kind)
        sysd = scen.random_system(rng, d, "slow", switch_on=dt)
        cells.append("system:slow-near-identity-propagators")
    else:
        sysd = scen.random_system(
            rng, d, skind, n_lind=0 if commens else None,
            drive_period=dt / 2 if commens else None)
    if commens:
        cells.append("drive-commensurate-with-half-step")
    subdiv = None if (skind == "td" and i % 8 == 3) else 256
    hp = scen.halfprops(sysd, dt, start, subdiv)
    cells.append("system:" + skind)
    nctrl = int(rng.integers(0, 4)) if i % 2 else 0
    ctrl, pre, post, cdesc = scen.random_controls(
        rng, d, nsteps, dt, start, nctrl, ["unitary", "channel", "nontp"],
        stack=bool(i % 4 == 1))
    if any(sum(1 for c in cdesc if (c["step"], c["post"]) ==
               (c0["step"], c0["post"])) > 1 for c0 in cdesc):
        cells.append("controls:stacked")
    if cdesc:
        cells.append("controls")
    rho0 = gen.rand_state(rng, d, ["mixed", "pure"][i % 2])
    perms = list(itertools.permutations(range(nenv)))
    if len(perms) > 1:
        perm = perms[int(rng.integers(1, len(perms)))] if i % 2 else perms[0]
    else:
        perm = perms[0] if perms else ()
    if perm != tuple(range(nenv)):
        cells.append("perm:nonidentity")
    # a fraction of the process tensors goes through export -> import
    via = None
    if nenv and i % 5 == 0:
        import os
        import tempfile
        via = "simple" if i % 10 == 0 else "file"
        tmpd = tempfile.mkdtemp(prefix="vp_c03_")
        newpts = []
        for j, pt in enumerate(pts):
            fn = os.path.join(tmpd, f"pt{j}.hdf5")
            pt.export(fn)
            newpts.append(oqupy.import_process_tensor(fn, via))
        pts = newpts
        cells.append("via-import:" + via)
    # process tensors of different lengths in one list (the computation
    # runs over the shortest one): the first environment gets a longer one
    j0 = perm[0] if nenv else 0      # the one that comes FIRST in the list
    if nenv >= 2 and via is None and i % 4 == 1 and not desc[j0]["gauge"] \
            and desc[j0]["caps"] == "explicit" \
            and not desc[j0]["transform"] and desc[j0]["kind"] != "rotdeph":
        pts[j0] = ancilla.build_process_tensor(
            envs[j0], nsteps + 2, dt=pts[j0].dt, rank3=desc[j0]["rank3"])
        cells.append("pt-lengths-differ")
    lib_list = [pts[j] for j in perm]
    # sprinkle trivial process tensors / None
    if nenv == 0:
        proc = None if i % 16 < 8 else oqupy.TrivialProcessTensor(d)
        if proc is not None:
            cells.append("trivial-pt")
    else:
        proc = lib_list if (nenv > 1 or i % 2) else lib_list[0]
    kw = dict(process_tensor=proc, start_time=start, control=ctrl,
              progress_type="silent")
    if nenv == 0 or all(p.dt is None for p in pts):
        kw["dt"] = dt
    if nenv == 0:
        kw["num_steps"] = nsteps
    if sysd["td"]:
        kw["subdiv_limit"] = subdiv
    try:
        dyn = oqupy.compute_dynamics(sysd["oq"], rho0, **kw)
    finally:
        if via is not None:
            import shutil
            for pt in pts:
                if hasattr(pt, "close"):
                    pt.close()
            shutil.rmtree(tmpd, ignore_errors=True)
    ref = ancilla.dense_dynamics(d, envs, rho0, nsteps, hp, pre, post,
                                 order=list(perm))
    free = ancilla.dense_dynamics(d, [], rho0, nsteps, hp, pre, post)
    effect = float(np.abs(ref - free).max()) if nenv else 1.0
    states = np.array(dyn.states)
    violations = []
    tol = TOL if not (sysd["td"] and subdiv is not None) else 1e-8
    if states.shape != ref.shape:
        violations.append({"what": f"{states.shape[0]} states returned, "
                           f"{ref.shape[0]} expected", "mechanism": "length",
                           "detail": {}})
        err = float("inf")
    else:
        errs = np.abs(states - ref).max(axis=(1, 2))
        err = float(errs.max())
        if not err <= tol:
            k = int(np.argmax(errs > tol))
            violations.append({
                "what": f"state at step {k} differs from the dense joint "
                        f"evolution by {errs[k]:.3e}",
                "mechanism": "dense-deviation",
                "detail": {"errs": errs, "envs": desc, "perm": perm,
                           "controls": [{k2: v for k2, v in c.items()}
                                        for c in cdesc]}})
        texp = start + dt * np.arange(nsteps + 1)
        if not np.allclose(dyn.times, texp, rtol=0, atol=1e-12):
            violations.append({"what": "time axis wrong",
                               "mechanism": "times",
                               "detail": {"times": list(dyn.times)}})
    # only the final state requested: the same final state (every control,
    # pre and post, acts whether or not intermediate states are recorded)
    if not violations and via is None and i % 6 in (1, 2):
        dynf = oqupy.compute_dynamics(sysd["oq"], rho0,
                                      **dict(kw, record_all=False))
        sf = np.array(dynf.states)
        ef = float(np.abs(sf[-1] - ref[-1]).max()) if sf.shape[0] == 1 \
            else float("inf")
        err = max(err, ef if np.isfinite(ef) else 1.0)
        cells.append("record_all:False")
        if not ef <= tol:
            violations.append({
                "what": f"record_all=False: {sf.shape[0]} state(s) returned, "
                        f"the final one differs from the dense joint "
                        f"evolution by {ef:.3e}",
                "mechanism": "dense-deviation", "detail": {
                    "controls": [{k2: v for k2, v in c.items()}
                                 for c in cdesc]}})
    # history: tensors of a process tensor that was already contracted are
    # replaced through set_mpo_tensor and the object is contracted again
    if nenv and via is None and not violations and i % 3 == 0 \
            and desc[0]["caps"] == "explicit" and not desc[0]["transform"] \
            and not desc[0]["gauge"] and desc[0]["kind"] in ("unitary", "channel", "dephasing"):
        newenv = ancilla.random_env(rng, d, desc[0]["e"], desc[0]["kind"])
        ksteps = sorted(set(int(x) for x in rng.integers(0, nsteps, size=2)))
        envs[0].step_kraus = {k: newenv.kraus for k in ksteps}
        newt = ancilla.rank3_tensors(envs[0], nsteps) if desc[0]["rank3"] \
            else envs[0].tensors(nsteps)
        for k in ksteps:
            pts[0].set_mpo_tensor(k, newt[k])
        dyn2 = oqupy.compute_dynamics(sysd["oq"], rho0, **kw)
        ref2 = ancilla.dense_dynamics(d, envs, rho0, nsteps, hp, pre, post,
                                      order=list(perm))
        e2 = float(np.abs(np.array(dyn2.states) - ref2).max())
        err = max(err, e2)
        cells.append("history:tensor-replaced")
        if e2 > tol:
            violations.append({
                "what": f"after replacing the MPO tensors of steps {ksteps} "
                        f"(set_mpo_tensor on an already contracted process "
                        f"tensor, {desc[0]}) compute_dynamics differs from "
                        f"the dense evolution by {e2:.3e}",
                "mechanism": "stale-after-set-mpo-tensor", "detail": {}})
    sig = (d, tuple((x["kind"], x["e"], x["rank3"], x["transform"],
                     x["caps"]) for x in desc), skind, len(cdesc), nsteps,
           perm)
    return {"violations": violations, "cells": cells,
            "monitors": {"steps_compared": int(ref.shape[0])},
            "nontrivial": effect >= 1e-2, "signature": str(sig),
            "maxratio": err / tol, "obs": {"err": err},
            "sample": gen.nice({"kind": "ancilla", "d": d, "envs": desc,
                                "perm": list(perm), "N": nsteps, "dt": dt,
                                "start": start, "system": skind,
                                "controls": cdesc, "err": err})}


def build_pt(env, nsteps, dt, rank3, transform, caps, feed="copy",
             gauge=None):
    """Process tensor of an ancilla environment; for computed caps the last
    tensor is closed with the environment trace (future bond dimension 1), as
    SimpleProcessTensor.compute_caps requires."""
    import oqupy
    if caps == "explicit":
        return ancilla.build_process_tensor(env, nsteps, dt=dt, rank3=rank3,
                                            transform=transform, feed=feed,
                                            gauge=gauge)
    tens = ancilla.rank3_tensors(env, nsteps) if rank3 \
        else env.tensors(nsteps)
    tr = np.eye(env.e).reshape(-1).astype(complex)
    last = np.tensordot(tens[-1], tr, axes=([1], [0]))   # drop future bond
    last = np.expand_dims(last, 1)
    tens = tens[:-1] + [last]
    if gauge is not None:
        tens, _ = ancilla.apply_gauge(gauge, tens, None)
    kw = {}
    if transform is not None:
        tin, tout = transform
        d2 = env.d ** 2
        if tin is not None:
            kw["transform_in"] = tin
        if tout is not None:
            kw["transform_out"] = tout
        if not rank3:
            tin_inv = np.linalg.inv(tin) if tin is not None else np.eye(d2)
            tout_inv = np.linalg.inv(tout) if tout is not None else np.eye(d2)
            tens = [np.einsum('ij,abjp,po->abio', tin_inv, t, tout_inv)
                    for t in tens]
    pt = oqupy.SimpleProcessTensor(env.d, dt=dt, **kw)
    for k, t in enumerate(tens):
        pt.set_mpo_tensor(k, t)
    pt.compute_caps()
    return pt


def run_commuting(case):
    """Order independence where it is exact: dephasing-type environments
    (diagonal in the same system basis) commute."""
    import oqupy
    rng = gen.rng_for(case["seed"], "c03c", case["idx"])
    d, nsteps, dt = 2, int(rng.integers(2, 5)), 0.1
    nenv = 2 + case["idx"] % 2
    envs = [ancilla.random_env(rng, d, 2, "dephasing") for _ in range(nenv)]
    pts = [ancilla.build_process_tensor(e, nsteps, dt=dt, rank3=bool(j % 2))
           for j, e in enumerate(envs)]
    sysd = scen.random_system(rng, d, "const")
    rho0 = gen.rand_state(rng, d)
    base = None
    worst = 0.0
    violations = []
    for perm in itertools.permutations(range(nenv)):
        dyn = oqupy.compute_dynamics(sysd["oq"], rho0,
                                     process_tensor=[pts[j] for j in perm],
                                     progress_type="silent")
        st = np.array(dyn.states)
        if base is None:
            base = st
        dev = float(np.abs(st - base).max())
        worst = max(worst, dev)
        if dev > 1e-11:
            violations.append({"what": f"permutation {perm} of commuting "
                               f"environments changes the states by {dev:.2e}",
                               "mechanism": "order-dependence",
                               "detail": {"perm": perm}})
    ref = ancilla.dense_dynamics(d, envs, rho0, nsteps,
                                 scen.halfprops(sysd, dt, 0.0, 256))
    err = float(np.abs(base - ref).max())
    if err > TOL:
        violations.append({"what": f"deviation {err:.2e} from dense model",
                           "mechanism": "dense-deviation", "detail": {}})
    return {"violations": violations, "cells": ["commuting-order"],
            "monitors": {"permutations_compared": int(
                np.math.factorial(nenv))},
            "nontrivial": True, "signature": f"comm-{nenv}-{nsteps}",
            "maxratio": max(worst / 1e-11, err / TOL),
            "obs": {"order_dev": worst},
            "sample": {"kind": "commuting", "nenv": nenv, "N": nsteps,
                       "order_dev": worst}}


def run_summed(case):
    """Two baths with the same coupling operator == one bath with J1+J2
    (PT-TEMPO), and swapping identical-coupling baths changes nothing."""
    import oqupy
    rng = gen.rng_for(case["seed"], "c03s", case["idx"])
    i = case["idx"]
    p1 = gen.sd_params(rng, temperature=float(rng.uniform(0.2, 1.5)))
    p1["alpha"] = float(rng.uniform(0.02, 0.15))
    a2 = float(rng.uniform(0.02, 0.15))
    d = 2
    o = np.array([0.5, -0.5]) if i % 2 else rng.normal(size=d) * 0.5
    v = gen.structured_unitary(rng, d, ["identity", "haar"][i % 2])
    oper = v @ np.diag(o) @ v.conj().T
    oper = (oper + oper.conj().T) / 2
    dt, nsteps, epsrel = 0.1, 4, 1e-9
    params = oqupy.TempoParameters(dt=dt, epsrel=epsrel, dkmax=None)
    end = (nsteps + 0.4) * dt

    def pt_for(corr):
        return oqupy.pt_tempo_compute(oqupy.Bath(oper, corr), 0.0, end,
                                      params, progress_type="silent")
    p2 = dict(p1, alpha=a2)
    p12 = dict(p1, alpha=p1["alpha"] + a2)
    if i % 3 == 2:
        c1, c2, c12 = (gen.make_custom_sd(p1), gen.make_custom_sd(p2),
                       gen.make_custom_sd(p12))
    else:
        c1, c2, c12 = (gen.make_power_law(p1), gen.make_power_law(p2),
                       gen.make_power_law(p12))
    pt1, pt2, pt12 = pt_for(c1), pt_for(c2), pt_for(c12)
    sysd = scen.random_system(rng, d, "const")
    rho0 = gen.rand_state(rng, d)

    def run(pts):
        return np.array(oqupy.compute_dynamics(
            sysd["oq"], rho0, process_tensor=pts,
            progress_type="silent").states)
    s_two, s_swap, s_one = run([pt1, pt2]), run([pt2, pt1]), run([pt12])
    free = run(None) if False else None
    dev_sum = float(np.abs(s_two - s_one).max())
    dev_swap = float(np.abs(s_two - s_swap).max())
    violations = []
    bound = 1000 * epsrel
    if dev_sum > bound:
        violations.append({"what": f"two baths differ from the summed bath "
                           f"by {dev_sum:.2e} > {bound:.1e}",
                           "mechanism": "summed-sd", "detail": {"sd": p1}})
    if dev_swap > 1e-11:
        violations.append({"what": f"swapping two baths on the same operator "
                           f"changes states by {dev_swap:.2e}",
                           "mechanism": "order-dependence", "detail": {}})
    return {"violations": violations, "cells": ["summed-sd"],
            "monitors": {"steps_compared": nsteps + 1},
            "nontrivial": True, "signature": f"summed-{i % 6}",
            "maxratio": max(dev_sum / bound, dev_swap / 1e-11),
            "obs": {"dev_sum": dev_sum, "dev_swap": dev_swap},
            "sample": gen.nice({"kind": "summed", "sd1": p1, "alpha2": a2,
                                "dev_sum": dev_sum, "dev_swap": dev_swap})}


def run_case(case):
    return {"ancilla": run_ancilla, "commuting": run_commuting,
            "summed": run_summed}[case["kind"]](case)
