"""C15 - results are covariant under translation of the time origin.

Metamorphic monitor: run (start, f(t)) and (start+tau, f(t-tau)); states,
fields, correlations must agree, every reported time must be shifted by tau,
and the *recorded argument times* of every user callable, minus tau, must be
those of the unshifted run (trace monitor).
"""
import numpy as np

from vp import gen, lib, scen
from vp.ref import ancilla

ID = "C15"
LEVEL = "exploration"
BATCH = 4
CASE_TIMEOUT = 300
TOL = 1e-9
RULE = ("seeded random time-dependent systems / mean-field models / control "
        "and correlation requests given by float times, shifted by tau in "
        "{+-0.37 dt k, 10.123, -3.3, 99.9, -250.3, +-U(20,300), ...}, end "
        "times on the grid point (start+N*dt) or inside step N, pairs of "
        "nearly coincident float control times registered in reverse order; "
        "methods Tempo, PT-TEMPO + "
        "compute_dynamics, MeanFieldTempo, compute_dynamics_with_field, "
        "compute_correlations. Non-trivial iff the explicit time dependence "
        "changes the result by >=1e-2 (run with frozen time dependence "
        "differs); distinct = (method, tau class, subdiv, start, variant)")
ASSUMPTIONS = ["float control / correlation times are kept >= 1e-3 dt away "
               "from rounding half-points (the tie itself is ill-posed)"]


def whole_time(start, dt, nsteps):
    """A whole-number time inside the window [start, start + nsteps dt] that
    is not within a tenth of a step of a half-way point (the step it belongs
    to is unambiguous); None if there is none."""
    import math
    t = float(math.ceil(start + 0.5 * dt))
    while t <= start + nsteps * dt + 1e-9:
        k = (t - start) / dt
        if abs((k % 1.0) - 0.5) > 0.1 and round(k) <= nsteps:
            return t
        t += 1.0
    return None


def required_cells(tier):
    return {"method:tempo": 3, "method:pt": 3, "method:meanfield": 2,
            "method:meanfield_pt": 2, "method:corr": 3, "tau:nonmultiple": 5,
            "tau:negative": 3, "float-controls": 2, "arg_times_compared": 200,
            "tau:far": 6, "end:on-grid": 10,
            "system-used-on-other-window-before": 10,
            "rate-switched-on": 3, "guessed-parameters": 4,
            "float-controls:near-coincident": 4,
            "float-controls:numpy-scalar-whole-number": 4}


def cases(tier, seed):
    n = 120 if tier == "quick" else 800
    return [{"kind": "shift", "seed": seed, "idx": i, "tier": tier}
            for i in range(n)]


def ulps(a, b, scale=0.0):
    """Distance in units of the spacing of the largest magnitude involved
    (the shifted time, tau and start)."""
    a, b = np.asarray(a, float), np.asarray(b, float)
    sp = np.spacing(np.maximum(np.maximum(np.abs(a), np.abs(b)), scale))
    return float(np.max(np.abs(a - b) / sp)) if a.size else 0.0


def run_case(case):
    import oqupy
    i = case["idx"]
    rng = gen.rng_for(case["seed"], "c15", i)
    method = ["tempo", "pt", "meanfield", "corr", "meanfield_pt"][i % 5]
    dt = float(rng.choice([0.05, 0.1, 0.2]))
    nsteps = int(rng.integers(3, 7))
    start = [0.0, -0.3, 1.7, 0.25][i % 4]
    taus = [0.37 * dt * (1 + i % 3), -0.37 * dt * 2, 10.123, -3.3,
            float(rng.uniform(-2, 2)), 5 * dt, 99.9, -250.3,
            float(rng.uniform(20, 300)) * (1 if i % 2 else -1)]
    tau = float(taus[(i // 5) % len(taus)])
    # the end of the interval as the grid point itself (start + N*dt in
    # floats, as a user writes it) or safely inside step N
    on_grid = bool((i // 5) % 2 == 0)
    warm = bool((i // 10) % 2 == 1)
    subdiv = None if i % 2 else 256
    epsrel = 1e-8
    d = 2 if i % 3 else 3
    violations, cells, monitors, obs = [], ["method:" + method], {}, {}
    ratio = tau / dt
    if abs(ratio - round(ratio)) > 1e-6:
        cells.append("tau:nonmultiple")
    if tau < 0:
        cells.append("tau:negative")
    if abs(tau) >= 20:
        cells.append("tau:far")
    if on_grid:
        cells.append("end:on-grid")
    seeds = int(rng.integers(0, 2**31))
    # exact (ancilla) computations: 1e-9; truncated tensor-network methods:
    # two runs whose inputs differ by rounding may truncate differently, so
    # the bound is the usual multiple of the requested tolerance
    tol = [TOL]

    def compare_states(sa, sb, what):
        sa, sb = np.array(sa), np.array(sb)
        if sa.shape != sb.shape:
            violations.append({"what": f"{what}: shapes differ {sa.shape} "
                               f"{sb.shape}", "mechanism": "length",
                               "detail": {}})
            return
        both_nan = np.isnan(sa) & np.isnan(sb)
        diff = np.where(both_nan, 0.0, np.abs(sa - sb))
        e = float(np.nanmax(diff)) if diff.size else 0.0
        if np.isnan(sa).sum() != np.isnan(sb).sum():
            e = float("inf")
        obs["dev"] = max(obs.get("dev", 0.0), e)
        obs["ratio"] = max(obs.get("ratio", 0.0), e / tol[0])
        if not e <= tol[0]:
            violations.append({
                "what": f"{what}: shifted run differs by {e:.3e} "
                        f"(tau={tau:.6g}, start={start}, dt={dt})",
                "mechanism": "shifted-values-differ", "detail": {}})

    def compare_times(ta, tb, what):
        ta, tb = np.asarray(ta, float), np.asarray(tb, float)
        if ta.shape != tb.shape:
            violations.append({"what": f"{what}: time axes differ in length",
                               "mechanism": "length", "detail": {}})
            return
        u = ulps(tb, ta + tau, max(abs(tau), abs(start), abs(start + tau)))
        obs["time_ulps"] = max(obs.get("time_ulps", 0.0), u)
        if u > 8:
            violations.append({
                "what": f"{what}: reported times not shifted by tau "
                        f"(max {u:.1f} ulp; first {tb[:3]} vs {ta[:3] + tau})",
                "mechanism": "times-not-shifted", "detail": {}})

    def compare_args(pa, pb, what):
        names = sorted(set(pa.counts) | set(pb.counts))
        for name in names:
            xa = np.sort(np.array(pa.times(name), float))
            xb = np.sort(np.array(pb.times(name), float)) - tau
            if len(xa) != len(xb):
                if subdiv is not None:
                    cells.append("adaptive-differs")
                    continue
                violations.append({
                    "what": f"{what}: {name} called {len(xa)} vs {len(xb)} "
                            f"times", "mechanism": "arg-times",
                    "detail": {}})
                continue
            monitors["arg_times_compared"] = monitors.get(
                "arg_times_compared", 0) + len(xa)
            if len(xa) and np.abs(xa - xb).max() > 1e-9 * max(
                    1.0, abs(tau), abs(start)):
                k = int(np.argmax(np.abs(xa - xb)))
                violations.append({
                    "what": f"{what}: argument times of {name} are not the "
                            f"shifted ones (e.g. {xb[k] + tau:.9g} - tau != "
                            f"{xa[k]:.9g})",
                    "mechanism": "arg-times", "detail": {}})

    sig_extra = ""
    effect = 1.0
    if method in ("tempo", "pt"):
        p = gen.sd_params(rng, strong=False)
        o = rng.normal(size=d)
        o, rm, scale = lib.guard_coupling(p, o, dt, nsteps, None, None, rng)
        tol[0] = max(TOL, 100.0 * epsrel * scale * lib.pt_growth(nsteps))
        v = gen.haar_unitary(rng, d)
        oper = v @ np.diag(o) @ v.conj().T
        oper = (oper + oper.conj().T) / 2
        corr = gen.make_power_law(p)
        rho0 = gen.rand_state(rng, d)
        params = lib.tempo_params(dt, epsrel, None, None, subdiv)
        pa, pb = scen.Probe(), scen.Probe()
        swkw = {}
        if i % 7 == 4:
            # a dissipation rate switched on inside the run
            swkw = dict(n_lind=2, switch_on=start + 1.3 * dt)
            cells.append("rate-switched-on")
        sa = scen.random_system(gen.rng_for(seeds), d, "td", pa, 0.0, **swkw)
        sb = scen.random_system(gen.rng_for(seeds), d, "td", pb, tau, **swkw)
        if warm:
            # the system objects have a past: each was already used on
            # another time window (same dt) before the runs that are compared
            for sysd, s0 in ((sa, start - 0.53), (sb, start + tau + 0.29)):
                oqupy.compute_dynamics(sysd["oq"], rho0, dt=dt, num_steps=2,
                                       start_time=s0, subdiv_limit=subdiv,
                                       progress_type="silent")
            cells.append("system-used-on-other-window-before")
        pa.log.clear(), pb.log.clear()
        pa.counts.clear(), pb.counts.clear()
        if method == "tempo":
            da = lib.run_tempo(sa["oq"], oper, corr, rho0, start, dt, nsteps,
                               params, False, on_grid)
            db = lib.run_tempo(sb["oq"], oper, corr, rho0, start + tau, dt,
                               nsteps, params, False, on_grid)
        else:
            da = lib.run_pt(sa["oq"], oper, corr, rho0, start, dt, nsteps,
                            params, False, subdiv, on_grid=on_grid)
            db = lib.run_pt(sb["oq"], oper, corr, rho0, start + tau, dt,
                            nsteps, params, False, subdiv, on_grid=on_grid)
        compare_states(da.states, db.states, method)
        compare_times(da.times, db.times, method)
        compare_args(pa, pb, method)
        if method == "tempo" and i % 2 == 0:
            # the parameters the library proposes itself for the two frames
            # (tempo_compute(parameters=None)) are the same
            import warnings
            ga = scen.random_system(gen.rng_for(seeds), d, "td", None, 0.0)
            gb = scen.random_system(gen.rng_for(seeds), d, "td", None, tau)
            with warnings.catch_warnings():
                warnings.simplefilter("ignore")
                bath_g = oqupy.Bath(oper, corr)
                p_a = oqupy.guess_tempo_parameters(
                    bath=bath_g, start_time=start, end_time=start + 3.0,
                    system=ga["oq"], tolerance=1e-2)
                p_b = oqupy.guess_tempo_parameters(
                    bath=bath_g, start_time=start + tau,
                    end_time=start + tau + 3.0, system=gb["oq"],
                    tolerance=1e-2)
            cells.append("guessed-parameters")
            if abs(p_a.dt - p_b.dt) > 1e-9 * p_a.dt or \
                    p_a.dkmax != p_b.dkmax or \
                    abs(p_a.epsrel - p_b.epsrel) > 1e-9 * p_a.epsrel:
                violations.append({
                    "what": f"guess_tempo_parameters proposes (dt, dkmax, "
                            f"epsrel) = ({p_a.dt}, {p_a.dkmax}, "
                            f"{p_a.epsrel}) in the original frame and "
                            f"({p_b.dt}, {p_b.dkmax}, {p_b.epsrel}) in the "
                            f"frame shifted by tau={tau}",
                    "mechanism": "guessed-parameters-frame-dependent",
                    "detail": {}})
        # non-triviality: freezing the time dependence changes the result
        sc = scen.random_system(gen.rng_for(seeds), d, "td", None, 1e3)
        dc = oqupy.compute_dynamics(sc["oq"], rho0, dt=dt, num_steps=nsteps,
                                    start_time=start, subdiv_limit=None,
                                    progress_type="silent")
        d0 = oqupy.compute_dynamics(sa["oq"], rho0, dt=dt, num_steps=nsteps,
                                    start_time=start, subdiv_limit=None,
                                    progress_type="silent")
        effect = float(np.abs(np.array(dc.states) - np.array(d0.states)).max())
    elif method in ("meanfield", "meanfield_pt"):
        dims = [2] if i % 2 else [2, 3]
        mf = lib.MeanFieldModel(rng, dims)
        ps = [gen.sd_params(rng) for _ in dims]
        opers, corrs = [], []
        for dd, p in zip(dims, ps):
            o = rng.normal(size=dd)
            o, rm, scale = lib.guard_coupling(p, o, dt, nsteps, None, None,
                                              rng)
            tol[0] = max(tol[0], 100.0 * epsrel * scale
                         * lib.pt_growth(nsteps))
            opers.append(np.diag(o).astype(complex))
            corrs.append(gen.make_power_law(p))
        rhos = [gen.rand_state(rng, dd) for dd in dims]
        params = lib.tempo_params(dt, epsrel, None, None, subdiv)
        a0 = 0.3 - 0.2j
        pa, pb = scen.Probe(), scen.Probe()
        ma, _ = mf.build(tshift=0.0, probe=pa)
        mb, _ = mf.build(tshift=tau, probe=pb)
        baths = [oqupy.Bath(o, c) for o, c in zip(opers, corrs)]
        pa.log.clear(), pb.log.clear()
        pa.counts.clear(), pb.counts.clear()
        if method == "meanfield" and warm:
            # both solvers are set up first, on each mean-field system also a
            # second one for another window, and only then run
            ta_ = oqupy.MeanFieldTempo(ma, baths, params, rhos, a0, start)
            tb_ = oqupy.MeanFieldTempo(mb, baths, params, rhos, a0,
                                       start + tau)
            oqupy.MeanFieldTempo(ma, baths, params, rhos, a0, start + 0.61)
            oqupy.MeanFieldTempo(mb, baths, params, rhos, a0,
                                 start + tau - 0.43)
            pa.log.clear(), pb.log.clear()
            pa.counts.clear(), pb.counts.clear()
            da = ta_.compute(lib.end_time(start, dt, nsteps, on_grid),
                             progress_type="silent")
            db = tb_.compute(lib.end_time(start + tau, dt, nsteps, on_grid),
                             progress_type="silent")
            cells.append("system-used-on-other-window-before")
        elif method == "meanfield":
            da = oqupy.MeanFieldTempo(ma, baths, params, rhos, a0,
                                      start).compute(
                lib.end_time(start, dt, nsteps, on_grid),
                progress_type="silent")
            db = oqupy.MeanFieldTempo(mb, baths, params, rhos, a0,
                                      start + tau).compute(
                lib.end_time(start + tau, dt, nsteps, on_grid),
                progress_type="silent")
        else:
            # process tensors are time-translation invariant objects: one set
            pts = [oqupy.pt_tempo_compute(
                b, 0.0, lib.end_time(0.0, dt, nsteps), params,
                progress_type="silent") for b in baths]
            # float-time controls on every system (shifted with the origin)
            ks = int(rng.integers(0, nsteps + 1))
            off3 = float(rng.uniform(-0.35, 0.35))
            sups = [scen.random_superop(rng, dd, "unitary") for dd in dims]
            sups2 = [scen.random_superop(rng, dd, "unitary") for dd in dims]
            cells.append("float-controls")
            cells.append("float-controls:near-coincident")
            wt = whole_time(start, dt, nsteps)
            if wt is not None:
                cells.append("float-controls:numpy-scalar-whole-number")

            def ctrls(s):
                out = []
                for dd, sup, sup2 in zip(dims, sups, sups2):
                    c = oqupy.Control(dd)
                    is_post = bool(i % 4 == 1 and ks < nsteps)
                    # two distinct, nearly coincident control times of the
                    # same step; the later one is registered first (controls
                    # act in the order of their times)
                    c.add_single(float(s + (ks + off3 + 2e-4) * dt), sup2,
                                 post=is_post)
                    c.add_single(float(s + (ks + off3) * dt), sup,
                                 post=is_post)
                    if wt is not None:
                        # a time given as a numpy scalar that happens to be
                        # a whole number in the unshifted frame
                        c.add_single(np.float64(wt + (s - start)), sup2)
                    out.append(c)
                return out
            da = oqupy.compute_dynamics_with_field(
                ma, a0, process_tensor_list=pts, initial_state_list=rhos,
                start_time=start, subdiv_limit=subdiv,
                control_list=ctrls(start), progress_type="silent")
            db = oqupy.compute_dynamics_with_field(
                mb, a0, process_tensor_list=pts, initial_state_list=rhos,
                start_time=start + tau, subdiv_limit=subdiv,
                control_list=ctrls(start + tau), progress_type="silent")
        for k in range(len(dims)):
            compare_states(da.system_dynamics[k].states,
                           db.system_dynamics[k].states, method)
        compare_states(da.fields, db.fields, method + " field")
        compare_times(da.times, db.times, method)
        compare_args(pa, pb, method)
        effect = float(np.abs(np.array(da.fields) - da.fields[0]).max())
    else:
        # correlations on an exact ancilla process tensor, float times,
        # time-dependent system, float-time controls
        e = 2
        env = ancilla.random_env(rng, d, e, "unitary")
        pt = ancilla.build_process_tensor(env, nsteps, dt=dt)
        rho0 = gen.rand_state(rng, d)
        pa, pb = scen.Probe(), scen.Probe()
        sa = scen.random_system(gen.rng_for(seeds), d, "td", pa, 0.0)
        sb = scen.random_system(gen.rng_for(seeds), d, "td", pb, tau)
        op_a, op_b = gen.cplx(rng, (d, d)), gen.cplx(rng, (d, d))
        ka, kb = sorted(int(x) for x in rng.integers(0, nsteps + 1, size=2))
        off1, off2 = float(rng.uniform(-0.3, 0.3)), float(rng.uniform(-0.3, 0.3))
        variant = i % 3
        if variant == 0:
            ta_spec = lambda s: (s + (ka + off1) * dt)
            tb_spec = lambda s: (s + (ka + off1) * dt, s + (nsteps + off2) * dt)
        elif variant == 1:
            ta_spec = lambda s: (s + (0 + off1 * (off1 > 0)) * dt,
                                 s + (kb + off2) * dt)
            tb_spec = lambda s: (s + (nsteps + off2 * (off2 < 0)) * dt,
                                 s + (0.0 + abs(off1)) * dt)   # reversed
        else:
            ta_spec = lambda s: (s + (ka + off1) * dt)
            tb_spec = lambda s: (s + (kb + off2) * dt)
        order = "anti" if i % 2 else "ordered"
        if warm:
            for sysd, s0 in ((sa, start - 0.53), (sb, start + tau + 0.29)):
                oqupy.compute_dynamics(sysd["oq"], rho0, dt=dt, num_steps=2,
                                       start_time=s0, subdiv_limit=subdiv,
                                       progress_type="silent")
            cells.append("system-used-on-other-window-before")
        pa.log.clear(), pb.log.clear()
        pa.counts.clear(), pb.counts.clear()

        def run(sysd, s):
            return oqupy.compute_correlations(
                sysd["oq"], pt, op_a, op_b, ta_spec(s), tb_spec(s),
                time_order=order, initial_state=rho0, start_time=float(s),
                progress_type="silent")
        (tsa, ca) = run(sa, start)
        (tsb, cb) = run(sb, start + tau)
        compare_states(ca, cb, "compute_correlations")
        for x, y in zip(tsa, tsb):
            compare_times(x, y, "compute_correlations")
        compare_args(pa, pb, "compute_correlations")
        sig_extra = f"{variant}{order}"
        # float-time controls in compute_dynamics
        cells.append("float-controls")
        ks = int(rng.integers(0, nsteps + 1))
        off3 = float(rng.uniform(-0.35, 0.35))
        sup = scen.random_superop(rng, d, "unitary")
        sup2 = scen.random_superop(rng, d, "unitary")
        cells.append("float-controls:near-coincident")
        wt = whole_time(start, dt, nsteps)
        if wt is not None:
            cells.append("float-controls:numpy-scalar-whole-number")
        outs = []
        for sysd, s in ((sa, start), (sb, start + tau)):
            c = oqupy.Control(d)
            if wt is not None:
                # a time given as a numpy scalar that happens to be a whole
                # number in the unshifted frame
                c.add_single(np.float64(wt + (s - start)), sup2,
                             post=bool(i % 4 == 1))
            c.add_single(float(s + (ks + off3 + 2e-4) * dt), sup2,
                         post=bool(i % 2))
            c.add_single(float(s + (ks + off3) * dt), sup,
                         post=bool(i % 2))
            outs.append(oqupy.compute_dynamics(
                sysd["oq"], rho0, process_tensor=pt, control=c,
                start_time=float(s), subdiv_limit=subdiv,
                progress_type="silent"))
        compare_states(outs[0].states, outs[1].states, "float control")
        compare_times(outs[0].times, outs[1].times, "float control")
        base = oqupy.compute_dynamics(sa["oq"], rho0, process_tensor=pt,
                                      start_time=float(start),
                                      subdiv_limit=subdiv,
                                      progress_type="silent")
        effect = float(np.abs(np.array(outs[0].states)
                              - np.array(base.states)).max()) \
            if ks < nsteps or not (i % 2) else 1.0
    tclass = ("nonmult" if "tau:nonmultiple" in cells else "mult",
              "neg" if tau < 0 else "pos", abs(tau) > 3)
    sig = (method, tclass, subdiv, start, sig_extra, d)
    return {"violations": violations, "cells": cells, "monitors": monitors,
            "nontrivial": effect >= 1e-2, "signature": str(sig),
            "maxratio": obs.get("ratio", 0.0), "obs": obs,
            "sample": gen.nice({"method": method, "tau": tau, "start": start,
                                "dt": dt, "N": nsteps,
                                "subdiv_limit": subdiv, "d": d, **obs})}
