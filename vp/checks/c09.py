"""C09 - mean-field evolution agrees across methods and integrates the field
correctly.

Monitors: (i) differential MeanFieldTempo vs compute_dynamics_with_field on
states and field at every time; (ii) reference R5: for f = c0 + c1 t the field
is the exact quadratic; (iii) trace specification on the recorded calls of the
field equation of motion (per step: two evaluations at (t_n, a_n), one at
(t_n+dt, a_n+dt*k1), and a_{n+1} = a_n + dt (k1+k2)/2); (iv) a system that
ignores the field equals a plain Tempo run of the same H(t).
"""
import numpy as np

from vp import gen, lib

ID = "C09"
LEVEL = "exploration"
BATCH = 3
CASE_TIMEOUT = 400
C_BOUND = 200.0
RULE = ("seeded random mean-field models (1-3 systems of different "
        "dimension, time-dependent and state-dependent field equations, "
        "start_time in {0,1,-0.4}, record_all both) - differential between "
        "the two methods, exact quadratic field for linear-in-t equations, "
        "Heun trace specification on every recorded field_eom call, "
        "field-independent systems vs plain Tempo. Non-trivial iff the field "
        "changes by >=1e-2 over the run and (for the differential) the bath "
        "acts; distinct = (variant, dims, td, sd, start, record_all)")
ASSUMPTIONS = ["conditioning guard R<=8", "bound 200*epsrel*scale"]


def required_cells(tier):
    return {"variant:differential": 6, "variant:linear": 4,
            "variant:nofield": 3, "variant:frozen": 3, "nsys:1": 3, "nsys:2": 3, "nsys:3": 1,
            "start!=0": 4, "record_all:False": 2, "reached-in-two-calls": 4, "memory-given-as-tcut": 4,
            "initial-state:non-contiguous": 6, "heun_steps_checked": 50,
            "td": 4, "subdiv:None": 8, "second-solver-on-same-system": 8,
            "pulsed-H&loose-liouvillian-epsrel": 2,
            "initial-matrix:non-hermitian": 2, "add_correlation_time": 6}


def cases(tier, seed):
    n = 90 if tier == "quick" else 600
    return [{"kind": "mf", "seed": seed, "idx": i, "tier": tier}
            for i in range(n)]


class EomLog:
    def __init__(self, fn):
        self.fn = fn
        self.events = []

    def __call__(self, t, states, a):
        val = self.fn(t, states, a)
        self.events.append((float(t), complex(a), complex(val)))
        return val


def check_heun_trace(events, times, fields, dt, what, violations):
    """Offline check of the recorded (t, a, f) events against the Heun trace
    specification derived from the *returned* fields: the set of evaluation
    points is exactly {(t_n, a_n)} u {(t_n+dt, a_n+dt*k1_n)}, n = 0..N-1,
    every point is evaluated at least once (repeated evaluations of the same
    point - one per system for the propagators - are not judged), and
    a_{n+1} = a_n + dt (k1_n + k2_n)/2."""
    n_checked = 0
    used = [False] * len(events)

    def take_all(t, a):
        val = None
        for j, (te, ae, ve) in enumerate(events):
            if abs(te - t) <= 1e-9 * max(1, abs(t)) + 1e-12 \
                    and abs(ae - a) <= 1e-9 * max(1, abs(a)):
                used[j] = True
                val = ve
        return val
    for n in range(len(times) - 1):
        t, a = times[n], fields[n]
        k1 = take_all(t, a)
        if k1 is None:
            violations.append({
                "what": f"{what}: field_eom was not evaluated at "
                        f"(t_{n}={t:.6g}, a_{n})",
                "mechanism": "heun-trace",
                "detail": {"step": n, "times_seen": sorted(
                    {round(e[0], 9) for e in events})[:12]}})
            return n_checked
        k2 = take_all(t + dt, a + dt * k1)
        if k2 is None:
            violations.append({
                "what": f"{what}: no field_eom evaluation at (t_{n}+dt, "
                        f"a_{n}+dt*k1) - second Heun stage uses a wrong time "
                        f"or field",
                "mechanism": "heun-trace",
                "detail": {"step": n, "expected_t": t + dt,
                           "times_seen": sorted({round(e[0], 9)
                                                 for e in events})[:12]}})
            return n_checked
        exp = a + dt * (k1 + k2) / 2
        if abs(exp - fields[n + 1]) > 1e-10 * max(1, abs(exp)):
            violations.append({
                "what": f"{what}: a_{n + 1} differs from a_n+dt(k1+k2)/2 by "
                        f"{abs(exp - fields[n + 1]):.2e}",
                "mechanism": "heun-update", "detail": {"step": n}})
            return n_checked
        n_checked += 1
    extra = [e for j, e in enumerate(events) if not used[j]]
    if extra:
        violations.append({
            "what": f"{what}: {len(extra)} field_eom evaluations at points "
                    f"that are not part of the Heun pattern",
            "mechanism": "heun-trace-extra",
            "detail": {"extra": [(e[0], e[1]) for e in extra[:5]]}})
    return n_checked


def run_case(case):
    import oqupy
    i = case["idx"]
    rng = gen.rng_for(case["seed"], "c09", i)
    quick = case["tier"] == "quick"
    variant = ["differential", "linear", "differential", "nofield",
               "differential", "frozen"][i % 6]
    j = (i // 6 + i) % 6        # decorrelated from the variant cycle
    nsys = [1, 2, 1, 2, 3, 1][j]
    if quick and nsys == 3:
        dims = [2, 2, 2]
    else:
        dims = [[2], [2, 3], [3], [3, 2], [2, 2, 3], [2]][j][:nsys]
    start = [0.0, 1.0, -0.4][(i // 2) % 3]
    dt = float(rng.choice([0.05, 0.1, 0.2]))
    nsteps = int(rng.integers(3, 7))
    epsrel = float(rng.choice([1e-7, 1e-8, 1e-9]))
    kmax = [None, 3, None][i % 3]
    tau = None
    if kmax is not None:
        # the correlations beyond the memory cut-off folded into the last
        # influence (TempoParameters.add_correlation_time): an option both
        # methods (and plain TEMPO) must honour
        tau = [None, 0.3 * dt, 1.7 * dt, float("inf")][(i // 3) % 4]
        nsteps = max(nsteps, 5)
    record_all = not (i % 4 == 3)
    td = bool(i % 2 == 0) or variant in ("linear", "frozen")
    sd = variant not in ("linear", "frozen")
    mf = lib.MeanFieldModel(rng, dims, time_dependent=td, state_dependent=sd,
                            field_coupled=(variant != "nofield"))
    if variant == "linear":
        mf.kappa, mf.om = 0.0, 0.0
    if variant == "frozen":
        # the field sits bit-for-bit at a fixed point (da/dt = 0) while the
        # systems are explicitly time dependent and depend on the field
        mf.kappa, mf.om, mf.c0, mf.c1 = 0.0, 0.0, 0.0, 0.0
    a0 = complex(rng.normal(), rng.normal()) * 0.5
    ps, opers, scales, corrs = [], [], [], []
    for d in dims:
        p = gen.sd_params(rng, strong=False)
        o = rng.normal(size=d)
        o, rm, scale = lib.guard_coupling(p, o, dt, nsteps, kmax, tau, rng)
        v = gen.haar_unitary(rng, d) if rng.random() < 0.4 else np.eye(d)
        oper = v @ np.diag(o) @ v.conj().T
        opers.append((oper + oper.conj().T) / 2)
        ps.append(p)
        scales.append(scale)
        corrs.append(gen.make_power_law(p))
    rhos = [gen.rand_state(rng, d, ["mixed", "pure"][i % 2]) for d in dims]
    general_init = bool(variant == "differential" and i % 9 == 5)
    if general_init:
        # both methods accept any matrix as initial state (e.g. A rho for a
        # correlation function): they must treat it alike
        r0 = gen.cplx(rng, (dims[0], dims[0]), 0.5)
        rhos[0] = r0 / np.trace(r0)
    # subdiv_limit=None is a documented mode of its own (the Liouvillian is
    # sampled at two points per step instead of integrated): both methods
    # must honour it
    violations, cells, monitors = [], [], {}
    subdiv = None if (i // 3) % 4 == 1 else 256
    as_tcut = None
    if kmax is not None:
        as_tcut = [None, "literal", "inside"][(i // 2) % 3]
        if as_tcut:
            cells.append("memory-given-as-tcut")
    params = lib.tempo_params(dt, epsrel, kmax, tau, subdiv, as_tcut=as_tcut)
    if params.dkmax != kmax:
        return {"inconclusive": f"harness: tcut form gives dkmax "
                                f"{params.dkmax}, wanted {kmax}"}
    # a Hamiltonian that is not smooth within a step, integrated with a
    # deliberately loose tolerance for the Liouvillian (a parameter of its
    # own, unrelated to the SVD tolerance): both methods must use it
    liou_eps = None
    if variant == "differential" and i % 7 == 3 and subdiv is not None:
        mf.pulse = (1.7 * dt, 0.37)
        liou_eps = 0.2
        kwp = dict(dt=dt, epsrel=epsrel, dkmax=kmax, subdiv_limit=subdiv,
                   liouvillian_epsrel=liou_eps)
        params = oqupy.TempoParameters(**kwp)
        cells.append("pulsed-H&loose-liouvillian-epsrel")
    end = lib.end_time(start, dt, nsteps)
    bound = C_BOUND * epsrel * max(scales) * lib.pt_growth(nsteps)
    texp = start + dt * np.arange(nsteps + 1)
    obs = {}

    # --- MeanFieldTempo with recorded field equation
    mfs_a, eom_ref = mf.build()
    log_a = EomLog(mfs_a._field_eom) if hasattr(mfs_a, "_field_eom") else None
    mfs_a2, _ = mf.build()
    # wrap through a fresh MeanFieldSystem so that the recording wrapper is
    # what the library calls
    log_a = EomLog(eom_ref)
    mfs_a = oqupy.MeanFieldSystem(mfs_a2.system_list, field_eom=log_a)
    baths = [oqupy.Bath(o, c) for o, c in zip(opers, corrs)]
    tempo = oqupy.MeanFieldTempo(mfs_a, baths, params, rhos, a0, start)
    decoy = bool((i // 5) % 3 == 2)
    if decoy:
        # a second solver on the SAME mean-field system with another time
        # grid is set up (not run) before the first one computes
        oqupy.MeanFieldTempo(
            mfs_a, baths, lib.tempo_params(dt * 0.5, epsrel, kmax, tau,
                                           subdiv), rhos, a0, start + 0.37)
        cells.append("second-solver-on-same-system")
    if subdiv is None:
        cells.append("subdiv:None")
    if tau is not None:
        cells.append("add_correlation_time")
    if general_init:
        cells.append("initial-matrix:non-hermitian")
    log_a.events.clear()
    if (i // 2) % 3 == 1 and nsteps >= 2:
        # the end time reached in two calls ("continue to propagate")
        tempo.compute(lib.end_time(start, dt, nsteps // 2),
                      progress_type="silent")
        cells.append("reached-in-two-calls")
    dyn_a = tempo.compute(end, progress_type="silent")
    fa = np.array(dyn_a.fields)
    ta = np.array(dyn_a.times)
    if len(ta) != nsteps + 1 or not np.allclose(ta, texp, rtol=0, atol=1e-12):
        violations.append({"what": "MeanFieldTempo time axis wrong",
                           "mechanism": "times",
                           "detail": {"times": ta, "expected": texp}})
    else:
        monitors["heun_steps_checked"] = check_heun_trace(
            log_a.events, ta, fa, dt, "MeanFieldTempo", violations)
    field_change = float(np.abs(fa - fa[0]).max())

    if variant == "linear":
        tt = texp - 0.0
        exact = a0 + mf.c0 * (texp - start) \
            + mf.c1 * ((texp ** 2 - start ** 2) / 2)
        # the model's explicit time is (t - tshift) with tshift = 0
        err = float(np.abs(fa - exact).max())
        obs["linear_field_err"] = err
        if err > 1e-11 * max(1.0, np.abs(exact).max()):
            k = int(np.argmax(np.abs(fa - exact)))
            violations.append({
                "what": f"MeanFieldTempo: field for f=c0+c1*t deviates from "
                        f"the exact quadratic by {err:.3e} (step {k})",
                "mechanism": "linear-field", "detail": {"start": start}})

    if variant == "frozen":
        if np.abs(fa - a0).max() != 0.0:
            violations.append({"what": "field with da/dt=0 moved",
                               "mechanism": "frozen-field", "detail": {}})
        worstf = 0.0
        for k, d in enumerate(dims):
            def hk(t, k=k):
                return mf.h0[k] + np.real(a0) * mf.x[k] \
                    + np.cos(mf.w * t) * mf.y[k]
            tds = oqupy.TimeDependentSystem(
                hk, gammas=[mf.gamma_fn(k)],
                lindblad_operators=[mf.lop_fn(k)])
            plain = oqupy.Tempo(tds, oqupy.Bath(opers[k], corrs[k]), params,
                                rhos[k], start).compute(
                                    end, progress_type="silent")
            sa = np.array(dyn_a.system_dynamics[k].states)
            sp = np.array(plain.states)
            e = float(np.abs(sa - sp).max()) if sa.shape == sp.shape \
                else float("inf")
            worstf = max(worstf, e)
            if not e <= bound:
                violations.append({
                    "what": f"system {k} with a stationary field differs "
                            f"from plain Tempo of H(t, a0) by {e:.3e} > "
                            f"{bound:.2e} (explicit time dependence lost?)",
                    "mechanism": "frozen-field-vs-tempo", "detail": {}})
        obs["frozen_diff"] = worstf
        obs["ratio"] = worstf / bound
        field_change = 1.0      # non-trivial through the time dependence

    if variant in ("differential", "linear", "frozen"):
        # --- compute_dynamics_with_field on PT-TEMPO process tensors
        pts = [oqupy.pt_tempo_compute(b, start, end, params,
                                      progress_type="silent") for b in baths]
        log_b = EomLog(eom_ref)
        mfs_b2, _ = mf.build()
        mfs_b = oqupy.MeanFieldSystem(mfs_b2.system_list, field_eom=log_b)
        log_b.events.clear()
        # the caller's initial states may have any memory layout
        lay = (i // 2) % 3
        rhos_b = rhos
        if lay == 1:
            rhos_b = [np.asfortranarray(r) for r in rhos]
        elif lay == 2:
            rhos_b = [np.ascontiguousarray(r.T).T for r in rhos]
        if lay:
            cells.append("initial-state:non-contiguous")
        dyn_b = oqupy.compute_dynamics_with_field(
            mfs_b, a0, process_tensor_list=pts, initial_state_list=rhos_b,
            start_time=start, record_all=record_all, subdiv_limit=subdiv,
            progress_type="silent",
            **({} if liou_eps is None else {"liouvillian_epsrel": liou_eps}))
        fb = np.array(dyn_b.fields)
        tb = np.array(dyn_b.times)
        if record_all:
            ok_t = len(tb) == nsteps + 1 and np.allclose(tb, texp, rtol=0,
                                                         atol=1e-12)
            sel = slice(None)
        else:
            ok_t = len(tb) == 1 and abs(tb[0] - texp[-1]) < 1e-12
            sel = slice(-1, None)
        if not ok_t:
            violations.append({
                "what": f"compute_dynamics_with_field times {list(tb)[:4]}.. "
                        f"(record_all={record_all})", "mechanism": "times",
                "detail": {"expected_last": texp[-1]}})
        else:
            ferr = float(np.abs(fa[sel] - fb).max())
            obs["field_diff"] = ferr
            serr = 0.0
            for k in range(nsys):
                sa = np.array(dyn_a.system_dynamics[k].states)[sel]
                sb = np.array(dyn_b.system_dynamics[k].states)
                if sa.shape != sb.shape:
                    violations.append({"what": "state arrays differ in shape",
                                       "mechanism": "length", "detail": {}})
                    continue
                serr = max(serr, float(np.abs(sa - sb).max()))
            obs["state_diff"] = serr
            if ferr > bound or serr > bound:
                violations.append({
                    "what": f"MeanFieldTempo vs compute_dynamics_with_field: "
                            f"field differs by {ferr:.3e}, states by "
                            f"{serr:.3e} (bound {bound:.2e}; start={start}, "
                            f"record_all={record_all}, td={td})",
                    "mechanism": "methods-differ", "detail": {}})
            if record_all:
                monitors["heun_steps_checked"] = monitors.get(
                    "heun_steps_checked", 0) + check_heun_trace(
                    log_b.events, tb, fb, dt, "compute_dynamics_with_field",
                    violations)
            if variant == "linear":
                exact_b = exact[sel]
                e2 = float(np.abs(fb - exact_b).max())
                if e2 > 1e-11 * max(1.0, np.abs(exact).max()):
                    violations.append({
                        "what": f"compute_dynamics_with_field: field for "
                                f"f=c0+c1*t deviates from the exact quadratic "
                                f"by {e2:.3e}",
                        "mechanism": "linear-field",
                        "detail": {"start": start, "record_all": record_all}})
            obs["ratio"] = max(ferr, serr) / bound
        if not record_all:
            cells.append("record_all:False")

    if variant == "nofield":
        # each system evolves exactly as in a plain Tempo run of H(t)
        worst = 0.0
        for k, d in enumerate(dims):
            def hk(t, k=k):
                h = mf.h0[k].copy()
                if mf.td:
                    h = h + np.cos(mf.w * t) * mf.y[k]
                return h
            tds = oqupy.TimeDependentSystem(
                hk, gammas=[mf.gamma_fn(k)],
                lindblad_operators=[mf.lop_fn(k)])
            plain = oqupy.Tempo(tds, oqupy.Bath(opers[k], corrs[k]), params,
                                rhos[k], start).compute(
                                    end, progress_type="silent")
            sa = np.array(dyn_a.system_dynamics[k].states)
            sp = np.array(plain.states)
            if sa.shape != sp.shape:
                violations.append({"what": "lengths differ (nofield)",
                                   "mechanism": "length", "detail": {}})
                continue
            e = float(np.abs(sa - sp).max())
            worst = max(worst, e)
            if e > bound:
                violations.append({
                    "what": f"system {k} (no field dependence) differs from "
                            f"plain Tempo by {e:.3e} > {bound:.2e}",
                    "mechanism": "nofield-vs-tempo", "detail": {}})
        obs["nofield_diff"] = worst
        obs["ratio"] = worst / bound

    cells += ["variant:" + variant, f"nsys:{nsys}"]
    if start != 0.0:
        cells.append("start!=0")
    if td:
        cells.append("td")
    sig = (variant, tuple(dims), td, sd, start, record_all, kmax)
    return {"violations": violations, "cells": cells, "monitors": monitors,
            "nontrivial": field_change >= 1e-2, "signature": str(sig),
            "maxratio": float(obs.get("ratio", 0.0)), "obs": obs,
            "sample": gen.nice({"variant": variant, "dims": dims,
                                "start": start, "dt": dt, "N": nsteps,
                                "epsrel": epsrel, "dkmax": kmax,
                                "record_all": record_all, "td": td,
                                "state_dependent": sd,
                                "field_change": field_change, **{
                                    k: v for k, v in obs.items()}})}
