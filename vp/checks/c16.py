"""C16 - process tensors survive export, import and file-backed computation
unchanged.

Differential monitor with the original object as oracle. For every generated
process tensor (hand-built ancilla environments, random MPOs with prescribed
bond dimensions, PT-TEMPO results) the object is exported, imported as 'file'
and as 'simple', exported again from the imported object (second generation)
and imported again; every observable of the objects (length, dt, dimension,
transforms, name, description, initial tensor, every MPO tensor raw and
transformed, every cap tensor up to and beyond the end, bond dimensions) and
the results of every consumer (compute_dynamics with controls and
time-dependent systems, several environments, compute_correlations,
compute_correlations_nt, state_gradient, PtTebd) are compared between the
original and each imported object. PT-TEMPO computations that write directly
into a (named or temporary) file are compared with the in-memory computation
tensor by tensor and through the consumers, while still open for writing and
after close + import. Overwrite semantics of export() and of file-backed
PT-TEMPO are observed (refused without `overwrite`, file untouched; replaced
completely with it). The `roundtrip_identity` contract (vp/mon/roundtrip.py)
watches every export/import of the workload in addition.
"""
import gc
import hashlib
import os
import shutil
import tempfile
import traceback

import numpy as np

from vp import gen, scen
from vp.ref import ancilla

ID = "C16"
LEVEL = "exploration"
BATCH = 16
CASE_TIMEOUT = 120
# Bounds (relative to max(1,|value|)); calibrated on seeds 0..3 of both tiers,
# >= 10x above the largest deviation observed on the unchanged tree:
TOL = 1e-13          # same stored data, different memory layout (obs. 4e-16)
CONSUMER_TOL = {"pttebd": 1e-12}    # SVD truncations amplify (obs. 2e-14)
XTOL = 1e-12         # two separate PT-TEMPO runs / caps computed by the other
#                      class's compute_caps (obs. 2e-14 / 9e-15)
RULE = ("seeded process tensors of three families: (hand) ancilla "
        "environments d=2..3, e=1..3, unitary/CPTP/non-TP/dephasing rank-3/"
        "rotated-dephasing rank-3 with transforms, explicit or computed caps; "
        "(rand) random MPOs with every bond dimension 1..9, rank 3/4, square "
        "and non-square transforms, complete/partial/no caps, with/without "
        "initial tensor; (pttempo) PT-TEMPO with diagonal and non-diagonal "
        "couplings, unique on/off, dkmax, in memory / named file / temporary "
        "file; lengths 1..8; with/without dt, name, description (ascii, "
        "unicode, empty, multi-line). Each is exported, imported as 'file' "
        "and 'simple', re-exported and re-imported; all consumers run on the "
        "original and on the imported objects of both types and "
        "generations. Non-trivial iff the stored "
        "tensors are non-zero and (when consumers apply) the environment "
        "changes the reduced dynamics by >= 1e-3; distinct = distinct "
        "(family, d, measured bond dimensions, rank, transforms, dt, name, "
        "caps) signature")
ASSUMPTIONS = [
    "stored data (dt, transforms, raw MPO tensors, caps, initial tensor, "
    "name, description) must be bit-identical after a round trip; derived "
    "quantities (transformed tensors, consumer results) may differ by "
    "rounding of a different memory layout: bound 1e-13 * max(1,|value|)",
    "two PT-TEMPO runs of the same input (two in-memory runs as well) do "
    "not give bit-identical tensors: the basis of degenerate singular "
    "subspaces is arbitrary and flips with rounding (observed in ~1/3 of "
    "the runs). 'The same process tensor' for file-backed vs in-memory is "
    "therefore decided (i) gauge-invariantly across runs: attributes, bond "
    "dimensions, the multilinear functionals cap_n.prod_k(T_k:M_k) for "
    "n=0..N and all consumer results (bound 1e-12), and (ii) tensor by "
    "tensor, bit-identical, against what the in-memory class stores for the "
    "tensors of the very same computation (read from the backend's MPS; "
    "caps from SimpleProcessTensor.compute_caps at 1e-12)",
    "PtTebd results on the same stored data are compared at 1e-12 (its "
    "SVD truncations amplify layout-dependent rounding to 2e-14)",
    "state_gradient is only run on process tensors with a time step whose "
    "last bond is closed (it reads dt from the tensor and starts the "
    "back-propagation with bond dimension 1)",
    "names with embedded NUL characters are not generated (HDF5 attribute "
    "strings cannot hold them)",
    "negative step indices are outside the quantifier",
]

LENGTHS = list(range(1, 9))
BONDS = list(range(1, 10))
NAMES = [None, "pt-a", "bath-α ☃", "", "two\nlines",
         "n" * 120]


def required_cells(tier):
    req = {"family:hand": 8, "family:rand": 8, "family:pttempo": 4,
           "import:file": 20, "import:simple": 20, "gen2:file": 10,
           "gen2:simple": 10, "rank3": 4, "rank4": 4, "transform:yes": 4,
           "transform:no": 4, "transform:nonsquare": 2,
           "transform:near-identity": 2, "dt:none": 4,
           "dt:set": 4, "name:none": 2, "name:set": 4, "name:unicode": 1,
           "name:empty": 1, "caps:explicit": 4, "caps:compute": 4,
           "caps:none": 1, "caps:partial": 1, "initial:set": 1,
           "consumer:dynamics": 10, "consumer:dynamics-multi": 4,
           "consumer:correlations": 4, "consumer:correlations_nt": 3,
           "consumer:gradient": 4, "consumer:pttebd": 4,
           "control": 4, "system:td": 4,
           "coupling:diagonal": 2, "coupling:nondiagonal": 2,
           "filebacked:named": 2, "filebacked:temp": 2, "filebacked:temp-scan": 2,
           "filebacked:class": 1, "unique": 1,
           "filebacked:relabelled-while-open": 1,
           "overwrite:export-refused": 2, "overwrite:export-replaced": 2,
           "overwrite:pttempo-refused": 1, "overwrite:pttempo-replaced": 1,
           "direct-file": 2, "tensors_compared": 500, "caps_compared": 500,
           "consumer_runs_compared": 100, "roundtrip:import": 50,
           "filebacked_tensorwise": 4, "gauge_invariant_comparisons": 8}
    for n in LENGTHS:
        req[f"len:{n}"] = 2
    for b in BONDS:
        req[f"bond:{b}"] = 1
    req["bond>=128"] = 2
    return req


def cases(tier, seed):
    nh, nr, npt = (80, 90, 24) if tier == "quick" else (960, 1080, 320)
    out = [{"kind": "hand", "seed": seed, "idx": i} for i in range(nh)]
    out += [{"kind": "rand", "seed": seed, "idx": i} for i in range(nr)]
    out += [{"kind": "pttempo", "seed": seed, "idx": i} for i in range(npt)]
    return out


# --------------------------------------------------------------------------
# observation of one process tensor object

class Ctx:
    """Collects violations / monitor counts / worst ratios of one case."""

    def __init__(self):
        self.violations = []
        self.cells = []
        self.mon = {}
        self.worst = 0.0
        self.obs = {}

    def count(self, name, n=1):
        self.mon[name] = self.mon.get(name, 0) + n

    def violate(self, mech, what, detail=None):
        if len(self.violations) < 25:
            self.violations.append({"what": what, "mechanism": mech,
                                    "detail": detail or {}})

    def note(self, name, val):
        self.obs[name] = max(self.obs.get(name, 0.0), float(val))


def raw_mpo(pt, k):
    """The stored (untransformed, rank preserved) MPO tensor."""
    if hasattr(pt, "_mpo_tensors"):
        return pt._mpo_tensors[k]
    return pt.get_mpo_tensor(k, transformed=False)


def observe(pt):
    """Everything the public interface shows of a process tensor."""
    n = len(pt)
    snap = {"type": type(pt).__name__, "len": n, "max_step": pt.max_step,
            "dt": pt.dt, "hs": pt.hilbert_space_dimension,
            "tin": cp(pt.transform_in), "tout": cp(pt.transform_out),
            "name": pt.name, "description": pt.description,
            "initial": cp(pt.get_initial_tensor())}
    snap["raw"] = [cp(raw_mpo(pt, k)) for k in range(n)]
    # what a caller who collects all tensors holds: the arrays as returned
    # (not copied) - none of them may change when a later one is requested
    held = [pt.get_mpo_tensor(k) for k in range(n)]
    held_copy = [cp(pt.get_mpo_tensor(k)) for k in range(n)]
    snap["held_changed"] = [
        k for k in range(n) if held[k] is not None and (
            np.shape(held[k]) != np.shape(held_copy[k])
            or not np.array_equal(held[k], held_copy[k]))]
    snap["mpo"] = [cp(pt.get_mpo_tensor(k)) for k in range(n)]
    snap["mpo4"] = [cp(pt.get_mpo_tensor(k, transformed=False))
                    for k in range(n)]
    # FileProcessTensor returns the stored rank-3 tensor here, the in-memory
    # class the delta-expanded one: bring both to rank 4 (own expansion)
    snap["mpo4"] = [delta4(t) for t in snap["mpo4"]]
    try:
        pt.get_mpo_tensor(n)
        snap["past_end"] = "returned"
    except IndexError:
        snap["past_end"] = "IndexError"
    snap["caps"] = [cp(pt.get_cap_tensor(k)) for k in range(n + 3)]
    try:
        snap["bonds"] = [int(b) for b in pt.get_bond_dimensions()]
    except Exception as exc:          # pylint: disable=broad-except
        snap["bonds"] = "raised " + type(exc).__name__
    snap["str"] = str(pt).replace(type(pt).__name__, "<cls>")
    return snap


def cp(x):
    return None if x is None else np.array(x)


def delta4(t):
    if t is None or t.ndim != 3:
        return t
    out = np.zeros(t.shape + (t.shape[2],), dtype=t.dtype)
    for s in range(t.shape[2]):
        out[:, :, s, s] = t[:, :, s]
    return out


def cmp_array(ctx, label, field, a, b, exact, mech=None, tol=None,
              obs="dev:"):
    """Compare two optional arrays; returns deviation/bound ratio."""
    tol = TOL if tol is None else tol
    if a is None or b is None:
        if not (a is None and b is None):
            ctx.violate(mech or "attribute:" + field.split("[")[0],
                        f"{label}: {field} is "
                        f"{'None' if b is None else 'an array'} but the "
                        f"original has "
                        f"{'None' if a is None else 'an array'}")
            return np.inf
        return 0.0
    a, b = np.asarray(a), np.asarray(b)
    mech = mech or "tensor:" + field.split("[")[0]
    if a.shape != b.shape:
        ctx.violate(mech, f"{label}: {field} has shape {b.shape}, original "
                    f"{a.shape}", {"shape": list(b.shape)})
        return np.inf
    if b.dtype != a.dtype:
        ctx.violate(mech, f"{label}: {field} has dtype {b.dtype}, original "
                    f"{a.dtype}")
        return np.inf
    if a.size == 0:
        return 0.0
    if exact:
        if not np.array_equal(a, b, equal_nan=True):
            dev = float(np.nanmax(np.abs(a - b)))
            ctx.violate(mech, f"{label}: stored {field} not bit-identical "
                        f"(max deviation {dev:.3e})", {"dev": dev})
            return np.inf
        return 0.0
    fin_a, fin_b = np.isfinite(a), np.isfinite(b)
    if not np.array_equal(fin_a, fin_b):
        ctx.violate(mech, f"{label}: {field} differs in its NaN pattern")
        return np.inf
    if not fin_a.any():
        return 0.0
    scale = max(1.0, float(np.abs(a[fin_a]).max()))
    dev = float(np.abs(a[fin_a] - b[fin_a]).max())
    ratio = dev / (tol * scale)
    ctx.note(obs + field.split("[")[0].split(":")[0], dev / scale)
    if not ratio <= 1.0:
        ctx.violate(mech, f"{label}: {field} deviates by {dev:.3e} "
                    f"(scale {scale:.2g}) from the original",
                    {"dev": dev, "scale": scale})
    return ratio


def compare_attributes(ctx, ref, got, label):
    """Everything that does not depend on the gauge of the MPO bonds."""
    if got.get("held_changed"):
        ctx.violate("tensor:returned-array-reused",
                    f"{label}: MPO tensors {got['held_changed']} handed out "
                    f"by get_mpo_tensor changed when later tensors were "
                    f"requested (a collected list of tensors is wrong)")
    for key in ("len", "hs", "past_end", "bonds", "max_step"):
        if ref[key] != got[key]:
            ctx.violate("attribute:" + key,
                        f"{label}: {key} = {got[key]!r}, original "
                        f"{ref[key]!r}")
    for key in ("name", "description"):
        if ref[key] != got[key] or not isinstance(got[key], str):
            ctx.violate("attribute:" + key,
                        f"{label}: {key} = {got[key]!r}, original "
                        f"{ref[key]!r}")
    if ref["str"] != got["str"]:
        ctx.violate("attribute:str", f"{label}: str() differs: "
                    f"{got['str']!r} vs {ref['str']!r}")
    if (ref["dt"] is None) != (got["dt"] is None) or (
            ref["dt"] is not None and not float(ref["dt"]) == float(got["dt"])):
        ctx.violate("attribute:dt", f"{label}: dt = {got['dt']!r}, original "
                    f"{ref['dt']!r}")
    worst = 0.0
    for key in ("tin", "tout", "initial"):
        worst = max(worst, cmp_array(ctx, label, key, ref[key], got[key],
                                     True))
    ctx.count("attributes_compared", 11)
    return worst


def compare(ctx, ref, got, label, caps_exact=True):
    """Compare two observations of the same stored data: attributes, every
    MPO tensor (stored data bit-identical, transformed tensors 1e-13), every
    cap (bit-identical, or 1e-13 if they were computed by the other class's
    compute_caps), the gauge-invariant probes."""
    worst = compare_attributes(ctx, ref, got, label)
    if len(ref["raw"]) == len(got["raw"]):
        for k in range(len(ref["raw"])):
            r1 = cmp_array(ctx, label, f"raw[{k}]", ref["raw"][k],
                           got["raw"][k], True)
            r2 = cmp_array(ctx, label, f"mpo[{k}]", ref["mpo"][k],
                           got["mpo"][k], False)
            r3 = cmp_array(ctx, label, f"mpo4[{k}]", ref["mpo4"][k],
                           got["mpo4"][k], True)
            worst = max(worst, r1, r2, r3)
            ctx.count("tensors_compared")
    for k in range(min(len(ref["caps"]), len(got["caps"]))):
        worst = max(worst, cmp_array(ctx, label, f"cap[{k}]", ref["caps"][k],
                                     got["caps"][k], caps_exact, tol=XTOL,
                                     obs="xdev:"))
        ctx.count("caps_compared")
    if np.isfinite(worst):
        ctx.worst = max(ctx.worst, worst)
    return worst


def probe_values(snap, nprobe=5):
    """Gauge-invariant content of a process tensor: the multilinear
    functionals  F_n(M_0..M_{n-1}) = cap_n . prod_k (T_k : M_k)  for fixed
    pseudo-random system maps M_k close to the identity (so that the values
    stay O(1)), n = 0..N. Needs bond dimension 1 at the start and a complete
    set of caps."""
    n = snap["len"]
    caps = snap["caps"][:n + 1]
    if any(c is None for c in caps) or not snap["mpo"] or \
            snap["mpo"][0].shape[0] != 1:
        return None
    d2 = snap["hs"] ** 2
    rng = gen.rng_for("c16-probes", n, d2)
    out = np.zeros((nprobe, n + 1), complex)
    for j in range(nprobe):
        vec = np.ones(1, complex)
        out[j, 0] = vec @ caps[0]
        for k in range(n):
            r = gen.cplx(rng, (d2, d2))
            m = np.eye(d2) / snap["hs"] + 0.5 * r / np.linalg.norm(r)
            vec = vec @ np.einsum("abio,io->ab", snap["mpo"][k], m)
            out[j, k + 1] = vec @ caps[k + 1]
    return out


def compare_gauge(ctx, ref, got, label):
    """Two separately computed process tensors (PT-TEMPO in memory and
    file-backed) are the same process tensor iff attributes, bond dimensions
    and the gauge-invariant functionals agree; the individual tensors of two
    runs differ by the arbitrary basis of (degenerate) singular subspaces --
    two in-memory runs of the same computation do so as well."""
    worst = compare_attributes(ctx, ref, got, label)
    if [t.shape for t in ref["raw"]] != [t.shape for t in got["raw"]]:
        ctx.violate("tensor:shape", f"{label}: stored tensor shapes "
                    f"{[t.shape for t in got['raw']]} vs "
                    f"{[t.shape for t in ref['raw']]}")
    pa, pb = probe_values(ref), probe_values(got)
    worst = max(worst, cmp_array(ctx, label, "probes", pa, pb, False,
                                 mech="process-tensor-content", tol=XTOL,
                                 obs="xdev:"))
    ctx.count("gauge_invariant_comparisons")
    if np.isfinite(worst):
        ctx.worst = max(ctx.worst, worst)
    return worst


# --------------------------------------------------------------------------
# consumers

def _rand_op(rng, d):
    return gen.cplx(rng, (d, d), 0.7)


def make_consumers(rng, d, nsteps, dt_orig, select, idx, closed=True):
    """List of (name, cells, f(pt) -> dict of arrays). All inputs are fixed
    here, f only depends on the process tensor it is given."""
    import oqupy
    dt_user = float(rng.choice([0.05, 0.1, 0.2]))
    dt = dt_user if dt_orig is None else float(dt_orig)
    kwdt = {"dt": dt} if dt_orig is None else {}
    start = float(rng.choice([0.0, -0.3, 1.7]))
    rho0 = gen.rand_state(rng, d, ["mixed", "pure"][idx % 2])
    out = []

    # -- compute_dynamics: time-dependent dissipative system, controls -----
    skind = "td" if idx % 2 else "const"
    sysd = scen.random_system(rng, d, skind)
    nctrl = int(rng.integers(1, 4)) if idx % 3 else 0
    ctrl, _, _, cdesc = scen.random_controls(
        rng, d, nsteps, dt, start, nctrl, ["unitary", "channel", "nontp"])
    subdiv = None if idx % 4 == 1 else 256
    cells = ["consumer:dynamics", "system:" + skind]
    if cdesc:
        cells.append("control")

    def dynamics(pt):
        dyn = oqupy.compute_dynamics(
            sysd["oq"], rho0, process_tensor=pt, start_time=start,
            control=ctrl, subdiv_limit=subdiv, progress_type="silent",
            **kwdt)
        return {"states": np.array(dyn.states), "times": np.array(dyn.times)}
    out.append(("dynamics", cells, dynamics))

    def free():
        dyn = oqupy.compute_dynamics(
            sysd["oq"], rho0, process_tensor=None, start_time=start,
            control=ctrl, subdiv_limit=subdiv, progress_type="silent",
            dt=dt, num_steps=nsteps)
        return np.array(dyn.states)

    if "multi" in select:
        sys2 = scen.random_system(rng, d, "const")
        nsub = int(rng.integers(1, nsteps + 1))

        def dynamics_multi(pt):
            dyn = oqupy.compute_dynamics(
                sys2["oq"], rho0, process_tensor=[pt, pt], start_time=start,
                num_steps=nsub, record_all=bool(idx % 2),
                progress_type="silent", **kwdt)
            return {"states": np.array(dyn.states),
                    "times": np.array(dyn.times)}
        out.append(("dynamics-multi", ["consumer:dynamics-multi"],
                    dynamics_multi))

    if "corr" in select:
        sysc = scen.random_system(rng, d, ["const", "td"][idx % 2], n_lind=1)
        op_a, op_b = _rand_op(rng, d), _rand_op(rng, d)
        specs = [slice(None), int(rng.integers(0, nsteps + 1)),
                 slice(0, nsteps + 1, 2), [0, nsteps]]
        ta = specs[int(rng.integers(0, len(specs)))]
        tb = specs[int(rng.integers(0, len(specs)))]
        order = ["ordered", "anti"][idx % 2]

        def correlations(pt):
            times, corr = oqupy.compute_correlations(
                sysc["oq"], pt, op_a, op_b, ta, tb, time_order=order,
                initial_state=rho0, start_time=start, progress_type="silent",
                **kwdt)
            return {"ta": np.array(times[0]), "tb": np.array(times[1]),
                    "corr": np.array(corr)}
        out.append(("correlations", ["consumer:correlations"], correlations))

    if "corr_nt" in select:
        sysn = scen.random_system(rng, d, "const", n_lind=1)
        ops = [_rand_op(rng, d) for _ in range(3)]
        m = min(nsteps, 3)
        otimes = [slice(0, m + 1), slice(0, m + 1), slice(0, nsteps + 1)]
        oorder = [str(rng.choice(["left", "right"])) for _ in range(3)]

        def correlations_nt(pt):
            times, corr = oqupy.compute_correlations_nt(
                sysn["oq"], pt, ops, otimes, oorder, initial_state=rho0,
                start_time=start, progress_type="silent", **kwdt)
            res = {f"t{i}": np.array(t) for i, t in enumerate(times)}
            res["corr"] = np.array(corr)
            return res
        out.append(("correlations_nt", ["consumer:correlations_nt"],
                    correlations_nt))

    # (state_gradient starts its back-propagation with bond dimension 1 and
    #  reads dt from the process tensor: it only applies to process tensors
    #  with a time step whose last future bond is closed)
    if "gradient" in select and dt_orig is not None and closed:
        h_a, h_b, h_c = (gen.rand_herm(rng, d, 0.6) for _ in range(3))
        lop = gen.cplx(rng, (d, d), 0.4)

        def ham(a, b):
            return a * h_a + b * h_b + h_c
        if idx % 4 < 2:
            psys = oqupy.ParameterizedSystem(ham)
        else:
            psys = oqupy.ParameterizedSystem(
                ham, [lambda a, b: 0.2 + 0.1 * a * a],
                [lambda a, b: lop + 0.3 * b * h_a])
        params = rng.normal(size=(2 * nsteps, 2)) * 0.6
        target = gen.cplx(rng, (d, d), 0.5)

        def gradient(pt):
            res = oqupy.state_gradient(
                psys, rho0, target, [pt], params.copy(), start_time=start,
                progress_type="silent")
            ret = {"gradient": np.array(res["gradient"]),
                   "final_state": np.array(res["final_state"]),
                   "states": np.array(res["dynamics"].states),
                   "times": np.array(res["dynamics"].times)}
            for k, g in enumerate(res["gradprop"]):
                ret[f"gradprop{k}"] = np.array(getattr(g, "tensor", g))
            return ret
        out.append(("gradient", ["consumer:gradient"], gradient))

    if "pttebd" in select:
        both = bool(idx % 8 >= 4 and d == 2)
        dims = [d, d] if both else [d, 2]
        hs = [gen.rand_herm(rng, k, 0.5) for k in dims]
        na, nb = gen.rand_herm(rng, dims[0], 0.6), \
            gen.rand_herm(rng, dims[1], 0.6)
        ls = [gen.cplx(rng, (k, k), 0.4) for k in dims]
        rhos = [gen.rand_state(rng, k) for k in dims]
        tebd_order = 1 + idx % 2

        def pttebd(pt):
            chain = oqupy.SystemChain(dims)
            for s, h in enumerate(hs):
                chain.add_site_hamiltonian(s, h)
                chain.add_site_dissipation(s, ls[s], 0.15)
            chain.add_nn_hamiltonian(0, na, nb)
            mps = oqupy.AugmentedMPS([r.copy() for r in rhos])
            prm = oqupy.PtTebdParameters(dt=dt, epsrel=1e-9,
                                         order=tebd_order)
            solver = oqupy.PtTebd(mps, chain, [pt, pt if both else None],
                                  prm, start_time=start,
                                  dynamics_sites=[0, 1, (0, 1)])
            res = solver.compute(nsteps, progress_type="silent")
            ret = {"norm": np.array(res["norm"]),
                   "time": np.array(res["time"])}
            for site in (0, 1, (0, 1)):
                ret[f"states{site}"] = np.array(res["dynamics"][site].states)
            bd = res.get("pt_bond_dimensions", {})
            for site, val in bd.items():
                if val is not None:
                    ret[f"ptbond{site}"] = np.array(val).astype(np.int64)
            return ret
        out.append(("pttebd", ["consumer:pttebd"], pttebd))
    return out, free


def run_consumers(ctx, consumers, free, pts, want_effect=True):
    """pts: list of (label, pt); the first one is the oracle. Returns the
    measured environment effect (or None)."""
    effect = None
    ref_pt = pts[0][1]
    for name, cells, func in consumers:
        ref = func(ref_pt)           # raising here: worker classifies
        ctx.cells.extend(cells)
        if name == "dynamics" and want_effect:
            fr = free()
            if fr.shape == ref["states"].shape:
                effect = float(np.abs(fr - ref["states"]).max())
        for entry in pts[1:]:
            label, pt = entry[0], entry[1]
            cross = len(entry) > 2 and entry[2]
            try:
                got = func(pt)
            except Exception as exc:      # pylint: disable=broad-except
                ctx.violate(f"consumer-raises:{name}",
                            f"{name} works on the original but raises "
                            f"{type(exc).__name__}: {str(exc)[:150]} on "
                            f"{label}",
                            {"traceback": traceback.format_exc()[-1200:]})
                continue
            ctx.count("consumer_runs_compared")
            ctx.count("consumer:" + name + ":runs")
            if set(got) != set(ref):
                ctx.violate(f"consumer:{name}", f"{name} on {label}: result "
                            f"fields {sorted(got)} vs {sorted(ref)}")
                continue
            worst = 0.0
            for key in ref:
                worst = max(worst, cmp_array(
                    ctx, f"{name} on {label}", f"{name}:{key}", ref[key],
                    got[key], False, mech="consumer:" + name,
                    tol=max(CONSUMER_TOL.get(name, TOL),
                            XTOL if cross else 0.0),
                    obs="xdev:" if cross else "dev:"))
            if np.isfinite(worst):
                ctx.worst = max(ctx.worst, worst)
    return effect


# --------------------------------------------------------------------------
# the round trip itself

def file_hash(path):
    with open(path, "rb") as f:
        return hashlib.sha1(f.read()).hexdigest()


class Scratch:
    def __init__(self):
        self.dir = tempfile.mkdtemp(prefix="vp_c16_")
        self.open = []
        self.n = 0

    def path(self, tag="pt"):
        self.n += 1
        return os.path.join(self.dir, f"{tag}{self.n}.hdf5")

    def track(self, pt):
        self.open.append(pt)
        return pt

    def cleanup(self):
        for pt in self.open:
            try:
                if hasattr(pt, "close"):
                    pt.close()
            except Exception:        # pylint: disable=broad-except
                pass
        self.open = []
        gc.collect()
        shutil.rmtree(self.dir, ignore_errors=True)


class private_tmp:
    """Temporary process tensor files (process_tensor_file=True) are created
    in the default temporary directory; point it into the case's private
    scratch directory so that nothing else on the machine touches them."""

    def __init__(self, path):
        self.path = path

    def __enter__(self):
        self.old = os.environ.get("TMPDIR")
        self.oldt = tempfile.tempdir
        os.environ["TMPDIR"] = self.path
        tempfile.tempdir = None

    def __exit__(self, *exc):
        if self.old is None:
            os.environ.pop("TMPDIR", None)
        else:
            os.environ["TMPDIR"] = self.old
        tempfile.tempdir = self.oldt


def round_trip(ctx, scr, pt, snap):
    """export -> import (file, simple) -> export -> import (file, simple).
    Returns list of (label, imported object)."""
    import oqupy
    out = []
    fn1 = scr.path("gen1_")
    pt.export(fn1)
    ctx.count("exports")
    after = observe(pt)
    compare(ctx, snap, after, "original after export()")
    simple1 = None
    for typ in ("file", "simple", None):
        q = scr.track(oqupy.import_process_tensor(fn1, typ))
        want = "SimpleProcessTensor" if typ == "simple" \
            else "FileProcessTensor"
        label = f"import(gen1,{typ!r})"
        if type(q).__name__ != want:
            ctx.violate("import-type", f"{label} returned a "
                        f"{type(q).__name__}")
        compare(ctx, snap, observe(q), label)
        if typ is not None:
            ctx.cells.append("import:" + typ)
            out.append((label, q))
        if typ == "simple":
            simple1 = q
    if simple1 is not None and hasattr(simple1, "export"):
        fn2 = scr.path("gen2_")
        simple1.export(fn2)
        ctx.count("exports")
        for typ in ("file", "simple"):
            q = scr.track(oqupy.import_process_tensor(fn2, typ))
            label = f"import(gen2,{typ!r})"
            compare(ctx, snap, observe(q), label)
            ctx.cells.append("gen2:" + typ)
            out.append((label, q))
    return out, fn1


def overwrite_export(ctx, scr, pt, snap, other):
    """export() onto an existing file: refused without overwrite (file
    untouched), replaced completely with overwrite=True."""
    import oqupy
    fn = scr.path("ow_")
    other.export(fn)
    before = file_hash(fn)
    refused = False
    try:
        pt.export(fn)
    except Exception:                # pylint: disable=broad-except
        refused = True
    gc.collect()
    if not refused:
        ctx.violate("overwrite-semantics", "export() onto an existing file "
                    "without overwrite=True did not raise")
    elif file_hash(fn) != before:
        ctx.violate("overwrite-semantics", "refused export() changed the "
                    "existing file")
    else:
        q = oqupy.import_process_tensor(fn, "file")
        try:
            compare(ctx, observe(other), observe(q),
                    "file after refused export()")
        finally:
            q.close()
    ctx.cells.append("overwrite:export-refused")
    pt.export(fn, overwrite=True)
    for typ in ("file", "simple"):
        q = scr.track(oqupy.import_process_tensor(fn, typ))
        compare(ctx, snap, observe(q), f"import(overwritten,{typ!r})")
    ctx.cells.append("overwrite:export-replaced")


def direct_file(ctx, scr, pt, snap):
    """The same content written through a FileProcessTensor by hand."""
    import oqupy
    fn = scr.path("direct_")
    kw = {}
    if snap["name"] != "__unnamed__":
        kw["name"] = snap["name"]
    if snap["description"] != "__no_description__":
        kw["description"] = snap["description"]
    fpt = scr.track(oqupy.FileProcessTensor(
        mode="write", filename=fn, hilbert_space_dimension=snap["hs"],
        dt=snap["dt"], transform_in=snap["tin"], transform_out=snap["tout"],
        **kw))
    if snap["initial"] is not None:
        fpt.set_initial_tensor(snap["initial"])
    for k, t in enumerate(snap["raw"]):
        fpt.set_mpo_tensor(k, t)
    for k, c in enumerate(snap["caps"]):
        if c is not None:
            fpt.set_cap_tensor(k, c)
    compare(ctx, snap, observe(fpt), "FileProcessTensor (open for writing)")
    fpt.close()
    out = []
    for typ in ("file", "simple"):
        q = scr.track(oqupy.import_process_tensor(fn, typ))
        compare(ctx, snap, observe(q), f"import(direct file,{typ!r})")
        out.append((f"import(direct file,{typ!r})", q))
    ctx.cells.append("direct-file")
    return out


def describe_cells(ctx, snap, caps_mode):
    n = snap["len"]
    ctx.cells.append(f"len:{n}")
    if isinstance(snap["bonds"], list):
        for b in sorted(set(snap["bonds"])):
            ctx.cells.append(f"bond:{b}")
            if b >= 128:
                ctx.cells.append("bond>=128")
    ranks = {t.ndim for t in snap["raw"]}
    ctx.cells.extend(f"rank{r}" for r in sorted(ranks))
    has_t = snap["tin"] is not None or snap["tout"] is not None
    ctx.cells.append("transform:yes" if has_t else "transform:no")
    for t in (snap["tin"], snap["tout"]):
        if t is not None and t.shape[0] != t.shape[1]:
            ctx.cells.append("transform:nonsquare")
        elif t is not None and np.allclose(t, np.eye(t.shape[0]),
                                           rtol=0, atol=1e-4):
            ctx.cells.append("transform:near-identity")
    ctx.cells.append("dt:none" if snap["dt"] is None else "dt:set")
    nm = snap["name"]
    if nm == "__unnamed__":
        ctx.cells.append("name:none")
    else:
        ctx.cells.append("name:set")
        if nm == "":
            ctx.cells.append("name:empty")
        elif any(ord(c) > 127 for c in nm):
            ctx.cells.append("name:unicode")
    ctx.cells.append("caps:" + caps_mode)
    if snap["initial"] is not None:
        ctx.cells.append("initial:set")


def signature(family, snap, caps_mode):
    return str((family, snap["hs"], snap["bonds"],
                tuple(t.ndim for t in snap["raw"]),
                None if snap["tin"] is None else snap["tin"].shape,
                None if snap["tout"] is None else snap["tout"].shape,
                snap["dt"] is None, snap["name"], caps_mode,
                snap["initial"] is not None))


def content_norm(snap):
    return float(min([np.abs(t).max() for t in snap["raw"]] or [0.0]))


def finish(ctx, family, snap, caps_mode, effect, sample):
    from vp.mon import contracts
    for v in contracts.REC.violations:
        ctx.violations.append(v)
    for k, v in contracts.REC.evals.items():
        ctx.count(k, v)
    nontrivial = content_norm(snap) > 1e-6 and \
        (effect is None or effect >= 1e-3)
    sample = dict(sample, family=family, d=snap["hs"], N=snap["len"],
                  bonds=snap["bonds"], dt=snap["dt"], name=snap["name"],
                  caps=caps_mode, effect=effect,
                  worst_ratio=ctx.worst)
    return {"violations": ctx.violations, "cells": ctx.cells,
            "monitors": ctx.mon, "nontrivial": bool(nontrivial),
            "signature": signature(family, snap, caps_mode),
            "maxratio": ctx.worst, "obs": ctx.obs,
            "sample": gen.nice(sample)}


def prepare():
    from vp.mon import contracts, roundtrip
    contracts.REC.reset()
    roundtrip.REGISTRY.clear()
    roundtrip.install()


def thin(imported, idx):
    """Objects the consumers are run on: both first-generation imports, one
    of the two second-generation imports and one of the two imports of a
    directly written file (alternating with the case index); all of them
    are compared tensor by tensor anyway."""
    keep = []
    for label, obj in imported:
        if "gen2" in label and ("'file'" in label) != (idx % 2 == 0):
            continue
        if "direct" in label and ("'file'" in label) != (idx % 4 < 2):
            continue
        keep.append((label, obj))
    return keep


def select_consumers(idx):
    sel = ["multi"] if idx % 2 == 0 else []
    sel.append(["corr", "corr_nt", "gradient", "pttebd"][idx % 4])
    if idx % 5 == 0:
        sel.append("gradient")
    if idx % 7 == 0:
        sel.append("pttebd")
    return sel


# --------------------------------------------------------------------------
# family: hand-built ancilla process tensors

def build_hand(rng, idx):
    from vp.checks import c03
    d = 3 if idx % 4 == 3 else 2
    nsteps = LENGTHS[idx % 8]
    kinds = ["unitary", "dephasing", "channel", "rotdeph", "nontp",
             "dephasing", "unitary", "rotdeph", "channel"]
    kind = kinds[idx % len(kinds)]
    e = [2, 1, 3, 2][(idx // 3) % 4] if d == 2 else [2, 1][(idx // 4) % 2]
    dt = [None, 0.1, 0.05, 0.2][(idx // 2) % 4]
    caps = "compute" if (kind != "nontp" and (idx // 2) % 3 == 1) \
        else "explicit"
    name = NAMES[idx % len(NAMES)]
    desc = NAMES[(idx // 2 + 1) % len(NAMES)]
    if kind == "rotdeph":
        _, denv, tin, tout = ancilla.rotated_dephasing_env(rng, d, e)
        pt = c03.build_pt(denv, nsteps, dt, True, (tin, tout), caps)
        rank3, transform = True, "unitary"
    else:
        env = ancilla.random_env(rng, d, e, kind)
        rank3 = bool(kind == "dephasing" and (idx // 9) % 2 == 0)
        transform = None
        tr = None
        if not rank3 and idx % 3 == 1:
            d2 = d * d
            if idx % 2:
                u = gen.haar_unitary(rng, d)
                tin = np.kron(u, u.conj())
                tout = np.linalg.inv(tin)
                transform = "unitary"
            else:
                tin = gen.cplx(rng, (d2, d2)) + 2 * np.eye(d2)
                tout = gen.cplx(rng, (d2, d2)) + 2 * np.eye(d2)
                transform = "general"
            tr = (tin, tout)
        pt = c03.build_pt(env, nsteps, dt, rank3, tr, caps)
    # name / description are set through the public attributes
    if name is not None:
        pt.name = name
    if desc is not None:
        pt.description = desc
    return pt, dict(kind=kind, e=e, rank3=rank3, transform=transform,
                    caps=caps, d=d, N=nsteps)


def run_hand(case):
    prepare()
    idx = case["idx"]
    rng = gen.rng_for(case["seed"], "c16h", idx)
    ctx = Ctx()
    ctx.cells.append("family:hand")
    pt, desc = build_hand(rng, idx)
    snap = observe(pt)
    describe_cells(ctx, snap, desc["caps"])
    scr = Scratch()
    try:
        imported, _ = round_trip(ctx, scr, pt, snap)
        if idx % 4 == 0:
            other, _ = build_hand(gen.rng_for(case["seed"], "c16h-o", idx),
                                  idx + 3)
            overwrite_export(ctx, scr, pt, snap, other)
        if idx % 3 == 0:
            imported += direct_file(ctx, scr, pt, snap)
        consumers, free = make_consumers(
            rng, desc["d"], desc["N"], snap["dt"], select_consumers(idx), idx,
            closed=snap["bonds"][-1] == 1)
        effect = run_consumers(ctx, consumers, free, [("original", pt)]
                               + thin(imported, idx))
        # the original must still be what it was
        compare(ctx, snap, observe(pt), "original after all consumers")
    finally:
        scr.cleanup()
    return finish(ctx, "hand", snap, desc["caps"], effect, desc)


# --------------------------------------------------------------------------
# family: random MPOs with prescribed bond dimensions

def build_rand(rng, idx):
    import oqupy
    d = 3 if idx % 5 == 4 else 2
    d2 = d * d
    nsteps = LENGTHS[(idx + idx // 8) % 8]
    rank3 = bool(idx % 3 == 0)
    tmode = ["none", "square", "nonsquare", "in-only", "out-only"][
        (idx // 3) % 5]
    caps = ["explicit", "compute", "explicit", "compute", "explicit",
            "none", "explicit", "partial"][(idx // 2) % 8]
    initial = bool(idx % 11 == 5)
    if rank3 and tmode == "nonsquare" and caps == "compute":
        caps = "explicit"    # compute_caps of rank-3 tensors assumes d^2 legs
    m_in = m_out = d2
    tin = tout = None
    def unit(mat):
        return mat / np.linalg.norm(mat, 2)
    if tmode == "square" and idx % 4 == 1:
        # transforms that are the identity or almost the identity (a frame
        # rotating by a phase of ~1e-5 per step): they are transforms all
        # the same and must come back as they were stored
        tmode = "near-identity"
        if idx % 8 == 1:
            tin = np.eye(d2, dtype=complex)
            tout = np.eye(d2, dtype=complex)
        else:
            ph = rng.uniform(-1, 1, size=d2) * 8e-6
            tin = np.diag(np.exp(1j * ph))
            tout = np.diag(np.exp(-1j * ph))
    elif tmode == "square":
        tin = unit(gen.cplx(rng, (d2, d2)) + 2 * np.eye(d2))
        tout = unit(gen.cplx(rng, (d2, d2)) + 2 * np.eye(d2))
    elif tmode == "nonsquare":
        m_in = d2 + int(rng.choice([-1, 1, 2]))
        m_out = m_in if rank3 else d2 + int(rng.choice([-2, -1, 1]))
        tin = unit(gen.cplx(rng, (d2, m_in)))
        tout = unit(gen.cplx(rng, (m_out, d2)))
    elif tmode == "in-only" and not rank3:
        tin = unit(gen.cplx(rng, (d2, d2)) + 2 * np.eye(d2))
    elif tmode == "out-only" and not rank3:
        tout = unit(gen.cplx(rng, (d2, d2)) + 2 * np.eye(d2))
    elif tmode in ("in-only", "out-only"):
        tmode = "none"
    bmax = 9 if d == 2 else 6
    bonds = [1] + [int(rng.integers(1, bmax + 1)) for _ in range(nsteps)]
    forced = BONDS[idx % 9]
    if nsteps >= 2 or caps != "compute":
        bonds[min(nsteps, 1 + idx % max(nsteps, 1))] = min(forced, 9)
    if idx % 6 == 1:
        bonds[0] = int(rng.integers(2, 4))     # non-trivial first bond
    if idx % 17 == 8 and d == 2 and nsteps >= 2:
        # large bond dimensions (strongly coupled environments reach
        # hundreds): one bond, or two neighbouring ones on the same tensor
        big = [130, 256, 150, 200][(idx // 17) % 4]
        bonds[1] = big
        if nsteps >= 3 and (idx // 17) % 2 == 0:
            bonds[2] = [200, 129, 300, 128][(idx // 17) % 4]
    if caps == "compute":
        bonds[-1] = 1
    dt = [0.1, None, 0.25][idx % 3]
    name = NAMES[(idx + 2) % len(NAMES)]
    desc = NAMES[(idx // 3) % len(NAMES)]
    pt = oqupy.SimpleProcessTensor(d, dt=dt, transform_in=tin,
                                   transform_out=tout, name=name,
                                   description=desc)
    layout = idx % 4
    for k in range(nsteps):
        shape = (bonds[k], bonds[k + 1], m_in) if rank3 else \
            (bonds[k], bonds[k + 1], m_in, m_out)
        t = gen.cplx(rng, shape)
        mat = t.reshape(shape[0], shape[1], -1)
        t = t / np.linalg.norm(mat.transpose(0, 2, 1).reshape(
            shape[0] * mat.shape[2], shape[1]), 2)
        if layout == 1:
            t = np.asfortranarray(t)        # a caller's non-contiguous array
        elif layout == 2 and k % 2:
            t = np.ascontiguousarray(np.moveaxis(t, 0, -1))
            t = np.moveaxis(t, -1, 0)
        pt.set_mpo_tensor(k, t)
    if initial:
        pt.set_initial_tensor(gen.cplx(rng, (bonds[0], d2)))
    if caps == "explicit":
        for k in range(nsteps + 1):
            pt.set_cap_tensor(k, gen.cplx(rng, (bonds[k],)))
    elif caps == "partial":
        for k in range(max(1, nsteps // 2)):
            pt.set_cap_tensor(k, gen.cplx(rng, (bonds[k],)))
    elif caps == "compute":
        pt.compute_caps()
    usable = caps in ("explicit", "compute") and not initial \
        and bonds[0] == 1
    return pt, dict(d=d, N=nsteps, rank3=rank3, transform=tmode, caps=caps,
                    initial=initial, layout=layout, usable=usable)


def run_rand(case):
    prepare()
    idx = case["idx"]
    rng = gen.rng_for(case["seed"], "c16r", idx)
    ctx = Ctx()
    ctx.cells.append("family:rand")
    pt, desc = build_rand(rng, idx)
    snap = observe(pt)
    describe_cells(ctx, snap, desc["caps"])
    scr = Scratch()
    effect = None
    try:
        imported, _ = round_trip(ctx, scr, pt, snap)
        if idx % 5 == 0:
            other, _ = build_rand(gen.rng_for(case["seed"], "c16r-o", idx),
                                  idx + 1)
            overwrite_export(ctx, scr, pt, snap, other)
        if idx % 4 == 1:
            imported += direct_file(ctx, scr, pt, snap)
        if desc["usable"]:
            consumers, free = make_consumers(
                rng, desc["d"], desc["N"], snap["dt"],
                select_consumers(idx), idx, closed=snap["bonds"][-1] == 1)
            effect = run_consumers(ctx, consumers, free,
                                   [("original", pt)] + thin(imported, idx))
        compare(ctx, snap, observe(pt), "original after all consumers")
    finally:
        scr.cleanup()
    return finish(ctx, "rand", snap, desc["caps"], effect, desc)


# --------------------------------------------------------------------------
# family: PT-TEMPO, in memory and file-backed

def install_pttempo_recorder():
    """pt_tempo_compute() looks the PtTempo class up by name at call time:
    a recording subclass gives the harness access to the computation object
    (and through it to the tensors the backend computed) without changing
    what is computed."""
    import oqupy
    import oqupy.pt_tempo as mod
    rec = getattr(mod, "_vp_recorder", None)
    if rec is not None:
        return rec
    rec = []
    base = mod.PtTempo

    class PtTempo(base):              # pylint: disable=too-few-public-methods
        __doc__ = base.__doc__

        def __init__(self, *args, **kwargs):
            super().__init__(*args, **kwargs)
            rec.append(self)
    PtTempo.__qualname__ = base.__qualname__
    PtTempo.__module__ = base.__module__
    mod.PtTempo = PtTempo
    oqupy.PtTempo = PtTempo
    mod._vp_recorder = rec
    return rec


def backend_equivalent(ptt, like):
    """What the in-memory path stores for the tensors this computation
    produced: a SimpleProcessTensor filled from the backend's MPS."""
    import oqupy
    be = getattr(ptt, "_backend_instance", None)
    if be is None or not hasattr(be, "get_mpo_tensor"):
        return None
    eq = oqupy.SimpleProcessTensor(
        like.hilbert_space_dimension, dt=like.dt,
        transform_in=like.transform_in, transform_out=like.transform_out,
        name=like.name, description=like.description)
    for step in range(be.num_steps):
        eq.set_mpo_tensor(step, be.get_mpo_tensor(step))
    eq.compute_caps()
    return eq


def run_pttempo(case):
    import oqupy
    from vp import lib
    prepare()
    recorder = install_pttempo_recorder()
    del recorder[:]
    idx = case["idx"]
    rng = gen.rng_for(case["seed"], "c16p", idx)
    ctx = Ctx()
    ctx.cells.append("family:pttempo")
    d = 3 if idx % 4 == 3 else 2
    nsteps = [2, 3, 4, 5, 6, 7, 8, 3][idx % 8]
    if d == 3:
        nsteps = min(nsteps, 5)
    dt = float(rng.choice([0.05, 0.1, 0.2]))
    start = float(rng.choice([0.0, -0.3, 1.7]))
    epsrel = float(10 ** rng.uniform(-8, -6))
    kmax = None if idx % 3 else int(rng.integers(1, nsteps + 1))
    unique = bool(idx % 5 == 2)
    p = gen.sd_params(rng)
    o = np.sort(rng.normal(size=d))[::-1]
    if unique and d == 3:
        o[1] = o[0]                          # a degenerate coupling
    o, rmeas, _ = lib.guard_coupling(p, o, dt, nsteps, kmax, None, rng)
    if rmeas < 1.0:
        # strong enough to matter (non-triviality), inside the guard
        o = o * np.sqrt(rng.uniform(1.0, 5.0) / max(rmeas, 1e-12))
        o, rmeas, _ = lib.guard_coupling(p, o, dt, nsteps, kmax, None, rng)
    vkind = ["identity", "haar", "real", "identity"][idx % 4]
    v = gen.structured_unitary(rng, d, vkind)
    oper = v @ np.diag(o) @ v.conj().T
    oper = (oper + oper.conj().T) / 2
    diagonal = vkind == "identity"
    ctx.cells.append("coupling:diagonal" if diagonal
                     else "coupling:nondiagonal")
    if unique:
        ctx.cells.append("unique")
    name = NAMES[(idx + 1) % len(NAMES)]
    desc = NAMES[(idx // 2) % len(NAMES)]
    end = lib.end_time(start, dt, nsteps)

    def bath():
        return oqupy.Bath(oper.copy(), gen.make_power_law(p))

    def params():
        return oqupy.TempoParameters(dt=dt, epsrel=epsrel, dkmax=kmax)

    def compute(end_time=end, via_class=False, **more):
        """A PT-TEMPO run; returns (process tensor, computation object)."""
        del recorder[:]
        if via_class:
            ptt = oqupy.PtTempo(bath(), start, end_time, params(),
                                unique=unique, name=name, description=desc,
                                **more)
            res = ptt.get_process_tensor(progress_type="silent")
        else:
            res = oqupy.pt_tempo_compute(
                bath(), start, end_time, params(), unique=unique,
                progress_type="silent", name=name, description=desc, **more)
        return res, (recorder[-1] if recorder else None)

    def check_file_backed(fpt, ptt, label, ref_snap):
        """file-backed result: the same process tensor as the in-memory run
        (gauge invariant), and tensor by tensor what the in-memory path
        stores for the tensors of this very computation."""
        if type(fpt).__name__ != "FileProcessTensor":
            ctx.violate("filebacked-type", f"{label} returned a "
                        f"{type(fpt).__name__}")
        fsnap = observe(fpt)
        compare_gauge(ctx, ref_snap, fsnap, label)
        eq = backend_equivalent(ptt, fpt) if ptt is not None else None
        if eq is not None:
            compare(ctx, observe(eq), fsnap,
                    label + " vs in-memory storage of the same computation",
                    caps_exact=False)
            ctx.count("filebacked_tensorwise")
        return fsnap

    pt, _ = compute()
    snap = observe(pt)
    if snap["len"] != nsteps:
        ctx.violate("pttempo-length", f"PT-TEMPO returned {snap['len']} "
                    f"steps, {nsteps} requested")
    describe_cells(ctx, snap, "compute")
    scr = Scratch()
    try:
        objs = [("original", pt)]
        imported, _ = round_trip(ctx, scr, pt, snap)
        objs += thin(imported, idx)

        # --- computation writing directly into a named file --------------
        fn = scr.path("named_")
        fpt, ptt = compute(via_class=bool(idx % 2), process_tensor_file=fn)
        scr.track(fpt)
        if os.path.realpath(getattr(fpt, "filename", "")) != \
                os.path.realpath(fn):
            ctx.violate("filebacked-type", "file-backed process tensor does "
                        "not live in the requested file")
        fsnap = check_file_backed(fpt, ptt, "file-backed PT-TEMPO (open)",
                                  snap)
        ctx.cells.append("filebacked:named")
        if idx % 2:
            ctx.cells.append("filebacked:class")
        snap_orig = snap
        if idx % 3 == 1:
            # both results are labelled AFTER the computation, the file one
            # while it is still open for writing: the file must hold the
            # labels that were assigned
            newname = f"relabelled run {idx}"
            newdesc = f"alpha, T, coupling of run {idx}; dt={dt}"
            for obj in (pt, fpt):
                obj.name = newname
                obj.description = newdesc
            snap = observe(pt)
            fsnap = observe(fpt)
            compare_attributes(ctx, snap, fsnap,
                               "file-backed PT-TEMPO relabelled while open")
            ctx.cells.append("filebacked:relabelled-while-open")
        objs.append(("file-backed PT-TEMPO (open)", fpt, True))

        # --- temporary file (process_tensor_file=True) -------------------
        tpt = None
        if idx % 2 == 0:
            with private_tmp(scr.dir):
                tpt, ptt2 = compute(via_class=bool(idx % 4 == 2),
                                    process_tensor_file=True)
            scr.track(tpt)
            if os.path.dirname(os.path.realpath(tpt.filename)) != \
                    os.path.realpath(scr.dir):
                ctx.obs["temp_file_elsewhere"] = 1.0
            check_file_backed(tpt, ptt2,
                              "file-backed PT-TEMPO (temporary file)",
                              snap_orig)
            ctx.cells.append("filebacked:temp")
            if idx % 4 == 2:
                ctx.cells.append("filebacked:class")
            objs.append(("file-backed PT-TEMPO (temporary file)", tpt, True))

        # --- a scan: temporary-file results of several short computations,
        #     each closed as soon as it is done, all opened again afterwards
        if idx % 4 == 0:
            held = []
            with private_tmp(scr.dir):
                for q_ in range(3):
                    tq, _ = compute(
                        end_time=lib.end_time(start, dt, 2 + q_),
                        process_tensor_file=True)
                    held.append((tq.filename, observe(tq)))
                    tq.close()
            if len({h[0] for h in held}) != len(held):
                ctx.violate("temp-file-shared", "temporary-file process "
                            "tensors of separate computations live in the "
                            f"same file: {[os.path.basename(h[0]) for h in held]}")
            for q_, (tname_, tsnap_) in enumerate(held):
                try:
                    q = scr.track(oqupy.import_process_tensor(tname_,
                                                              "simple"))
                except Exception as exc:   # pylint: disable=broad-except
                    ctx.violate("temp-file-shared", "temporary-file process "
                                f"tensor {q_} of a scan cannot be opened "
                                f"again: {type(exc).__name__}: {exc}")
                    continue
                compare(ctx, tsnap_, observe(q),
                        f"temporary-file PT-TEMPO {q_} of a scan, opened "
                        "again after the scan")
            for tname_, _ in held:
                if os.path.exists(tname_):
                    os.remove(tname_)
            ctx.cells.append("filebacked:temp-scan")

        consumers, free = make_consumers(
            rng, d, nsteps, snap["dt"], select_consumers(idx), idx)
        effect = run_consumers(ctx, consumers, free, objs)

        # --- after close: the file holds what the open object showed -----
        fpt.close()
        late = []
        for typ in ("file", "simple"):
            q = scr.track(oqupy.import_process_tensor(fn, typ))
            label = f"import(file-backed PT-TEMPO,{typ!r})"
            compare(ctx, fsnap, observe(q), label + " vs open object")
            compare_gauge(ctx, snap, observe(q), label)
            late.append((label, q, True))
        run_consumers(ctx, consumers[:1], free, [("original", pt)] + late,
                      want_effect=False)
        for entry in late:
            if hasattr(entry[1], "close"):
                entry[1].close()
        if tpt is not None:
            tname = tpt.filename
            tpt.remove()
            if os.path.exists(tname):
                ctx.obs["temp_file_left"] = 1.0
                os.remove(tname)

        # --- overwrite semantics of the file-backed computation ----------
        if idx % 2 == 1:
            late = None
            gc.collect()
            before = file_hash(fn)
            n2 = nsteps + 1 if nsteps < 8 and d == 2 else nsteps - 1
            n2 = max(n2, 2)
            end2 = lib.end_time(start, dt, n2)
            refused = False
            try:
                bad, _ = compute(end_time=end2, process_tensor_file=fn)
                scr.track(bad)
            except Exception:        # pylint: disable=broad-except
                refused = True
            gc.collect()
            if not refused:
                ctx.violate("overwrite-semantics", "file-backed PT-TEMPO "
                            "onto an existing file without overwrite=True "
                            "did not raise")
            elif file_hash(fn) != before:
                ctx.violate("overwrite-semantics", "refused file-backed "
                            "PT-TEMPO changed the existing file")
            ctx.cells.append("overwrite:pttempo-refused")
            if refused:
                pt2, _ = compute(end_time=end2)
                snap2 = observe(pt2)
                f2, ptt3 = compute(end_time=end2, process_tensor_file=fn,
                                   overwrite=True)
                scr.track(f2)
                fsnap2 = check_file_backed(
                    f2, ptt3, "overwriting file-backed PT-TEMPO (open)",
                    snap2)
                f2.close()
                q = scr.track(oqupy.import_process_tensor(fn, "simple"))
                compare(ctx, fsnap2, observe(q),
                        "import(overwritten file-backed PT-TEMPO)")
                ctx.cells.append("overwrite:pttempo-replaced")
        compare(ctx, snap, observe(pt), "original after all consumers")
    finally:
        scr.cleanup()
        del recorder[:]
    sample = dict(d=d, N=nsteps, dt=dt, start=start, epsrel=epsrel,
                  dkmax=kmax, unique=unique, coupling=vkind, sd=p, R=rmeas)
    return finish(ctx, "pttempo", snap, "compute", effect, sample)



def run_case(case):
    return {"hand": run_hand, "rand": run_rand,
            "pttempo": run_pttempo}[case["kind"]](case)
