"""Worker: runs a batch of cases of one check in a fresh interpreter.

usage: python -m vp.worker <check module> <cases.json> <results.jsonl>

Results are appended one JSON line per case (flushed), so a worker that dies
leaves the results of the cases it finished.
"""
import faulthandler
import importlib
import json
import os
import sys
import time
import traceback
import warnings


def classify_exception(exc, mod):
    """An exception escaping run_case: if it was raised inside the library
    (innermost frame under <repo>/oqupy, or in a third-party package called
    from there) it refutes the property the case exercises (every case feeds
    valid inputs); if the innermost frame is harness code it is a harness
    error (inconclusive)."""
    repo = os.path.realpath(os.environ.get("VP_REPO", "/repo"))
    verif = os.path.dirname(os.path.dirname(os.path.realpath(__file__)))
    frames = traceback.extract_tb(exc.__traceback__)
    files = [os.path.realpath(f.filename) for f in frames]
    text = traceback.format_exc()[-3000:]
    from vp.run import Inconclusive
    if isinstance(exc, Inconclusive):
        return {"inconclusive": "check: " + str(exc)}
    if type(exc).__name__ == "RefUnreliable":
        # a reference model failed its own self-test: the case is not judged
        return {"skipped": "reference_unreliable"}
    innermost_in_harness = files and files[-1].startswith(verif)
    lib_frames = [f for f, fn in zip(frames, files)
                  if fn.startswith(os.path.join(repo, "oqupy"))]
    if lib_frames and not innermost_in_harness \
            and getattr(mod, "LIB_EXC_IS_VIOLATION", True):
        last = lib_frames[-1]
        return {"violations": [{
            "what": f"library raised {type(exc).__name__}: {str(exc)[:200]}",
            "mechanism": f"exception:{type(exc).__name__}@{last.name}",
            "detail": {"traceback": text[-1500:]}}],
            "nontrivial": True}
    return {"error": text}


def main():
    modname, infile, outfile = sys.argv[1:4]
    faulthandler.enable()
    # make sure the tree under test is the one that is imported
    import oqupy
    repo = os.environ.get("VP_REPO", "/repo")
    assert os.path.realpath(oqupy.__file__).startswith(
        os.path.realpath(repo)), (oqupy.__file__, repo)
    warnings.simplefilter("ignore")
    from vp.common import jsonable
    mod = importlib.import_module(modname)
    with open(infile) as f:
        cases = json.load(f)
    with open(outfile, "a") as out:
        for case in cases:
            t0 = time.time()
            try:
                res = mod.run_case(case)
            except Exception as exc:  # harness or unexpected library error
                res = classify_exception(exc, mod)
            res["case_index"] = case["_i"]
            res["wall"] = time.time() - t0
            out.write(json.dumps(jsonable(res)) + "\n")
            out.flush()


if __name__ == "__main__":
    main()
