"""Shared scenario builders: systems (with an independent reference
Liouvillian), control schedules, recording probes for user callables."""
import numpy as np
from scipy.linalg import expm

from vp import gen

_GL_X, _GL_W = np.polynomial.legendre.leggauss(24)


class Probe:
    """Recording wrapper for user-supplied callables: logs (name, args) of
    every call; can raise at a chosen global call index (failpoint)."""

    def __init__(self):
        self.log = []
        self.fail_at = None      # global call count (1-based) at which to raise
        self.fail_name = None    # restrict failpoint to one callable name
        self.count = 0
        self.counts = {}
        self.n_raised = 0        # how often the failpoint really fired

    class Boom(Exception):
        pass

    def wrap(self, name, fn):
        def wrapped(*args):
            self.count += 1
            self.counts[name] = self.counts.get(name, 0) + 1
            n = self.counts[name] if self.fail_name else self.count
            if self.fail_at is not None and n == self.fail_at and \
                    (self.fail_name is None or self.fail_name == name):
                self.log.append((name, "RAISE") + tuple(
                    a for a in args if isinstance(a, (int, float))))
                self.n_raised += 1
                raise Probe.Boom(f"injected fault in {name} call {n}")
            self.log.append((name,) + tuple(
                float(a) if isinstance(a, (int, float)) else None
                for a in args[:1]))
            return fn(*args)
        return wrapped

    def times(self, name):
        return [e[1] for e in self.log if e[0] == name and e[1] != "RAISE"]


def random_system(rng, d, kind, probe=None, tshift=0.0, n_lind=None,
                  switch_on=None, drive_period=None):
    """kind: 'const' | 'td'. Returns dict with the oqupy system, a reference
    Liouvillian function liou(t) (own implementation), flag td.
    tshift: the explicit time dependence is f(t - tshift)."""
    import oqupy
    h0 = gen.rand_herm(rng, d, 0.7)
    h1 = gen.rand_herm(rng, d, 0.5)
    w, phi = float(rng.uniform(1.0, 4.0)), float(rng.uniform(0, 6))
    nl = int(rng.integers(0, 3)) if n_lind is None else n_lind
    g0 = [float(rng.uniform(0.05, 0.4)) for _ in range(nl)]
    nu = [float(rng.uniform(0.5, 3.0)) for _ in range(nl)]
    a0 = [gen.cplx(rng, (d, d), 0.6) for _ in range(nl)]
    a1 = [gen.cplx(rng, (d, d), 0.3) for _ in range(nl)]
    if kind == "slow":
        # a slowly evolving system resolved with a fine time step: a
        # detuning-type (diagonal) Hamiltonian whose half-step propagator is
        # within ~1e-5 of the identity - close to it, not equal to it
        h0 = np.diag(rng.uniform(-1.0, 1.0, size=d)).astype(complex) \
            * (1.6e-5 / switch_on)

        def liou(t):
            return gen.lindblad_super(h0, [], [])
        return dict(oq=oqupy.System(h0), liou=liou, td=False, d=d, h0=h0,
                    nl=0, g0=[], a0=[])
    if kind == "const":
        def liou(t):
            return gen.lindblad_super(h0, g0, a0)
        sysm = oqupy.System(h0, g0, a0)
        return dict(oq=sysm, liou=liou, td=False, d=d, h0=h0, nl=nl,
                    g0=g0, a0=a0)

    if drive_period is not None:
        # a drive whose period is a fraction of the time step: the
        # Hamiltonian takes the same value at both ends of every half step
        # without being constant in between
        w = 2 * np.pi / drive_period

    def hfun(t):
        return h0 + np.cos(w * (t - tshift) + phi) * h1

    def gfun(k):
        if switch_on is not None:
            # a rate that is switched on at t_on: the literal 0 (an int)
            # before, a float afterwards
            def g(t):
                if (t - tshift) < switch_on:
                    return 0
                return g0[k] * (1.0 + 0.5 * np.sin(nu[k] * (t - tshift)))
            return g
        return lambda t: g0[k] * (1.0 + 0.5 * np.sin(nu[k] * (t - tshift)))

    def afun(k):
        return lambda t: a0[k] + np.sin(0.7 * (t - tshift)) * a1[k]

    gf = [gfun(k) for k in range(nl)]
    af = [afun(k) for k in range(nl)]

    def liou(t):
        return gen.lindblad_super(hfun(t), [g(t) for g in gf],
                                  [a(t) for a in af])
    if probe is not None:
        hw = probe.wrap("H", hfun)
        gw = [probe.wrap(f"gamma{k}", g) for k, g in enumerate(gf)]
        aw = [probe.wrap(f"A{k}", a) for k, a in enumerate(af)]
    else:
        hw, gw, aw = hfun, gf, af
    sysm = oqupy.TimeDependentSystem(hw, gw, aw)
    return dict(oq=sysm, liou=liou, td=True, d=d, h0=h0, nl=nl)


def halfprops(sysd, dt, start_time, subdiv_limit):
    """Reference half-step propagators for a system dict."""
    liou = sysd["liou"]
    if not sysd["td"]:
        p = expm(liou(0.0) * dt / 2)
        return lambda k: (p, p)
    if subdiv_limit is None:
        def f(k):
            t = start_time + k * dt
            return (expm(liou(t + dt / 4) * dt / 2),
                    expm(liou(t + 3 * dt / 4) * dt / 2))
        return f

    def integ(a, b):
        xm, xr = 0.5 * (a + b), 0.5 * (b - a)
        return sum(wt * liou(xm + xr * x) for x, wt in zip(_GL_X, _GL_W)) * xr

    def f(k):
        t = start_time + k * dt
        return (expm(integ(t, t + dt / 2)), expm(integ(t + dt / 2, t + dt)))
    return f


def random_superop(rng, d, kind):
    """System control superoperators (row-major vec convention)."""
    if kind == "unitary":
        return gen.unitary_super(gen.haar_unitary(rng, d))
    if kind == "channel":
        return gen.kraus_to_super(gen.rand_channel_kraus(rng, d, 2))
    if kind == "nontp":
        ks = gen.rand_channel_kraus(rng, d, 2)
        ks = [0.9 * k @ np.diag(rng.uniform(0.6, 1.0, size=d)) for k in ks]
        return gen.kraus_to_super(ks)
    if kind == "identity":
        return np.eye(d * d, dtype=complex)
    if kind == "weak":
        # a weak operation: within ~1e-5 of the identity (a tiny kick with a
        # tiny loss) - not the identity, it acts (effect ~5e-6)
        if rng.random() < 0.5:
            # diagonal: a weak z-kick with a weak loss
            u = np.diag(np.exp(-1j * 4e-6 * rng.uniform(-1, 1, size=d)))
        else:
            h = gen.rand_herm(rng, d)
            h /= np.linalg.norm(h, 2)
            from scipy.linalg import expm
            u = expm(-1j * 4e-6 * h)
        return (1.0 - 3e-6) * gen.unitary_super(u)
    if kind == "left":
        a = gen.cplx(rng, (d, d))
        return np.kron(a, np.eye(d))
    raise ValueError(kind)


def random_controls(rng, d, nsteps, dt, start_time, n_controls, kinds,
                    allow_float=True, stack=False):
    """Returns (oqupy.Control, pre dict, post dict, description list).
    Controls stacked on the same key are added in list order."""
    import oqupy
    ctrl = oqupy.Control(d)
    pre, post, desc = {}, {}, []
    used = set()
    for n in range(n_controls):
        step = int(rng.integers(0, nsteps + 1))
        is_post = bool(rng.random() < 0.5)
        if step == nsteps:
            is_post = False   # a post control at the last step never acts
        as_float = bool(allow_float and rng.random() < 0.4)
        key = (step, is_post)
        if key in used:
            continue      # one spec type per (step, side): no int/float mixing
        nstack = int(rng.integers(2, 4)) if stack else 1
        for _ in range(nstack):
            kind = str(rng.choice(kinds))
            sup = random_superop(rng, d, kind)
            if as_float:
                # the same float key so that stacking order is well defined
                # a bit after, a bit before, or (as a decimal literal) on
                # the grid time of the step
                off = [0.23, -0.31, 0.0][n % 3]
                tkey = start_time + (step + off) * dt
                if off == 0.0:
                    tkey = float(repr(round(tkey, 10)))
                ctrl.add_single(float(tkey), sup, post=is_post)
                spec = ("float", float(tkey))
            else:
                ctrl.add_single(step, sup, post=is_post)
                spec = ("int", step)
            (post if is_post else pre).setdefault(step, []).append(sup)
            desc.append({"step": step, "post": is_post, "kind": kind,
                         "spec": spec})
        used.add(key)
    return ctrl, pre, post, desc
