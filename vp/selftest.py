"""Mutant self-test: apply a patch to a scratch copy of the repository (outside
/repo and /verif), run checks against it through VP_REPO, expect VIOLATION.

    python -m vp.selftest <patch.diff> C01 [C02 ...] [--tier quick] [--reverse]

--reverse applies the patch in reverse (used with the diffs of the fix:
commits, which turns a fix back into the original defect).
The scratch copy is removed afterwards. Evidence files are not touched.
"""
import argparse
import os
import shutil
import subprocess
import sys
import tempfile

from vp import common


def make_copy(patch, reverse=False):
    base = "/dev/shm" if os.path.isdir("/dev/shm") else tempfile.gettempdir()
    dst = tempfile.mkdtemp(prefix="vp_mut_", dir=base)
    subprocess.run(["rsync", "-a", "--exclude", ".git", "--exclude",
                    "__pycache__", "--exclude", "docs", "--exclude",
                    "tutorials", "--exclude", "examples",
                    "/repo/", dst + "/"], check=True)
    cmd = ["patch", "-p1", "-s", "-d", dst, "-i", os.path.abspath(patch)]
    if reverse:
        cmd.insert(1, "-R")
    res = subprocess.run(cmd, capture_output=True, text=True)
    if res.returncode != 0:
        shutil.rmtree(dst, ignore_errors=True)
        raise SystemExit("patch does not apply: " + res.stdout + res.stderr)
    return dst


def main():
    ap = argparse.ArgumentParser()
    ap.add_argument("patch")
    ap.add_argument("props", nargs="+")
    ap.add_argument("--tier", default="quick")
    ap.add_argument("--seed", default="0")
    ap.add_argument("--reverse", action="store_true")
    args = ap.parse_args()
    dst = make_copy(args.patch, args.reverse)
    rc_all = 0
    try:
        for prop in args.props:
            env = dict(os.environ, VP_REPO=dst, VERIF_SEED=args.seed)
            res = subprocess.run(
                [common.PYTHON, "-m", "vp.run", prop, "--tier", args.tier,
                 "--no-evidence"], env=env, cwd=common.VERIF,
                capture_output=True, text=True)
            lines = res.stdout.strip().splitlines()
            viol = [l for l in lines if l.startswith("VIOLATION")]
            what = [l for l in lines if l.strip().startswith("violation:")]
            status = {0: "MISSED (held)", 1: "CAUGHT", 2: "INCONCLUSIVE"}.get(
                res.returncode, f"exit {res.returncode}")
            print(f"{os.path.basename(os.path.dirname(os.path.abspath(args.patch)))}/"
                  f"{os.path.basename(args.patch)} {prop}: {status} "
                  f"({len(viol)} violations)")
            for l in what[:3]:
                print("    " + l.strip()[:300])
            if res.returncode == 2:
                for l in lines:
                    if l.startswith("INCONCLUSIVE"):
                        print("    " + l[:400])
            if res.returncode != 1:
                rc_all = 1
                sys.stdout.write(res.stderr[-800:])
    finally:
        shutil.rmtree(dst, ignore_errors=True)
    return rc_all


if __name__ == "__main__":
    sys.exit(main())
