"""Seeded generators. Every case is a deterministic function of
(VERIF_SEED, case index, parameters) through numpy's default_rng, so a replay
file only needs the case descriptor."""
import math

import numpy as np


def rng_for(*keys):
    """Independent generator for a tuple of ints/strings."""
    ints = []
    for k in keys:
        if isinstance(k, str):
            ints.append(sum((i + 1) * b for i, b in enumerate(k.encode())) % (2**31))
        else:
            ints.append(int(k) % (2**31))
    return np.random.default_rng(ints)


def cplx(rng, shape, scale=1.0):
    return scale * (rng.normal(size=shape) + 1j * rng.normal(size=shape))


def rand_herm(rng, d, scale=1.0, real=False):
    a = rng.normal(size=(d, d)) if real else cplx(rng, (d, d))
    return scale * (a + a.conj().T) / 2


def haar_unitary(rng, d):
    z = cplx(rng, (d, d))
    q, r = np.linalg.qr(z)
    ph = np.diag(r) / np.abs(np.diag(r))
    return q * ph


def structured_unitary(rng, d, kind):
    """kind in identity, perm, real, phase, block, haar"""
    if kind == "identity":
        return np.eye(d, dtype=complex)
    if kind == "perm":
        p = rng.permutation(d)
        if d > 1 and np.all(p == np.arange(d)):
            p = np.roll(p, 1)
        return np.eye(d, dtype=complex)[p]
    if kind == "real":
        q, r = np.linalg.qr(rng.normal(size=(d, d)))
        return (q * np.sign(np.diag(r))).astype(complex)
    if kind == "phase":
        return np.diag(np.exp(1j * rng.uniform(0, 2 * np.pi, size=d)))
    if kind == "givens_far":
        # mixes only the first and the last level (non-adjacent for d >= 3):
        # the conjugated operator has a vanishing first super-diagonal
        u = np.eye(d, dtype=complex)
        th, ph = rng.uniform(0.3, 1.2), rng.uniform(0, 2 * np.pi)
        c, s_ = np.cos(th), np.sin(th) * np.exp(1j * ph)
        u[0, 0], u[0, d - 1] = c, -np.conj(s_)
        u[d - 1, 0], u[d - 1, d - 1] = s_, c
        return u
    if kind == "near_identity":
        # a rotation by 1e-4 .. 5e-3: the operator is "almost" diagonal
        # (|U_ii| = 1 - O(theta^2)), its off-diagonal part is O(theta)
        from scipy.linalg import expm
        k = rand_herm(rng, d)
        k /= np.linalg.norm(k, 2)
        return expm(1j * 10 ** rng.uniform(-4, -2.3) * k)
    if kind == "block":
        u = np.eye(d, dtype=complex)
        if d >= 2:
            u[:2, :2] = haar_unitary(rng, 2)
        if d >= 4:
            u[2:4, 2:4] = haar_unitary(rng, 2)
        return u
    return haar_unitary(rng, d)


def rand_state(rng, d, kind="mixed"):
    """kind in pure, mixed, rankdef, diag"""
    if kind == "pure":
        v = cplx(rng, (d,))
        v /= np.linalg.norm(v)
        return np.outer(v, v.conj())
    if kind == "rankdef":
        r = max(1, d - 1)
        a = cplx(rng, (d, r))
        rho = a @ a.conj().T
        return rho / np.trace(rho).real
    if kind == "diag":
        p = rng.uniform(0.1, 1.0, size=d)
        return np.diag(p / p.sum()).astype(complex)
    a = cplx(rng, (d, d))
    rho = a @ a.conj().T
    return rho / np.trace(rho).real


def rand_channel_kraus(rng, d, n=2):
    """Random CPTP map as Kraus operators."""
    ks = [cplx(rng, (d, d)) for _ in range(n)]
    s = sum(k.conj().T @ k for k in ks)
    w, v = np.linalg.eigh(s)
    sinv = v @ np.diag(w ** -0.5) @ v.conj().T
    return [k @ sinv for k in ks]


def kraus_to_super(ks):
    """Row-major vectorisation: vec(K rho K^dag) = (K kron K.conj()) vec(rho)."""
    return sum(np.kron(k, k.conj()) for k in ks)


def unitary_super(u):
    return np.kron(u, u.conj())


CUTOFFS = ("hard", "exponential", "gaussian")


def sd_params(rng, strong=False, temperature=None, cutoff_type=None):
    """Spectral density parameters (power law)."""
    alpha = 10 ** rng.uniform(-2, 0.5 if strong else -0.3)
    zeta = float(rng.choice([0.5, 1.0, 1.5, 3.0, rng.uniform(0.3, 4.0)]))
    wc = 10 ** rng.uniform(-0.3, 0.9)
    ct = cutoff_type or str(rng.choice(CUTOFFS))
    if temperature is None:
        temperature = 0.0 if rng.random() < 0.35 else 10 ** rng.uniform(-1.5, 1.2)
    return dict(alpha=float(alpha), zeta=float(zeta), cutoff=float(wc),
                cutoff_type=ct, temperature=float(temperature))


def make_power_law(p):
    import oqupy
    return oqupy.PowerLawSD(alpha=p["alpha"], zeta=p["zeta"],
                            cutoff=p["cutoff"], cutoff_type=p["cutoff_type"],
                            temperature=p["temperature"])


def make_custom_sd(p):
    """The same spectral density through CustomSD with an explicit j."""
    import oqupy
    a, z, wc = p["alpha"], p["zeta"], p["cutoff"]
    return oqupy.CustomSD(lambda w: 2.0 * a * w ** z * wc ** (1 - z),
                          cutoff=wc, cutoff_type=p["cutoff_type"],
                          temperature=p["temperature"])


def conditioning(eta_re_abs_sum, o_vals):
    """R = max|Delta o|^2 * sum_dk |Re eta_dk| (DESIGN 2.3)."""
    o = np.asarray(o_vals, dtype=float)
    spread = float(o.max() - o.min())
    return spread ** 2 * float(eta_re_abs_sum)


R_MAX = 8.0


def lindblad_super(h, gammas=(), ops=()):
    """Liouvillian in row-major vectorisation (independent re-implementation)."""
    d = h.shape[0]
    eye = np.eye(d)
    liou = -1j * (np.kron(h, eye) - np.kron(eye, h.T))
    for g, a in zip(gammas, ops):
        ada = a.conj().T @ a
        liou = liou + g * (np.kron(a, a.conj()) - 0.5 * np.kron(ada, eye)
                           - 0.5 * np.kron(eye, ada.T))
    return liou


def hexf(x):
    return float(x).hex()


def nice(x, nd=6):
    """Round floats for readable samples."""
    if isinstance(x, float):
        return float(f"{x:.{nd}g}")
    if isinstance(x, dict):
        return {k: nice(v, nd) for k, v in x.items()}
    if isinstance(x, (list, tuple)):
        return [nice(v, nd) for v in x]
    return x
