"""Case fan-out: batches of cases run in fresh interpreters started with
subprocess.run(timeout=...), never multiprocessing.Pool (which hangs when a
child dies)."""
import json
import os
import shutil
import subprocess
import tempfile
import time
from concurrent.futures import ThreadPoolExecutor

from vp.common import PYTHON, VERIF, worker_env

NWORKERS = int(os.environ.get("VP_WORKERS", "16"))


def _run_batch(modname, batch, timeout, tmpdir, tag):
    infile = os.path.join(tmpdir, f"in_{tag}.json")
    outfile = os.path.join(tmpdir, f"out_{tag}.jsonl")
    with open(infile, "w") as f:
        json.dump(batch, f)
    cmd = [PYTHON, "-u", "-m", "vp.worker", modname, infile, outfile]
    status = "ok"
    stderr = ""
    try:
        res = subprocess.run(cmd, env=worker_env(), cwd=tmpdir, timeout=timeout,
                             capture_output=True, text=True)
        if res.returncode != 0:
            status = f"exit{res.returncode}"
            stderr = res.stderr[-2000:]
    except subprocess.TimeoutExpired as e:
        status = "watchdog"
        stderr = (e.stderr or b"")[-2000:] if e.stderr else ""
        if isinstance(stderr, bytes):
            stderr = stderr.decode(errors="replace")
    results = {}
    if os.path.exists(outfile):
        with open(outfile) as f:
            for line in f:
                line = line.strip()
                if not line:
                    continue
                try:
                    r = json.loads(line)
                except ValueError:
                    continue
                results[r["case_index"]] = r
    return status, stderr, results


def run_cases(mod, cases, default_timeout=180.0):
    """Run all cases; returns list of results aligned with cases. A case whose
    worker died or timed out gets {"inconclusive": reason} after one isolated
    retry."""
    modname = mod.__name__
    batch_size = getattr(mod, "BATCH", 8)
    case_timeout = getattr(mod, "CASE_TIMEOUT", default_timeout)
    # wall-clock limits are watchdogs only (their firing is inconclusive,
    # never a verdict): generous, and more so for the thorough tier and on a
    # loaded machine
    factor = float(os.environ.get("VP_TIMEOUT_FACTOR", "1"))
    if cases and cases[0].get("tier") == "thorough":
        factor *= 4.0
    try:
        load = os.getloadavg()[0] / max(1, os.cpu_count() or 1)
        factor *= max(1.0, min(4.0, load))
    except OSError:
        pass
    case_timeout *= factor
    for i, c in enumerate(cases):
        c["_i"] = i
    # interleave so that expensive neighbouring cases spread over batches
    nb = max(1, (len(cases) + batch_size - 1) // batch_size)
    batches = [cases[k::nb] for k in range(nb)]
    tmpdir = tempfile.mkdtemp(prefix="vp_", dir=worker_env()["TMPDIR"])
    results = [None] * len(cases)
    try:
        def job(arg):
            k, batch = arg
            to = case_timeout * len(batch)
            return batch, _run_batch(modname, batch, to, tmpdir, f"b{k}")

        with ThreadPoolExecutor(NWORKERS) as ex:
            outs = list(ex.map(job, enumerate(batches)))
        retry = []
        for batch, (status, stderr, res) in outs:
            for c in batch:
                if c["_i"] in res:
                    results[c["_i"]] = res[c["_i"]]
                else:
                    retry.append((c, status, stderr))
        if retry:
            def job1(arg):
                n, (c, status, stderr) = arg
                return c, _run_batch(modname, [c], case_timeout, tmpdir,
                                     f"r{n}")
            with ThreadPoolExecutor(NWORKERS) as ex:
                outs = list(ex.map(job1, enumerate(retry)))
            for c, (status, stderr, res) in outs:
                if c["_i"] in res:
                    results[c["_i"]] = res[c["_i"]]
                else:
                    results[c["_i"]] = {
                        "inconclusive": f"worker {status}",
                        "stderr": stderr, "case_index": c["_i"]}
    finally:
        shutil.rmtree(tmpdir, ignore_errors=True)
    return results
