"""Fresh-interpreter worker for C19 (no background activity left behind).

usage: python c19_worker.py <scenarios.json> <results.json>

Each scenario is run with:
  * virtual time: oqupy.util.Timer replaced by a subclass that scales the
    interval (1 s -> 20 ms); the library's logic is untouched;
  * a counting output stream installed as sys.stdout *before* the call;
  * after the call returned or raised: thread census (threads alive that were
    not alive before), bytes written after the call ended, both sampled again
    after a grace period of 15 virtual seconds.
Between scenarios leaked timers are cancelled and the census must be clean
again (otherwise the batch stops: inconclusive).
The last scenario of a batch may ask for "exit_check": then nothing is cleaned
up and the interpreter must be able to exit by itself (the parent watches).
"""
import dis
import io
import json
import os
import sys
import threading
import time
import traceback

SCALE = 0.02
GRACE = 15 * SCALE + 0.05


class Out(io.TextIOBase):
    def __init__(self):
        self.n = 0
        self.chunks = []
        self.fail_at = None       # the k-th write (1-based) and all later
        self.writes = 0           # ones raise BrokenPipeError
        self.broken = 0

    def write(self, s):
        self.writes += 1
        if self.fail_at is not None and self.writes >= self.fail_at:
            self.broken += 1
            raise BrokenPipeError("injected: output stream is gone")
        self.n += len(s)
        if len(self.chunks) < 2000:
            self.chunks.append((time.monotonic(), len(s)))
        return len(s)

    def flush(self):
        pass


class Boom(Exception):
    pass


class BoomBase(BaseException):
    """A user-defined abort signal that is not an Exception subclass."""


def injected(state):
    """The exception instance to raise for this scenario."""
    kind = state.get("exc") or "Exception"
    if kind == "KeyboardInterrupt":
        return KeyboardInterrupt("injected")
    if kind == "BaseException":
        return BoomBase("injected")
    return Boom("injected")


INJECTED = (Boom, BoomBase, KeyboardInterrupt)


TIMERS = []          # every timer the library created (registry = observer)


def install_virtual_time():
    import oqupy.util as u

    class FastTimer(threading.Timer):
        """Same logic as threading.Timer with a scaled interval; records
        whether its callback is currently running."""

        def __init__(self, interval, function, args=None, kwargs=None):
            self.in_callback = False
            self.fired = False

            def wrapped(*a, **k):
                self.in_callback = True
                self.fired = True
                try:
                    return function(*a, **k)
                finally:
                    self.in_callback = False
            super().__init__(interval * SCALE, wrapped, args, kwargs)
            TIMERS.append(self)
    u.Timer = FastTimer
    return u


def armed_timers():
    """Timers that are started, not cancelled and have not fired yet."""
    return [t for t in TIMERS if t.is_alive() and not t.finished.is_set()
            and not t.in_callback]


def foreign_threads(before):
    return [t for t in threading.enumerate()
            if t is not threading.main_thread() and t.ident not in before
            and t.is_alive() and not t.name.startswith("vp-harness")]


def cancel_all_timers():
    for _ in range(200):
        ts = [t for t in threading.enumerate() if isinstance(t, threading.Timer)]
        if not ts:
            return True
        for t in ts:
            t.cancel()
        time.sleep(0.01)
    return False


# ------------------------------------------------------------ scenarios -----

def failing(fn, state):
    """Wrap fn: raise Boom at call number state['fail_at'] (1-based)."""
    def w(*a):
        state["n"] += 1
        if state["fail_at"] is not None and state["n"] == state["fail_at"]:
            state["raised"] = True
            raise injected(state)
        return fn(*a)
    return w


def build_call(sc):
    """Returns a zero-argument callable performing the library call."""
    import numpy as np
    import oqupy
    rng = np.random.default_rng(sc.get("seed", 0))
    api = sc["api"]
    prog = sc["progress"]          # 'silent' | 'simple' | 'bar' | None
    fault = sc.get("fault")        # None | {"kind":..., "at": k}
    state = {"n": 0, "fail_at": None, "raised": False}
    sc["_state"] = state
    nsteps, dt = 4, 0.1
    sx = np.array([[0, 1], [1, 0]], complex)
    sz = np.diag([1.0, -1.0]).astype(complex)
    rho0 = np.array([[0.6, 0.2 - 0.1j], [0.2 + 0.1j, 0.4]], complex)
    corr = oqupy.PowerLawSD(0.1, 1.0, 3.0, "gaussian", 0.5)
    bath = oqupy.Bath(0.5 * sz, corr)
    params = oqupy.TempoParameters(dt=dt, epsrel=1e-5, dkmax=3,
                                   subdiv_limit=None)
    end = (nsteps + 0.4) * dt
    kind = fault["kind"] if fault else None
    # (the failpoint is armed by the caller after construction, so that the
    # constructors' own probing calls of the callables are not counted)
    state["arm"] = fault["at"] if fault and kind in (
        "H", "gamma", "A", "eom", "target", "corr", "j") else None
    state["exc"] = (fault or {}).get("exc")

    def hfun(t):
        return 0.5 * sz + 0.3 * np.cos(2 * t) * sx
    hw = failing(hfun, state) if kind == "H" else hfun
    gfun = (lambda t: 0.1)
    gw = failing(gfun, state) if kind == "gamma" else gfun
    afun = (lambda t: sx)
    aw = failing(afun, state) if kind == "A" else afun

    def simple_pt(broken=None, at=None):
        pt = oqupy.pt_tempo_compute(bath, 0.0, end, params,
                                    progress_type="silent")
        if broken == "cap":
            pt._cap_tensors[at] = None
        elif broken == "shape":
            t = pt._mpo_tensors[at]
            pt._mpo_tensors[at] = np.concatenate([t, t], axis=0)
        return pt

    if api == "compute_dynamics":
        pt = simple_pt(kind if kind in ("cap", "shape") else None,
                       fault["at"] if fault else None)
        sysm = oqupy.TimeDependentSystem(hw, [gw], [aw])
        if kind == "zero":
            # a computation over zero steps (only the initial state)
            return lambda: oqupy.compute_dynamics(
                sysm, rho0, process_tensor=pt, num_steps=0,
                subdiv_limit=None, progress_type=prog)
        return lambda: oqupy.compute_dynamics(
            sysm, rho0, process_tensor=pt, subdiv_limit=None,
            progress_type=prog)
    if api == "compute_correlations":
        pt = simple_pt()
        sysm = oqupy.TimeDependentSystem(hw, [gw], [aw])
        return lambda: oqupy.compute_correlations(
            sysm, pt, sx, sz, slice(None), slice(None), initial_state=rho0,
            progress_type=prog)
    if api == "tempo":
        sysm = oqupy.TimeDependentSystem(hw, [gw], [aw])
        t = oqupy.Tempo(sysm, bath, params, rho0, 0.0)
        if kind == "zero":
            # the target was already reached: a call that has nothing to do
            t.compute(end, progress_type="silent")
            return lambda: t.compute(end, progress_type=prog)
        return lambda: t.compute(end, progress_type=prog)
    if api in ("meanfield", "compute_dynamics_with_field"):
        def hfa(t, a):
            return 0.5 * sz + (0.3 * np.cos(2 * t) + np.real(a)) * sx
        hfw = failing(hfa, state) if kind == "H" else hfa

        def eom(t, states, a):
            return -0.3 * a - 0.2j * np.trace(sx @ states[0]) + 0.1 * t
        ew = failing(eom, state) if kind == "eom" else eom
        mfs = oqupy.MeanFieldSystem(
            [oqupy.TimeDependentSystemWithField(hfw, [gw], [aw])], ew)
        if api == "meanfield":
            t = oqupy.MeanFieldTempo(mfs, [bath], params, [rho0], 0.2 + 0j,
                                     0.0)
            return lambda: t.compute(end, progress_type=prog)
        pt = simple_pt(kind if kind in ("cap", "shape") else None,
                       fault["at"] if fault else None)
        return lambda: oqupy.compute_dynamics_with_field(
            mfs, 0.2 + 0j, process_tensor_list=[pt], initial_state_list=[rho0],
            subdiv_limit=None, progress_type=prog)
    if api in ("state_gradient", "compute_gradient_and_dynamics"):
        pt = simple_pt(kind if kind in ("cap", "shape") else None,
                       fault["at"] if fault else None)

        def ph(a, b):
            return a * sx + b * sz
        phw = failing(ph, state) if kind == "H" else ph
        # ParameterizedSystem inspects the signature: keep two arguments
        if kind == "H":
            def phw2(a, b):
                return phw(a, b)
        else:
            phw2 = ph
        psys = oqupy.ParameterizedSystem(phw2)
        pars = rng.normal(size=(2 * len(pt), 2))
        tgt = np.array([[0.2, 0.1], [0.1, 0.8]], complex)
        if kind == "target":
            def tfun(rho):
                state["n"] += 1
                state["raised"] = True
                raise injected(state)
            target = tfun
        else:
            target = tgt
        if api == "state_gradient":
            return lambda: oqupy.state_gradient(
                psys, rho0, target, [pt], pars, progress_type=prog)
        return lambda: oqupy.compute_gradient_and_dynamics(
            psys, rho0, target, [pt], pars, progress_type=prog)
    if api == "pttempo":
        def cfun(t):
            return 0.09 * (1.5 * np.cos(1.3 * t) - 1j * np.sin(1.3 * t))
        cw = failing(cfun, state) if kind == "corr" else cfun
        b2 = oqupy.Bath(0.5 * sz, oqupy.CustomCorrelations(cw))
        p = oqupy.PtTempo(b2, 0.0, end, oqupy.TempoParameters(
            dt=dt, epsrel=1e-4, dkmax=3))
        return lambda: p.compute(progress_type=prog)
    if api == "gibbs":
        def jf(w):
            return 0.2 * w
        jw = failing(jf, state) if kind == "j" else jf
        sd = oqupy.CustomSD(jw, cutoff=3.0, cutoff_type="gaussian",
                            temperature=0.7)
        g = oqupy.GibbsTempo(oqupy.System(0.5 * sx), oqupy.Bath(0.5 * sz, sd),
                             oqupy.GibbsParameters(5, 1e-5))
        return lambda: g.compute(progress_type=prog)
    if api == "pttebd":
        pt = simple_pt(kind if kind in ("shape",) else None,
                       fault["at"] if fault else None)
        chain = oqupy.SystemChain([2, 2])
        chain.add_site_hamiltonian(0, 0.4 * sx)
        chain.add_nn_hamiltonian(0, 0.5 * sz, sz)
        tebd = oqupy.PtTebd(oqupy.AugmentedMPS([rho0, rho0]), chain,
                            [pt, None],
                            oqupy.PtTebdParameters(dt=dt, epsrel=1e-6),
                            dynamics_sites=[0, 1])
        if kind == "float_end":
            # an end step given as 2.0: accepted by int() but the progress
            # display formats it with {:d} - an input rejected midway
            return lambda: tebd.compute(float(nsteps), progress_type=prog)
        return lambda: tebd.compute(nsteps, progress_type=prog)
    if api in ("pttebd_multithread", "pttebd_multiprocess"):
        pt = simple_pt(kind if kind in ("shape",) else None,
                       fault["at"] if fault else None)
        nn = 4
        chain = oqupy.SystemChain([2] * nn)
        for s in range(nn):
            chain.add_site_hamiltonian(s, 0.4 * sx)
        for s in range(nn - 1):
            chain.add_nn_hamiltonian(s, 0.5 * sz, sz)
        tebd = oqupy.PtTebd(
            oqupy.AugmentedMPS([rho0] * nn), chain, [pt] + [None] * (nn - 1),
            oqupy.PtTebdParameters(dt=dt, epsrel=1e-6),
            dynamics_sites=[0, 1],
            backend_config={"parallel": api.split("_")[1]})
        return lambda: tebd.compute(nsteps, progress_type=prog)
    raise ValueError(api)


def run_fault_scenario(sc, out, before):
    res = {"id": sc["id"]}
    try:
        call = build_call(sc)
    except INJECTED:
        res["status"] = "fault-in-constructor"
        return res
    st = sc["_state"]
    st["n"] = 0
    st["fail_at"] = st.get("arm")
    if (sc.get("fault") or {}).get("kind") == "stdout":
        out.fail_at = int(sc["fault"]["at"])
    try:
        call()
        res["outcome"] = "returned"
    except INJECTED as exc:
        res["outcome"] = "raised-injected"
        res["exc_class"] = type(exc).__name__
    except Exception as exc:   # the library's own error for a broken input
        res["outcome"] = "raised:" + type(exc).__name__
    n_return = out.n
    out.fail_at = None            # the observer's stream works again
    res["fault_fired"] = bool(sc["_state"]["raised"]) or out.broken > 0 or \
        (sc.get("fault") or {}).get("kind") in ("cap", "shape", "float_end",
                                                "zero")
    res["user_calls"] = sc["_state"]["n"]
    observe_after(res, out, before, n_return)
    return res


def observe_after(res, out, before, n_return=None):
    """Census after the call ended. Deterministic part: callbacks that are in
    flight are allowed to finish (joined; a callback may still be waiting for
    the library's lock, after which it must see that the call is over and
    write nothing), after that no timer may be armed and no foreign thread
    alive; then nothing may be written any more. n_return: bytes written up
    to the moment the call came back."""
    if n_return is None:
        n_return = out.n
    for t in list(TIMERS):
        if t.in_callback:
            t.join(2.0)
    res["bytes_by_inflight_callback_after_return"] = out.n - n_return
    res["armed_timers_at_return"] = len(armed_timers())
    n_end = out.n
    res["threads_at_return"] = len(foreign_threads(before))
    time.sleep(GRACE)
    alive = foreign_threads(before)
    res["threads_after_grace"] = len(alive)
    res["armed_timers_after_grace"] = len(armed_timers())
    res["bytes_after_return"] = out.n - n_end
    res["thread_names"] = [type(t).__name__ for t in alive][:4]
    res["timers_created"] = len(TIMERS)
    # a second look: is the activity still going on (self re-arming)?
    n2 = out.n
    time.sleep(5 * SCALE)
    res["still_writing"] = out.n > n2
    del TIMERS[:]


# ------------------------------------------------------------ schedules -----

def run_schedule_scenario(sc, out, before, u):
    """Hold one thread at a source line of ProgressBar.update /
    _print_status / exit while the other side acts (context bound 1)."""
    mon = sys.monitoring
    tool = mon.DEBUGGER_ID
    res = {"id": sc["id"]}
    func = getattr(u.ProgressBar, sc["func"])
    code = func.__code__
    line = sc["line"]
    held_role = sc["held"]          # 'timer' or 'caller'
    action = sc["action"]           # 'exit' | 'update+exit'
    main = threading.main_thread()
    reached = threading.Event()

    class Gate(threading.Event):
        def set(self):
            DEADLOCK["released"] = True
            super().set()
    gate = Gate()
    DEADLOCK["released"] = False
    hits = {"n": 0}
    n_return = None

    def on_line(c, ln):
        if c is not code or ln != line:
            return
        cur = threading.current_thread()
        is_timer = cur is not main
        if (held_role == "timer") != is_timer:
            return
        if reached.is_set():
            return
        hits["n"] += 1
        reached.set()
        gate.wait(3.0)
        DEADLOCK["released"] = True

    mon.use_tool_id(tool, "vp-c19")
    mon.register_callback(tool, mon.events.LINE, on_line)
    mon.set_local_events(tool, code, mon.events.LINE)
    try:
        pb = u.ProgressBar(10, "t")
        pb.enter()
        if held_role == "timer":
            if sc["func"] != "_print_status" or sc.get("via_update", True):
                pb.update(0)          # arms Timer(update)
            ok = reached.wait(1.5)     # timer thread is now paused at `line`
            res["reached"] = ok
            if ok:
                # release the timer thread shortly after the caller started
                # its action (the caller may block on the library's own lock
                # until then - that is the lock doing its job)
                def releaser():
                    time.sleep(4 * SCALE)
                    gate.set()
                threading.Thread(target=releaser, daemon=True,
                                 name="vp-harness-releaser").start()
            if action == "update+exit":
                pb.update(3)
            if action == "update+callback+exit":
                # the caller updates while the callback is held (it may
                # block on the library's lock until the releaser fires),
                # then the callback runs to completion, then the caller
                # finishes
                pb.update(3)
                gate.set()
                time.sleep(3 * SCALE)
                for t in list(TIMERS):
                    if t.in_callback:
                        t.join(1.0)
            pb.exit()
            n_return = out.n
            gate.set()
        else:
            # caller is held inside its own update()/exit(); meanwhile timer
            # callbacks run (released after ~6 virtual seconds)
            def releaser():
                reached.wait(2.0)
                time.sleep(6 * SCALE)
                gate.set()
            threading.Thread(target=releaser, daemon=True,
                                 name="vp-harness-releaser").start()
            pb.update(0)
            time.sleep(1.5 * SCALE)
            if action == "update+exit":
                pb.update(3)
            pb.exit()
            n_return = out.n
            res["reached"] = reached.is_set()
            gate.set()
    finally:
        mon.set_local_events(tool, code, 0)
        mon.register_callback(tool, mon.events.LINE, None)
        mon.free_tool_id(tool)
    observe_after(res, out, before, n_return)
    return res


DEADLOCK = {"sc": None, "results": None, "path": None, "released": False}


def start_deadlock_monitor(u):
    """Structural observer for calls that never return: once the held thread
    has been released by the harness, the main thread (inside a ProgressBar
    method) and a library timer thread (inside a ProgressBar method) that
    both sit at unchanged bytecode offsets for 6 s (300 virtual seconds)
    wait for each other (e.g. exit() joining the timer thread while holding
    the lock the callback needs). The scenario is reported with both stacks
    and the worker ends - the caller can never come back."""
    codes = {getattr(u.ProgressBar, n).__code__
             for n in ("update", "_print_status", "exit", "enter")}
    main = threading.main_thread()

    def in_lib(frame):
        f, inside = frame, False
        while f is not None:
            if f.f_code in codes:
                inside = True
            f = f.f_back
        return inside

    def loop():
        last, same = None, 0
        while True:
            time.sleep(0.05)
            if DEADLOCK["sc"] is None or not DEADLOCK["released"]:
                last, same = None, 0
                continue
            frames = sys._current_frames()
            mf = frames.get(main.ident)
            if mf is None or not in_lib(mf):
                last, same = None, 0
                continue
            others = []
            for t in threading.enumerate():
                if t is main or t.name.startswith("vp-harness"):
                    continue
                f = frames.get(t.ident)
                if f is not None and in_lib(f):
                    others.append((t.ident, f.f_code.co_name, f.f_lasti))
            if not others:
                last, same = None, 0
                continue
            sig = (mf.f_code.co_name, mf.f_lasti, tuple(sorted(others)))
            if sig == last:
                same += 1
            else:
                last, same = sig, 0
            if same >= 120:
                stacks = {}
                for t in threading.enumerate():
                    f = frames.get(t.ident)
                    if f is not None:
                        stacks[t.name] = "".join(
                            traceback.format_stack(f)[-6:])[-900:]
                DEADLOCK["results"].append({
                    "id": DEADLOCK["sc"], "deadlock": True, "reached": True,
                    "stacks": stacks})
                json.dump(DEADLOCK["results"], open(DEADLOCK["path"], "w"))
                os._exit(4)
    threading.Thread(target=loop, daemon=True,
                     name="vp-harness-deadlock").start()


def lines_of(u):
    out = {}
    for name in ("update", "_print_status", "exit", "enter"):
        code = getattr(u.ProgressBar, name).__code__
        out[name] = sorted({ln for _, ln in dis.findlinestarts(code)
                            if ln is not None})
    return out


def main():
    scenarios = json.load(open(sys.argv[1]))
    results = []
    real_stdout = sys.stdout
    u = install_virtual_time()
    if scenarios and scenarios[0].get("kind") == "list-lines":
        json.dump(lines_of(u), open(sys.argv[2], "w"))
        return
    start_deadlock_monitor(u)
    before = {t.ident for t in threading.enumerate()}
    exit_check = False
    DEADLOCK["results"], DEADLOCK["path"] = results, sys.argv[2]
    for sc in scenarios:
        out = Out()
        sys.stdout = out
        # (fault scenarios hold no thread: the observer is armed at once)
        DEADLOCK["released"] = sc["kind"] == "fault"
        DEADLOCK["sc"] = sc["id"] if sc["kind"] in ("schedule", "fault") \
            else None
        try:
            if sc["kind"] == "fault":
                r = run_fault_scenario(sc, out, before)
            else:
                r = run_schedule_scenario(sc, out, before, u)
        except Exception:
            r = {"id": sc["id"], "harness_error": traceback.format_exc()[-1500:]}
        finally:
            sys.stdout = real_stdout
            DEADLOCK["sc"] = None
        results.append(r)
        json.dump(results, open(sys.argv[2], "w"))
        if sc.get("exit_check"):
            exit_check = True
            break
        if not cancel_all_timers() or foreign_threads(before):
            time.sleep(0.2)
            if foreign_threads(before):
                results.append({"id": "cleanup", "harness_error":
                                "could not clean up leaked threads"})
                json.dump(results, open(sys.argv[2], "w"))
                os._exit(3)
    if exit_check:
        # no cleanup: the interpreter itself must be able to exit
        sys.stdout = Out()
        return
    sys.stdout = real_stdout


if __name__ == "__main__":
    main()
