"""Shared pieces of the C17 crash-point harness: deterministic workloads (what
the writer process writes), the fault injector (where and how the writer
dies) and the digests by which reader results are compared.

Used by vp/mon/c17_writer.py, vp/mon/c17_reader.py (fresh interpreters) and
vp/checks/c17.py (worker process). Never imports anything at module import
time that needs the library, so that `cases()` can run in the main process.
"""
import hashlib
import json
import os
import signal
import sys
import time

import numpy as np

MODES = ["kill", "_exit", "term", "exc", "int", "exit"]
MODE_NAMES = {"kill": "SIGKILL", "_exit": "os._exit", "term": "SIGTERM",
              "exc": "unhandled exception", "int": "KeyboardInterrupt/SIGINT",
              "exit": "sys.exit", "none": "no fault"}
INJECTED_MSG = "c17-injected-fault"
DIRECT_LABELS = ("c17 direct file", "labelled while the file was open")


# --------------------------------------------------------------------------
# workloads
# --------------------------------------------------------------------------

def build_simple_pt(variant):
    """The in-memory process tensor of an 'export' workload (deterministic in
    the variant descriptor)."""
    import oqupy
    rng = np.random.default_rng([int(variant["seed"]), 1717,
                                 int(variant.get("salt", 0))])
    d = int(variant.get("d", 2))
    d2 = d * d
    n = int(variant["n"])
    b = int(variant["bond"])
    rank3 = bool(variant.get("rank3"))
    kw = {}
    if variant.get("transform"):
        tin = rng.normal(size=(d2, d2)) + 1j * rng.normal(size=(d2, d2)) \
            + 2 * np.eye(d2)
        tout = rng.normal(size=(d2, d2)) + 1j * rng.normal(size=(d2, d2)) \
            + 2 * np.eye(d2)
        kw.update(transform_in=tin, transform_out=tout)
    if variant.get("named"):
        kw.update(name=f"c17 pt {variant['seed']}",
                  description="written by the C17 writer\nsecond line")
    pt = oqupy.SimpleProcessTensor(d, dt=variant.get("dt"), **kw)
    for s in range(n):
        shape = (1 if s == 0 else b, 1 if s == n - 1 else b, d2) \
            + (() if rank3 else (d2,))
        t = (rng.normal(size=shape) + 1j * rng.normal(size=shape)) \
            / np.sqrt(2.0 * b * d)
        pt.set_mpo_tensor(s, t)
    pt.compute_caps()
    return pt


def pttempo_args(variant):
    """Arguments of the PT-TEMPO workload."""
    import oqupy
    from oqupy import operators as op
    coupling = {"z": 0.5 * op.sigma("z"), "x": 0.5 * op.sigma("x"),
                "zx": 0.4 * op.sigma("z") + 0.3 * op.sigma("x")}[
                    variant.get("coupling", "z")]
    corr = oqupy.PowerLawSD(alpha=float(variant.get("alpha", 0.2)),
                            zeta=1.0, cutoff=3.0, cutoff_type="gaussian",
                            temperature=float(variant.get("T", 0.7)))
    bath = oqupy.Bath(coupling, corr)
    dt = float(variant.get("dt", 0.1))
    par = oqupy.TempoParameters(dt=dt, epsrel=float(variant.get(
        "epsrel", 1e-8)), dkmax=variant.get("dkmax"))
    end = (int(variant["n"]) + 0.4) * dt
    return bath, 0.0, end, par


def run_pttempo(variant, filename, overwrite=False):
    """File-backed (filename given) or in-memory (None) PT-TEMPO run."""
    import oqupy
    bath, start, end, par = pttempo_args(variant)
    kw = dict(unique=bool(variant.get("unique")), progress_type="silent")
    if variant.get("named"):
        kw.update(name=f"c17 pt-tempo {variant['seed']}",
                  description="file backed")
    if filename is not None:
        kw.update(process_tensor_file=filename, overwrite=overwrite)
    if variant.get("api") == "class" :
        pk = {k: v for k, v in kw.items() if k != "progress_type"}
        ptt = oqupy.PtTempo(bath, start, end, par, **pk)
        return ptt.get_process_tensor(progress_type="silent")
    return oqupy.pt_tempo_compute(bath, start, end, par, **kw)


def run_workload(variant, filename):
    """What the writer process does. The file is closed at the end."""
    overwrite = bool(variant.get("preexisting"))
    if variant["workload"] == "export" and variant.get("direct"):
        # the file object is used directly (as tests/data/generate_pts.py of
        # the repository does): created, LABELLED while open, then filled
        import oqupy
        src = build_simple_pt(variant)
        fpt = oqupy.FileProcessTensor(
            mode="overwrite" if overwrite else "write", filename=filename,
            hilbert_space_dimension=src.hilbert_space_dimension, dt=src.dt)
        fpt.name, fpt.description = DIRECT_LABELS
        for k in range(len(src)):
            fpt.set_mpo_tensor(k, src.get_mpo_tensor(k, transformed=False))
        for k in range(len(src) + 1):
            fpt.set_cap_tensor(k, src.get_cap_tensor(k))
        fpt.close()
    elif variant["workload"] == "export":
        pt = build_simple_pt(variant)
        pt.export(filename, overwrite=overwrite)
    elif variant["workload"] == "pttempo":
        pt = run_pttempo(variant, filename, overwrite=overwrite)
        pt.close()
    else:
        raise ValueError(variant["workload"])


def make_preexisting(variant, filename):
    """An older, complete and *different* process tensor file at the target
    path (for workloads that overwrite)."""
    old = dict(variant, workload="export", n=int(variant["n"]) + 2,
               bond=int(variant.get("bond", 2)) + 1, salt=99, rank3=False,
               preexisting=False)
    old.setdefault("bond", 3)
    build_simple_pt(old).export(filename)


def expected_pt(variant):
    """In-memory object whose content a cleanly closed file must have."""
    if variant["workload"] == "export":
        pt = build_simple_pt(variant)
        if variant.get("direct"):
            pt.name, pt.description = DIRECT_LABELS
        return pt
    return run_pttempo(variant, None)


# --------------------------------------------------------------------------
# digests
# --------------------------------------------------------------------------

def arr_digest(a):
    """Exact (sha1 of bytes) and tolerant (a few projections) description."""
    if a is None:
        return None
    a = np.ascontiguousarray(np.asarray(a, dtype=complex))
    flat = a.reshape(-1)
    w = np.cos(0.37 * np.arange(flat.size) + 0.1)
    return {"shape": list(a.shape),
            "sha": hashlib.sha1(flat.tobytes()).hexdigest(),
            "l1": float(np.abs(flat).sum()),
            "s": [float(flat.sum().real), float(flat.sum().imag),
                  float((w * flat).sum().real), float((w * flat).sum().imag)]}


def _try(rec, what, fn):
    try:
        return True, fn()
    except BaseException as exc:  # pylint: disable=broad-except
        if isinstance(exc, (KeyboardInterrupt, SystemExit)):
            raise
        rec["failures"].append([what, type(exc).__name__, str(exc)[:160]])
        return False, None


def dynamics_system(d):
    """Fixed system / initial state used by every reader for the consumer."""
    import oqupy
    rng = np.random.default_rng([d, 4242])
    h = rng.normal(size=(d, d)) + 1j * rng.normal(size=(d, d))
    h = 0.5 * (h + h.conj().T)
    a = rng.normal(size=(d, d)) + 1j * rng.normal(size=(d, d))
    rho = a @ a.conj().T
    rho = rho / np.trace(rho).real
    return oqupy.System(h), rho


def digest_pt(pt):
    """Read EVERYTHING a consumer could read from a process tensor object
    and run the consumer. Every access is attempted on its own; failures are
    recorded, not raised."""
    import oqupy
    rec = {"failures": [], "n_access": 0}

    def acc(what, fn):
        rec["n_access"] += 1
        return _try(rec, what, fn)

    ok, n = acc("len", lambda: int(len(pt)))
    rec["len"] = n if ok else None
    n = n if ok and n is not None else 0
    ok, d = acc("hs_dim", lambda: int(pt.hilbert_space_dimension))
    rec["hs_dim"] = d if ok else None
    ok, dt = acc("dt", lambda: None if pt.dt is None else float(pt.dt))
    rec["dt"] = dt if ok else "?"
    ok, v = acc("name", lambda: str(pt.name))
    rec["name"] = v
    ok, v = acc("description", lambda: str(pt.description))
    rec["description"] = v
    ok, v = acc("transform_in", lambda: arr_digest(pt.transform_in))
    rec["transform_in"] = v
    ok, v = acc("transform_out", lambda: arr_digest(pt.transform_out))
    rec["transform_out"] = v
    ok, v = acc("initial", lambda: arr_digest(pt.get_initial_tensor()))
    rec["initial"] = v
    rec["mpo_raw"], rec["mpo"], rec["caps"] = [], [], []
    for k in range(n):
        ok, v = acc(f"mpo_raw[{k}]", lambda k=k: arr_digest(
            pt.get_mpo_tensor(k, transformed=False)))
        rec["mpo_raw"].append(v if ok else "!")
        ok, v = acc(f"mpo[{k}]", lambda k=k: arr_digest(pt.get_mpo_tensor(k)))
        rec["mpo"].append(v if ok else "!")
    # one past the end must not yield a tensor
    for k in range(n + 3):
        ok, v = acc(f"cap[{k}]", lambda k=k: arr_digest(pt.get_cap_tensor(k)))
        rec["caps"].append(v if ok else "!")
    rec["ncaps"] = sum(1 for c in rec["caps"] if isinstance(c, dict))
    ok, v = acc("bond_dims", lambda: [int(x) for x in
                                      pt.get_bond_dimensions()])
    rec["bond_dims"] = v if ok else "!"
    # the consumer
    rec["dyn"] = None
    rec["dyn_exc"] = None
    rec["n_access"] += 1
    try:
        dd = rec["hs_dim"] or 2
        system, rho0 = dynamics_system(dd)
        kw = dict(process_tensor=pt, progress_type="silent")
        if rec["dt"] in (None, "?"):
            kw["dt"] = 0.1
        dyn = oqupy.compute_dynamics(system, rho0, **kw)
        st = np.array(dyn.states)
        rec["dyn"] = {"times": [float(t) for t in dyn.times],
                      "re": st.real.tolist(), "im": st.imag.tolist()}
    except BaseException as exc:  # pylint: disable=broad-except
        if isinstance(exc, (KeyboardInterrupt, SystemExit)):
            raise
        rec["dyn_exc"] = [type(exc).__name__, str(exc)[:160]]
    return rec


def _close(a, b, rtol):
    if a is None or b is None:
        return a is None and b is None
    if not isinstance(a, dict) or not isinstance(b, dict):
        return False
    if a["shape"] != b["shape"]:
        return False
    scale = max(a["l1"], b["l1"], 1e-300)
    if abs(a["l1"] - b["l1"]) > rtol * scale:
        return False
    return all(abs(x - y) <= rtol * scale for x, y in zip(a["s"], b["s"]))


def _same(a, b):
    if isinstance(a, dict) and isinstance(b, dict):
        return a["shape"] == b["shape"] and a["sha"] == b["sha"]
    return a is None and b is None


def dyn_dev(a, b):
    """max deviation of two recorded dynamics (inf when lengths differ)."""
    if a is None or b is None:
        return float("inf")
    if len(a["times"]) != len(b["times"]):
        return float("inf")
    sa = np.array(a["re"]) + 1j * np.array(a["im"])
    sb = np.array(b["re"]) + 1j * np.array(b["im"])
    dev = float(np.abs(sa - sb).max()) if sa.size else 0.0
    tdev = float(np.abs(np.array(a["times"]) - np.array(b["times"])).max()) \
        if sa.size else 0.0
    return max(dev, tdev)


def _same_shape(a, b):
    if isinstance(a, dict) and isinstance(b, dict):
        return a["shape"] == b["shape"]
    return a is None and b is None


def compare(rec, ref, how, rtol=1e-9, dyn_tol=1e-10):
    """List of differences between a digest and the reference digest.
    how='exact': stored arrays must be bit-identical (same deterministic
    writer, same data); 'close': compared through projections (file vs
    in-memory object, where only transformed tensors are comparable);
    'gauge': the tensors come from two separate PT-TEMPO runs, whose MPO is
    only defined up to a gauge on the bonds (probed: two runs in one process
    differ by O(1) in individual tensors at degenerate singular values while
    the contraction agrees to 1e-15) - number, presence and shape of every
    tensor are compared, the values through the full contraction
    (compute_dynamics uses every MPO tensor and every cap)."""
    assert how in ("exact", "close", "gauge")
    diffs = []
    for key in ("len", "hs_dim", "dt", "name", "description", "ncaps",
                "bond_dims"):
        if rec.get(key) != ref.get(key):
            diffs.append(f"{key}: {rec.get(key)!r} != {ref.get(key)!r}")
    for key in ("transform_in", "transform_out", "initial"):
        same = _same(rec.get(key), ref.get(key)) if how == "exact" else \
            _close(rec.get(key), ref.get(key), rtol)
        if not same:
            diffs.append(f"{key} differs")
    lists = ("mpo_raw", "mpo", "caps") if how == "exact" else ("mpo", "caps")
    for key in lists:
        a, b = rec.get(key) or [], ref.get(key) or []
        if len(a) != len(b):
            diffs.append(f"{key}: {len(a)} entries != {len(b)}")
        for k, (x, y) in enumerate(zip(a, b)):
            if how == "gauge":
                same = _same_shape(x, y)
            elif how == "close" or key == "mpo":
                same = _close(x, y, rtol if how == "close" else 1e-12)
            else:
                same = _same(x, y)
            if not same:
                kind = "missing" if not isinstance(x, dict) else "differs"
                diffs.append(f"{key}[{k}] {kind}")
    dev = dyn_dev(rec.get("dyn"), ref.get("dyn"))
    if not dev <= dyn_tol:
        diffs.append(f"dynamics differ ({dev:.3g})"
                     if rec.get("dyn") is not None else "no dynamics")
    return diffs


# --------------------------------------------------------------------------
# fault injection (writer side)
# --------------------------------------------------------------------------

def die(mode):
    """Kill the current process in the requested way."""
    if mode == "kill":
        os.kill(os.getpid(), signal.SIGKILL)
        time.sleep(30)
    elif mode == "_exit":
        os._exit(3)                       # pylint: disable=protected-access
    elif mode == "term":
        os.kill(os.getpid(), signal.SIGTERM)
        time.sleep(30)
    elif mode == "exc":
        raise RuntimeError(INJECTED_MSG)
    elif mode == "int":
        os.kill(os.getpid(), signal.SIGINT)
        time.sleep(10)                    # interrupted by the handler
        raise KeyboardInterrupt(INJECTED_MSG)
    elif mode == "exit":
        sys.exit(5)
    else:
        raise ValueError(mode)


def died_as_intended(mode, returncode, stderr):
    """Did the writer's exit status match the injected death?"""
    if mode == "kill":
        return returncode == -signal.SIGKILL
    if mode == "_exit":
        return returncode == 3
    if mode == "term":
        return returncode == -signal.SIGTERM
    if mode == "exc":
        return returncode == 1 and INJECTED_MSG in stderr
    if mode == "int":
        return returncode in (-signal.SIGINT, 130, 1) \
            and "KeyboardInterrupt" in stderr
    if mode == "exit":
        return returncode == 5
    return False


LINE_TARGETS = [
    ("oqupy.process_tensor", "FileProcessTensor.__init__"),
    ("oqupy.process_tensor", "FileProcessTensor._create_file"),
    ("oqupy.process_tensor", "FileProcessTensor.set_initial_tensor"),
    ("oqupy.process_tensor", "FileProcessTensor.set_mpo_tensor"),
    ("oqupy.process_tensor", "FileProcessTensor.set_cap_tensor"),
    ("oqupy.process_tensor", "FileProcessTensor.compute_caps"),
    ("oqupy.process_tensor", "FileProcessTensor.close"),
    ("oqupy.process_tensor", "_set_data_and_shape"),
    ("oqupy.process_tensor", "SimpleProcessTensor.export"),
    ("oqupy.backends.pt_tempo_backend", "PtTempoBackend.update_process_tensor"),
    ("oqupy.pt_tempo", "PtTempo._init_file_process_tensor"),
]
TOOL_ID = 4


class Injector:
    """Counts the file-operation events (level 'ops') or the executed source
    lines of the writing functions (level 'lines') and kills the process at
    event number k in the requested way. k < 0: dry run (only records)."""

    def __init__(self, level, k, mode, status_path):
        self.level = level
        self.k = int(k)
        self.mode = mode
        self.status_path = status_path
        self.events = []
        self.fired = False

    def event(self, name):
        idx = len(self.events)
        self.events.append(name)
        if idx == self.k and not self.fired:
            self.fired = True
            with open(self.status_path, "w") as f:
                json.dump({"k": idx, "event": name, "mode": self.mode}, f)
                f.flush()
                os.fsync(f.fileno())
            die(self.mode)

    # -- ops level ---------------------------------------------------------
    def install_ops(self):
        import h5py
        import oqupy.process_tensor as ptm
        inj = self

        class CountingFile(h5py.File):
            """h5py.File that reports creation and the start of its close."""

            def __init__(self, name, mode="r", *args, **kwargs):
                super().__init__(name, mode, *args, **kwargs)
                self._c17_writer = mode != "r"
                if self._c17_writer:
                    inj.event("created")

            def close(self):
                if getattr(self, "_c17_writer", False) and self:
                    inj.event("h5close-entry")
                super().close()

        class H5Proxy:
            """Stands in for the module global `h5py` of process_tensor.py
            (only that module sees it; h5py itself is not modified)."""
            File = CountingFile

            def __getattr__(self, item):
                return getattr(h5py, item)

        ptm.h5py = H5Proxy()
        orig_set = ptm._set_data_and_shape

        def counting_set(step, data, shape, tensor):
            try:
                dsname = str(data.name).strip("/").replace("_data", "")
            except Exception:  # pylint: disable=broad-except
                dsname = "?"
            inj.event(f"set:{dsname}:{step}")
            return orig_set(step, data, shape, tensor)

        ptm._set_data_and_shape = counting_set
        orig_close = ptm.FileProcessTensor.close

        def counting_close(obj):
            if getattr(obj, "_write", False):
                inj.event("close-entry")
            return orig_close(obj)

        ptm.FileProcessTensor.close = counting_close

    # -- line level --------------------------------------------------------
    def install_lines(self):
        import importlib
        mon = sys.monitoring
        mon.use_tool_id(TOOL_ID, "c17")
        labels = {}
        for modname, qual in LINE_TARGETS:
            obj = importlib.import_module(modname)
            for part in qual.split("."):
                obj = getattr(obj, part)
            code = obj.__code__
            labels[code] = qual.split(".")[-1]
            mon.set_local_events(TOOL_ID, code, mon.events.LINE)
        inj = self

        def on_line(code, lineno):
            inj.event(f"{labels.get(code, code.co_name)}:{lineno}")

        mon.register_callback(TOOL_ID, mon.events.LINE, on_line)

    def install(self):
        if self.level == "ops":
            self.install_ops()
        elif self.level == "lines":
            self.install_lines()
        else:
            raise ValueError(self.level)


def point_class(event):
    """Coverage class of a crash point."""
    if event.startswith("set:"):
        ds = event.split(":")[1]
        return {"initial_tensor": "after-creation(initial tensor)",
                "mpo_tensors": "mpo-tensor", "cap_tensors": "cap-tensor"}.get(
                    ds, "set-other")
    if event in ("created", "close-entry", "h5close-entry",
                 "after-workload"):
        return {"created": "file-created", "close-entry": "before-close",
                "h5close-entry": "inside-close",
                "after-workload": "after-close"}[event]
    return "line:" + event.split(":")[0]
