"""Evidence for the C12 known-finding classifiers.

When C12 observes a deviation of a CustomSD quantity it recomputes that
quantity here in three ways, always with the *library object's own*
spectral_density() (J including the cutoff) and scipy.quad at the same
epsrel / subdivision limit / split at the cutoff as the library:

* replica        - the integrand exactly as the pinned library writes it
                   (formula copied, operation for operation) and the
                   infinite-range rule for the tail.  It must reproduce the
                   library value to rounding; if it does not, the deviation
                   has another cause and NO tag is given.
* stable         - mathematically the same integrand written without the
                   cancellation at small w (sin^2 / series forms), same quad.
* finite tail    - the library integrand, but [cutoff, inf) integrated on
                   finite pieces [wc,2wc,4wc,...] instead of b = inf.

A deviation is attributed to
  "subohmic-thermal-cancellation"  iff replica == library and stable == ref,
  "inf-tail-quad-glitch"           iff replica == library and finite == ref
(plus the parameter predicates checked by the caller).  Nothing here is used
as an oracle: the oracle stays the independent reference of vp.ref.
"""
import math
import warnings

import numpy as np
from scipy import integrate

from vp.ref import bath as rb
from vp.ref import bath2 as rb2

EPS = np.finfo(float).eps


def _cquad(f, a, b, epsrel, limit):
    with warnings.catch_warnings():
        warnings.simplefilter("ignore")
        re = integrate.quad(lambda x: np.real(f(x)), a=a, b=b, epsrel=epsrel,
                            limit=limit)[0]
        im = integrate.quad(lambda x: np.imag(f(x)), a=a, b=b, epsrel=epsrel,
                            limit=limit)[0]
    return re + 1j * im


def _tail_finite(f, p, epsrel, limit):
    tot = 0j
    for a, b in rb2.tail_pieces(p):
        tot += _cquad(f, a, b, min(epsrel, 1e-10), max(limit, 1000))
    return tot


class Twin:
    """Recomputations for one library object (J from obj.spectral_density)."""

    def __init__(self, obj, p, epsrel, limit=256):
        self.obj = obj
        self.p = p
        self.temp = float(obj.temperature)
        self.wc = float(obj.cutoff)
        self.hard = obj.cutoff_type == "hard"
        self.epsrel = epsrel
        self.limit = limit
        self.memo = {}

    # -- integrands ----------------------------------------------------------
    def _eta_replica_integrand(self, tau):
        sd = self.obj.spectral_density
        temp = self.temp
        if temp == 0.0:
            def integrand(w):
                return sd(w) / w ** 2 * (
                    (np.exp(-1j * w * tau) - 1) + 1j * w * tau)
            return integrand

        def integrand(w):
            if np.exp(-w / temp) > np.finfo(float).eps:
                inte = sd(w) / w ** 2 \
                    * (((np.exp(-1j*tau * w)
                         + np.exp(-(w / temp - 1j*tau * w)))
                        - np.exp(- w / temp) - 1)
                       / (1 - np.exp(-w / temp)) + 1j*tau * w)
            else:
                inte = sd(w) / w ** 2 \
                    * (np.exp(-1j * w * tau)
                       + np.exp(-(w / temp - 1j*tau * w))
                       - 1 + 1j * w * tau)
            return inte
        return integrand

    def _eta_stable_integrand(self, tau, matsubara):
        """Same function of w, no cancellation (sign: the library returns
        minus the integral)."""
        sd = self.obj.spectral_density
        temp = self.temp
        if matsubara:
            beta = 1.0 / temp

            def integrand(w):
                oma = -math.expm1(-w * tau)
                omb = -math.expm1(-w * (beta - tau))
                omab = -math.expm1(-w * beta)
                return -(float(sd(w)) / w) * ((oma * omb / omab - w * tau) / w)
            return integrand

        def integrand(w):
            j = float(sd(w))
            re = j * rb.coth_half(w, temp) * 0.5 * tau * tau \
                * rb2._sinc(0.5 * w * tau) ** 2
            im = j * w * tau ** 3 * rb2._g3(w * tau)
            return -(re + 1j * im)
        return integrand

    def _corr_replica_integrand(self, tau):
        sd = self.obj.spectral_density
        temp = self.temp
        if temp == 0.0:
            def integrand(w):
                return sd(w) * np.exp(-1j * w * tau)
            return integrand

        def integrand(w):
            if np.exp(-w / temp) > np.finfo(float).eps:
                inte = sd(w) \
                    * (np.exp(-1j * tau * w)
                       + np.exp(-(1 / temp * w - 1j * tau * w))) \
                    / (1 - np.exp(-w / temp))
            else:
                inte = sd(w) \
                    * (np.exp(-1j * w * tau)
                       + np.exp(-(1 / temp * w - 1j * tau * w)))
            return inte
        return integrand

    def _corr_stable_integrand(self, tau):
        """The library's correlation integrand with 1 - exp(-w/T) written as
        -expm1(-w/T) (no cancellation for w << T); otherwise identical."""
        sd = self.obj.spectral_density
        temp = self.temp

        def integrand(w):
            if np.exp(-w / temp) > np.finfo(float).eps:
                inte = sd(w) \
                    * (np.exp(-1j * tau * w)
                       + np.exp(-(1 / temp * w - 1j * tau * w))) \
                    / (-np.expm1(-w / temp))
            else:
                inte = sd(w) \
                    * (np.exp(-1j * w * tau)
                       + np.exp(-(1 / temp * w - 1j * tau * w)))
            return inte
        return integrand

    # -- values ----------------------------------------------------------------
    def _integrate(self, f, tail):
        val = _cquad(f, 0.0, self.wc, self.epsrel, self.limit)
        if not self.hard:
            if tail == "inf":
                val += _cquad(f, self.wc, np.inf, self.epsrel, self.limit)
            else:
                val += _tail_finite(f, self.p, self.epsrel, self.limit)
        return val

    def eta(self, t, kind, matsubara=False):
        """kind: 'replica' (library integrand, inf tail), 'stable' (stable
        integrand, inf tail), 'finite' (library integrand, finite tail),
        'stable-finite'."""
        key = ("eta", float(t), kind, matsubara)
        if key in self.memo:
            return self.memo[key]
        tau = -1j * t if matsubara else t
        if kind in ("replica", "finite"):
            f = self._eta_replica_integrand(tau)
        else:
            f = self._eta_stable_integrand(t, matsubara)
        val = self._integrate(f, "inf" if kind in ("replica", "stable")
                              else "finite")
        if matsubara:
            val = val.real
        self.memo[key] = -val
        return -val

    def correlation(self, tau, kind):
        key = ("corr", float(tau), kind)
        if key in self.memo:
            return self.memo[key]
        if kind == "stable":
            f = self._corr_stable_integrand(tau)
        else:
            f = self._corr_replica_integrand(tau)
        val = self._integrate(f, "finite" if kind == "finite" else "inf")
        self.memo[key] = val
        return val

    def combo(self, terms, kind, matsubara=False):
        """sum_i c_i eta(t_i) with exactly the library's float arguments."""
        tot = 0j
        for c, t in terms:
            tot += c * self.eta(t, kind, matsubara)
        return tot.real if matsubara else tot
