"""Runtime contracts attached to the real library functions from the harness
(icontract; never by editing the repository). Conditions *record* what they
observe (evaluation counters, violations) and return True, so that one broken
postcondition does not abort the workload that is being observed."""
import numpy as np

import icontract


class ContractViolation(Exception):
    pass


class Recorder:
    def __init__(self):
        self.evals = {}
        self.violations = []
        self.worst = {}
        self.disarmed = 0
        self.disarm_depth = 0

    def reset(self):
        self.__init__()

    def count(self, name, n=1):
        self.evals[name] = self.evals.get(name, 0) + n

    def violate(self, name, what, detail=None):
        if len(self.violations) < 50:
            self.violations.append({"what": what, "mechanism": name,
                                    "detail": detail or {}})

    def note(self, name, ratio):
        self.worst[name] = max(self.worst.get(name, 0.0), float(ratio))


REC = Recorder()


# ---------------------------------------------------------------- C05 -------

def _bath_invariant(self):
    """U^dag U = 1, real eigenvalues, U D U^dag = O for every Bath."""
    try:
        u = self._unitary
        dmat = self._coupling_operator
    except AttributeError:
        return True      # not constructed yet
    REC.count("bath_invariant")
    d = u.shape[0]
    dev_u = float(np.abs(u.conj().T @ u - np.eye(d)).max())
    dev_im = float(np.abs(np.imag(np.diag(dmat))).max())
    offd = float(np.abs(dmat - np.diag(np.diag(dmat))).max())
    REC.note("bath_unitarity", dev_u / 1e-10)
    if dev_u > 1e-10:
        REC.violate("bath-transform-not-unitary",
                    f"Bath.unitary_transform deviates from unitarity by "
                    f"{dev_u:.2e}", {"dev": dev_u})
    # (Bath regards operators that are diagonal up to numpy.allclose's
    # tolerance as diagonal; off-diagonal residues below that are not judged)
    # (thresholds relative to the magnitude of the operator, which may be
    # given in any unit)
    mag = max(1.0, float(np.abs(dmat).max()))
    if dev_im > 1e-10 * mag or offd > 1e-7 * mag:
        REC.violate("bath-eigenvalues",
                    f"diagonalised coupling operator not real diagonal "
                    f"(imag {dev_im:.2e}, offdiag {offd:.2e})")
    return True


def install_bath_contract():
    import oqupy
    if getattr(oqupy.Bath, "_vp_contract", False):
        return
    icontract.invariant(_bath_invariant, error=ContractViolation)(oqupy.Bath)
    oqupy.Bath._vp_contract = True
    import oqupy.bath
    oqupy.bath.Bath = oqupy.Bath


# ---------------------------------------------------------------- C04 -------

def physical_defects(rho):
    """(trace defect, hermiticity defect, negativity) of a matrix."""
    rho = np.asarray(rho)
    tr = abs(np.trace(rho) - 1.0)
    herm = float(np.abs(rho - rho.conj().T).max())
    w = np.linalg.eigvalsh((rho + rho.conj().T) / 2)
    return float(tr), herm, float(max(0.0, -w.min()))


class PhysicalityMonitor:
    """Postcondition monitor: every state in a returned dynamics object is
    Hermitian with unit trace (bound c*epsrel) and, if `positive`, positive
    semidefinite. The tolerance context (epsrel, positivity claimed or not) is
    set by the workload that knows what it requested."""

    def __init__(self):
        self.epsrel = 1e-6
        self.positive = True
        self.c = 100.0
        self.floor = 1e-12
        self.armed = True

    def check_states(self, where, states, times=None):
        if not self.armed:
            REC.disarmed += 1
            return True
        bound = self.c * self.epsrel + self.floor
        for k, rho in enumerate(states):
            tr, herm, neg = physical_defects(rho)
            REC.count("physical:" + where)
            REC.note("trace", tr / bound)
            REC.note("hermiticity", herm / bound)
            if not tr <= bound:
                REC.violate("trace", f"{where}: |Tr rho - 1| = {tr:.3e} > "
                            f"{bound:.1e} at index {k}", {"index": k})
            if not herm <= bound:
                REC.violate("hermiticity", f"{where}: non-Hermitian by "
                            f"{herm:.3e} > {bound:.1e} at index {k}",
                            {"index": k})
            if self.positive:
                REC.note("positivity", neg / bound)
                if not neg <= bound:
                    REC.violate("positivity", f"{where}: eigenvalue "
                                f"{-neg:.3e} < -{bound:.1e} at index {k}",
                                {"index": k})
        return True


PHYS = PhysicalityMonitor()


def _post_dynamics(where):
    def cond(result):
        PHYS.check_states(where, list(result.states))
        return True
    cond.__name__ = "states_are_physical_" + where.replace(".", "_")
    return cond


def _post_mf_dynamics(where):
    def cond(result):
        for dyn in result.system_dynamics:
            PHYS.check_states(where, list(dyn.states))
        return True
    cond.__name__ = "mf_states_are_physical_" + where.replace(".", "_")
    return cond


def _post_state(where):
    def cond(result):
        PHYS.check_states(where, [result])
        return True
    cond.__name__ = "state_is_physical_" + where.replace(".", "_")
    return cond


def _post_pt_tebd(result):
    if not PHYS.armed:
        REC.disarmed += 1
        return True
    bound = PHYS.c * PHYS.epsrel + PHYS.floor
    for k, nrm in enumerate(result.get("norm", [])):
        REC.count("physical:PtTebd.norm")
        REC.note("norm", abs(nrm - 1.0) / bound)
        if not abs(nrm - 1.0) <= bound:
            REC.violate("norm", f"PtTebd norm {nrm!r} deviates from 1 at "
                        f"index {k}", {"index": k})
    for site, dyn in result.get("dynamics", {}).items():
        PHYS.check_states("PtTebd.compute", list(dyn.states))
    return True


def install_physicality_contracts():
    """Attach the postconditions to the real entry points (in place)."""
    import oqupy
    import oqupy.system_dynamics as sd
    import oqupy.tempo as tp
    if getattr(oqupy, "_vp_phys", False):
        return
    oqupy._vp_phys = True
    E = icontract.ensure

    def wrap_method(cls, name, cond):
        setattr(cls, name, E(cond, error=ContractViolation)(getattr(cls, name)))

    wrap_method(oqupy.Tempo, "compute", _post_dynamics("Tempo.compute"))
    wrap_method(oqupy.MeanFieldTempo, "compute",
                _post_mf_dynamics("MeanFieldTempo.compute"))
    wrap_method(oqupy.GibbsTempo, "get_state",
                _post_state("GibbsTempo.get_state"))
    wrap_method(oqupy.PtTebd, "compute", _post_pt_tebd)
    f = E(_post_dynamics("compute_dynamics"),
          error=ContractViolation)(sd.compute_dynamics)
    sd.compute_dynamics = f
    oqupy.compute_dynamics = f
    f = E(_post_mf_dynamics("compute_dynamics_with_field"),
          error=ContractViolation)(sd.compute_dynamics_with_field)
    sd.compute_dynamics_with_field = f
    oqupy.compute_dynamics_with_field = f
    f = E(_post_state("gibbs_tempo_compute"),
          error=ContractViolation)(tp.gibbs_tempo_compute)
    tp.gibbs_tempo_compute = f
    oqupy.gibbs_tempo_compute = f


class disarmed:
    """Context in which the physicality contract does not judge (inside
    correlation computations the intermediate "states" are A.rho; a caller
    supplied non-trace-preserving control)."""

    def __enter__(self):
        self.prev = PHYS.armed
        PHYS.armed = False

    def __exit__(self, *a):
        PHYS.armed = self.prev
