"""C17 writer process (always a fresh interpreter).

    python c17_writer.py <spec.json>

spec: {"variant": {...}, "file": path, "level": "ops"|"lines", "k": int,
       "mode": one of c17_common.MODES or "none", "status": path,
       "events": path or null}

Runs the workload (SimpleProcessTensor.export or a file-backed PT-TEMPO run)
and dies at event number k in the requested way. With k < 0 nothing is
injected (dry run / clean run) and the list of events is written to
spec["events"].
"""
import json
import os
import signal
import sys


def main():
    with open(sys.argv[1]) as f:
        spec = json.load(f)
    # default dispositions, whatever the parent had (a SIGINT ignored by a
    # background shell would otherwise be inherited)
    signal.signal(signal.SIGINT, signal.default_int_handler)
    signal.signal(signal.SIGTERM, signal.SIG_DFL)
    import oqupy  # noqa: F401  pylint: disable=unused-import
    repo = os.environ.get("VP_REPO")
    if repo:
        assert os.path.realpath(oqupy.__file__).startswith(
            os.path.realpath(repo)), (oqupy.__file__, repo)
    from vp.mon import c17_common as cc
    if spec["variant"].get("foreign_version"):
        # the file is written by another release of the library
        import oqupy.process_tensor as _ptmod
        _ptmod.__version__ = "0.4.0"
    inj = cc.Injector(spec["level"], spec["k"], spec["mode"], spec["status"])
    inj.install()
    cc.run_workload(spec["variant"], spec["file"])
    inj.event("after-workload")
    if spec.get("events"):
        with open(spec["events"], "w") as f:
            json.dump(inj.events, f)
    print("completed", len(inj.events))


if __name__ == "__main__":
    main()
