"""C17 reader process (fresh interpreter).

    python c17_reader.py <spec.json>

spec: {"files": [path, ...], "out": path}

For every file and for both import types ('file', 'simple') the reader opens
the file with warnings recorded, reads every MPO and cap tensor, every
attribute, and runs compute_dynamics on the object. One JSON line per
(file, import type) is appended to spec["out"] and flushed, so that a reader
that dies leaves the results obtained so far.
"""
import json
import os
import sys
import warnings


def corrupt_warning(msg):
    low = msg.lower()
    return "corrupt" in low or "during writing" in low


def read_one(path, typ):
    import oqupy
    from vp.mon import c17_common as cc
    out = {"file": path, "type": typ, "opened": False, "open_exc": None,
           "warnings": [], "corrupt_warned": False, "digest": None}
    pt = None
    with warnings.catch_warnings(record=True) as wlist:
        warnings.simplefilter("always")
        try:
            pt = oqupy.import_process_tensor(path, typ)
            out["opened"] = True
        except Exception as exc:  # pylint: disable=broad-except
            out["open_exc"] = [type(exc).__name__, str(exc)[:200]]
        out["warnings"] = [[w.category.__name__, str(w.message)[:200]]
                           for w in wlist]
    out["corrupt_warned"] = any(corrupt_warning(m)
                                for _, m in out["warnings"])
    if pt is not None:
        with warnings.catch_warnings(record=True) as wlist:
            warnings.simplefilter("always")
            out["digest"] = cc.digest_pt(pt)
            out["use_warnings"] = [[w.category.__name__, str(w.message)[:200]]
                                   for w in wlist]
        try:
            if hasattr(pt, "close"):
                pt.close()
        except Exception as exc:  # pylint: disable=broad-except
            out["close_exc"] = [type(exc).__name__, str(exc)[:200]]
    return out


def main():
    with open(sys.argv[1]) as f:
        spec = json.load(f)
    import oqupy
    repo = os.environ.get("VP_REPO")
    if repo:
        assert os.path.realpath(oqupy.__file__).startswith(
            os.path.realpath(repo)), (oqupy.__file__, repo)
    with open(spec["out"], "a") as out:
        for path in spec["files"]:
            for typ in ("file", "simple"):
                res = read_one(path, typ)
                out.write(json.dumps(res) + "\n")
                out.flush()
    print("done")


if __name__ == "__main__":
    main()
