"""Fresh-interpreter worker for the PT-TEBD execution-mode and schedule
monitors (C10). It deliberately imports nothing but oqupy (and numpy) before
the computation, so that an import the back-end forgot shows up.

usage: python c10_worker.py <spec.json> <out.npz>
spec: {"seed":..., "n":..., "steps":..., "mode": null|"multithread"|"multiprocess",
       "perm": [..] or null, "log": path}
"""
import json
import os
import sys


def build(spec):
    import numpy as np
    import oqupy
    rng = np.random.default_rng(spec["seed"])
    n = spec["n"]

    def herm(d, s):
        a = rng.normal(size=(d, d)) + 1j * rng.normal(size=(d, d))
        return s * (a + a.conj().T) / 2
    chain = oqupy.SystemChain([2] * n)
    for s in range(n):
        chain.add_site_hamiltonian(s, herm(2, 0.6))
        chain.add_site_dissipation(s, np.array([[0, 0], [1, 0]], complex), 0.1)
    for s in range(n - 1):
        chain.add_nn_hamiltonian(s, herm(2, 0.7), herm(2, 0.7))
    rhos = []
    for s in range(n):
        a = rng.normal(size=(2, 2)) + 1j * rng.normal(size=(2, 2))
        r = a @ a.conj().T
        rhos.append(r / np.trace(r))
    return chain, rhos


def main():
    spec = json.load(open(sys.argv[1]))
    out = sys.argv[2]
    preloaded = "concurrent.futures" in sys.modules
    import numpy as np
    import oqupy
    chain, rhos = build(spec)
    n = spec["n"]
    cfg = {} if spec["mode"] is None else {"parallel": spec["mode"]}
    if spec.get("perm") is not None:
        install_turnstile(spec, n)
    tebd = oqupy.PtTebd(
        oqupy.AugmentedMPS(rhos), chain, [None] * n,
        oqupy.PtTebdParameters(dt=0.1, epsrel=1e-10, order=spec.get("order", 2)),
        dynamics_sites=list(range(n)), backend_config=cfg)
    res = tebd.compute(spec["steps"], progress_type="silent")
    states = np.array([res["dynamics"][s].states for s in range(n)])
    np.savez(out, states=states, norm=np.array(res["norm"]),
             preloaded=np.array(preloaded))


def install_turnstile(spec, n):
    """Force the completion order of the gates of a layer.

    threads: a condition variable lets gate k finish only after the gates
    ranked before it in `perm`; processes: staggered sleeps. Every completion
    is appended to an O_APPEND log (the observed order)."""
    import threading
    import time
    import oqupy.backends.pt_tebd_backend as be
    orig = be.apply_nn_gate
    perm = spec["perm"]
    logpath = spec["log"]
    mode = spec["mode"]
    state = {"cv": threading.Condition(), "finished": 0}

    def layer_sites(site):
        return list(range(site % 2, n - 1, 2))

    def rank(site):
        sites = layer_sites(site)
        g = len(sites)
        pr = [p for p in perm if p < g]
        order = [sites[i] for i in pr]
        return order.index(site), g

    def log(site):
        fd = os.open(logpath, os.O_WRONLY | os.O_APPEND | os.O_CREAT)
        os.write(fd, f"{site}\n".encode())
        os.close(fd)

    def wrapped(input_data):
        result = orig(input_data)
        site = input_data[0]
        my, g = rank(site)
        if mode == "multithread":
            with state["cv"]:
                state["cv"].wait_for(
                    lambda: state["finished"] % g == my, timeout=10)
                log(site)
                state["finished"] += 1
                state["cv"].notify_all()
        else:
            time.sleep(0.15 * my)
            log(site)
        return result
    wrapped.__module__ = orig.__module__
    wrapped.__qualname__ = orig.__qualname__
    wrapped.__name__ = orig.__name__
    be.apply_nn_gate = wrapped


if __name__ == "__main__":
    main()
