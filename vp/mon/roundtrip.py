"""`roundtrip_identity` contract (DESIGN 2.4, property C16).

Attached from the harness to the real `SimpleProcessTensor.export` and
`import_process_tensor` (icontract postconditions, the repository is not
edited): at every export the content of the exported object is snapshotted in
a registry keyed by the real path of the file (together with the file's
size / mtime_ns so that a file that was rewritten by somebody else is not
judged); at every import of a registered file the returned object is compared
with the snapshot. Conditions record (vp.mon.contracts.REC) and return True,
so that the observed workload is not aborted.
"""
import os

import numpy as np

import icontract

from vp.mon.contracts import REC, ContractViolation

REGISTRY = {}
TOL = 1e-13


def _raw_mpo(pt, k):
    """Stored (untransformed, rank preserved) MPO tensor k."""
    if hasattr(pt, "_mpo_tensors"):
        return pt._mpo_tensors[k]
    return pt.get_mpo_tensor(k, transformed=False)


def snapshot(pt):
    n = len(pt)
    caps = []
    k = 0
    while k <= n + 1:
        c = pt.get_cap_tensor(k)
        caps.append(None if c is None else np.array(c))
        k += 1
    ini = pt.get_initial_tensor()
    return {
        "len": n, "dt": pt.dt, "hs": pt.hilbert_space_dimension,
        "tin": None if pt.transform_in is None else np.array(pt.transform_in),
        "tout": None if pt.transform_out is None
        else np.array(pt.transform_out),
        "name": pt.name, "description": pt.description,
        "initial": None if ini is None else np.array(ini),
        "raw": [np.array(_raw_mpo(pt, k)) for k in range(n)],
        "caps": caps}


def _same(a, b):
    if a is None or b is None:
        return a is None and b is None
    a, b = np.asarray(a), np.asarray(b)
    return a.shape == b.shape and bool(np.array_equal(a, b))


def differences(ref, got):
    """Names of the fields in which two snapshots differ."""
    out = []
    for key in ("len", "hs", "name", "description"):
        if ref[key] != got[key] or type(ref[key]) is not type(got[key]) \
                and key in ("name", "description"):
            out.append(key)
    if (ref["dt"] is None) != (got["dt"] is None) or \
            (ref["dt"] is not None and float(ref["dt"]) != float(got["dt"])):
        out.append("dt")
    for key in ("tin", "tout", "initial"):
        if not _same(ref[key], got[key]):
            out.append(key)
    if len(ref["raw"]) != len(got["raw"]) or any(
            not _same(a, b) for a, b in zip(ref["raw"], got["raw"])):
        out.append("mpo")
    if len(ref["caps"]) != len(got["caps"]) or any(
            not _same(a, b) for a, b in zip(ref["caps"], got["caps"])):
        out.append("caps")
    return out


def _key(filename):
    return os.path.realpath(str(filename))


def _stamp(filename):
    st = os.stat(filename)
    return (st.st_size, st.st_mtime_ns)


def _after_export(self, filename):
    try:
        REGISTRY[_key(filename)] = (_stamp(filename), snapshot(self))
        REC.count("roundtrip:export")
    except OSError:
        pass
    return True


def _after_import(filename, result):
    entry = REGISTRY.get(_key(filename))
    if entry is None:
        return True
    stamp, ref = entry
    try:
        if _stamp(filename) != stamp:
            REC.count("roundtrip:stale")
            return True
    except OSError:
        return True
    REC.count("roundtrip:import")
    diff = differences(ref, snapshot(result))
    if diff:
        REC.violate("roundtrip-contract",
                    f"import_process_tensor({os.path.basename(str(filename))})"
                    f" returned a {type(result).__name__} that differs from "
                    f"the exported object in {diff}", {"fields": diff})
    return True


def install():
    import oqupy
    import oqupy.process_tensor as ptm
    if getattr(ptm, "_vp_roundtrip", False):
        return
    ptm._vp_roundtrip = True
    E = icontract.ensure
    ptm.SimpleProcessTensor.export = E(
        lambda self, filename: _after_export(self, filename),
        error=ContractViolation)(ptm.SimpleProcessTensor.export)
    f = E(lambda filename, result: _after_import(filename, result),
          error=ContractViolation)(ptm.import_process_tensor)
    ptm.import_process_tensor = f
    oqupy.import_process_tensor = f
