"""Reference models R2 (independent boson closed form with memory
bookkeeping), R3 (explicit finite-mode joint evolution), R5 (Heun), R6 (dense
chain), R7 (Gibbs closed forms). Written from definitions; no oqupy code."""
import numpy as np
from scipy.linalg import expm

from vp.gen import lindblad_super


# -- R2 -----------------------------------------------------------------------

def memory_sums(eta_f, dt, nsteps, kmax, tau):
    """S_n, n=0..N: accumulated influence coefficients with the documented
    meaning of dkmax (=kmax) and add_correlation_time (=tau).

    step m (1-based) couples to dk = 0..min(m-1, K); dk=0 is the triangle,
    dk>=1 squares; for m > K with add_correlation_time tau the last one (dk=K)
    is replaced by the rectangle [K dt, K dt + min((m-K) dt, dt+tau)] x [0,dt].
    """
    cache = {}

    def eta(t):
        t = abs(t)
        key = round(t / dt * 1e9)
        if key not in cache:
            cache[key] = eta_f(t)
        return cache[key]

    tri = eta(dt)

    def sq(dk):
        return eta((dk + 1) * dt) - 2 * eta(dk * dt) + eta((dk - 1) * dt)

    def rect(t1, t2):
        return eta(t2) - eta(t1) - eta(t2 - dt) + eta(t1 - dt)

    sums = [0j]
    re_abs_total = 0.0
    for m in range(1, nsteps + 1):
        tot = 0j
        top = m - 1 if kmax is None else min(m - 1, kmax)
        for dk in range(top + 1):
            if dk == 0:
                term = tri
            elif kmax is not None and dk == kmax and m > kmax \
                    and tau is not None:
                ext = min((m - kmax) * dt, dt + tau)
                term = rect(kmax * dt, kmax * dt + ext)
            else:
                term = sq(dk)
            tot += term
            if m == nsteps:
                re_abs_total += abs(term.real)
        sums.append(sums[-1] + tot)
    return sums, re_abs_total


def independent_boson_states(rho0_eig, energies, o_vals, sums, dt):
    """rho_ij(t_n) = rho_ij(0) e^{-i(E_i-E_j) t_n}
                      exp(-D_ij (D_ij Re S_n + i P_ij Im S_n)),
    D = o_i - o_j, P = o_i + o_j, in the common eigenbasis."""
    e = np.asarray(energies, float)
    o = np.asarray(o_vals, float)
    dm = np.subtract.outer(o, o)
    pl = np.add.outer(o, o)
    de = np.subtract.outer(e, e)
    out = []
    for n, s in enumerate(sums):
        out.append(rho0_eig * np.exp(-1j * de * n * dt)
                   * np.exp(-dm * (s.real * dm + 1j * s.imag * pl)))
    return np.array(out)


# -- R3 -----------------------------------------------------------------------

def finite_mode_dynamics(h, gammas, lops, coupling, modes, rho0, dt, nsteps,
                         nmax):
    """System (x) truncated oscillators, symmetric splitting
    e^{L_S dt/2} . e^{-i(H_B + O X) dt}(.)e^{+i...} . e^{L_S dt/2}.
    modes: list of (omega, g, T)."""
    d = h.shape[0]
    dims = [nmax] * len(modes)
    nb = int(np.prod(dims))

    def embed(opm, i):
        mats = [np.eye(n) for n in dims]
        mats[i] = opm
        out = mats[0]
        for m in mats[1:]:
            out = np.kron(out, m)
        return out

    hb = np.zeros((nb, nb), complex)
    xop = np.zeros((nb, nb), complex)
    rbs = []
    for i, (w, g, temp) in enumerate(modes):
        a = np.diag(np.sqrt(np.arange(1, nmax)), 1)
        hb += embed(w * a.T @ a, i)
        xop += embed(g * (a + a.T), i)
        if temp > 0:
            p = np.exp(-w * np.arange(nmax) / temp)
        else:
            p = np.eye(nmax)[0]
        rbs.append(np.diag(p / p.sum()))
    rhob = rbs[0]
    for m in rbs[1:]:
        rhob = np.kron(rhob, m)
    wmat = expm(-1j * (np.kron(np.eye(d), hb) + np.kron(coupling, xop)) * dt)
    half = expm(lindblad_super(h, gammas, lops) * dt / 2).reshape(d, d, d, d)

    def apply_sys(r):
        return np.einsum('ijkl,kblc->ibjc', half,
                         r.reshape(d, nb, d, nb)).reshape(d * nb, d * nb)

    r = np.kron(rho0, rhob)
    out = []
    for k in range(nsteps + 1):
        out.append(np.einsum('ibjb->ij', r.reshape(d, nb, d, nb)))
        if k == nsteps:
            break
        r = apply_sys(r)
        r = wmat @ r @ wmat.conj().T
        r = apply_sys(r)
    return np.array(out)


# -- R5 -----------------------------------------------------------------------

def heun_step(f, t, dt, states, next_states, a):
    k1 = f(t, states, a)
    k2 = f(t + dt, next_states, a + dt * k1)
    return a + dt * (k1 + k2) / 2


# -- R6 -----------------------------------------------------------------------

def embed_site(op, site, dims):
    mats = [np.eye(d, dtype=complex) for d in dims]
    mats[site] = op
    out = mats[0]
    for m in mats[1:]:
        out = np.kron(out, m)
    return out


def chain_liouvillian(dims, site_h, nn_terms, site_diss=()):
    """Full Liouvillian of a chain: site_h[i] Hermitian matrices (or None),
    nn_terms list of (site, A, B) meaning A_site (x) B_site+1,
    site_diss list of (site, gamma, L)."""
    dtot = int(np.prod(dims))
    h = np.zeros((dtot, dtot), complex)
    for i, hi in enumerate(site_h):
        if hi is not None:
            h += embed_site(hi, i, dims)
    for (i, a, b) in nn_terms:
        h += embed_site(a, i, dims) @ embed_site(b, i + 1, dims)
    gam, ops = [], []
    for (i, g, l) in site_diss:
        gam.append(g)
        ops.append(embed_site(l, i, dims))
    return lindblad_super(h, gam, ops)


def partial_trace(rho, dims, keep):
    """Reduced density matrix of the sites in `keep` (ascending)."""
    n = len(dims)
    t = rho.reshape(list(dims) + list(dims))
    keep = list(keep)
    drop = [i for i in range(n) if i not in keep]
    # trace out dropped sites one at a time (highest first keeps axes valid)
    cur_dims = list(dims)
    cur_n = n
    for i in sorted(drop, reverse=True):
        t = np.trace(t, axis1=i, axis2=cur_n + i)
        cur_n -= 1
    dk = int(np.prod([dims[i] for i in keep])) if keep else 1
    return t.reshape(dk, dk)


# -- R7 -----------------------------------------------------------------------

def gibbs_commuting(energies, o_vals, reorg, temp):
    """p_i ~ exp(-(E_i - lambda o_i^2)/T)."""
    e = np.asarray(energies, float) - reorg * np.asarray(o_vals, float) ** 2
    w = np.exp(-(e - e.min()) / temp)
    return np.diag(w / w.sum()).astype(complex)


def gibbs_canonical(h, temp):
    w, v = np.linalg.eigh(h)
    p = np.exp(-(w - w.min()) / temp)
    p /= p.sum()
    return (v * p) @ v.conj().T
