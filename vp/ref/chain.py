"""R6: dense model of a chain of sites, each optionally attached to an exact
ancilla environment (vp.ref.ancilla.Env). The state is the full density matrix
of  S_1 (x) ... (x) S_n (x) E_a (x) E_b ...  (E's only for sites that have an
environment); chain propagators act on all sites jointly (exact exponential of
the full Liouvillian - no Trotter splitting), controls on single sites, the
environments' Kraus maps on (site, its ancilla).

Exact oracle for PT-TEBD whenever the library's own Trotter splitting is exact:
uncoupled chains, two-site chains, chains whose gates commute.
"""
import numpy as np
from scipy.linalg import expm

from vp import gen
from vp.ref import models

_LET = "abcdefghijklmnopqrstuvwxyzABCDEFGHIJKLMNOPQRSTUVW"


class ChainJoint:
    def __init__(self, site_dims, envs, rhos):
        """envs: list (len n) of ancilla Env or None."""
        self.site_dims = list(site_dims)
        self.n = len(site_dims)
        self.envs = envs
        self.env_sites = [j for j, e in enumerate(envs) if e is not None]
        self.dims = self.site_dims + [envs[j].e for j in self.env_sites]
        r = np.array([[1.0 + 0j]])
        for rho in rhos:
            r = np.kron(r, np.asarray(rho, complex))
        for j in self.env_sites:
            r = np.kron(r, envs[j].rho_e)
        self.dtot = int(np.prod(self.dims))
        self.r = r

    def _t(self):
        return self.r.reshape(self.dims + self.dims)

    def _labels(self):
        m = len(self.dims)
        return list(_LET[:2 * m]), m

    def apply_site_super(self, site, sup):
        """sup: d^2 x d^2 superoperator (row-major vec) on one site."""
        if sup is None:
            return
        d = self.site_dims[site]
        lab, m = self._labels()
        out = list(lab)
        out[site], out[m + site] = "Y", "Z"
        expr = "YZ" + lab[site] + lab[m + site] + "," + "".join(lab) + "->" \
            + "".join(out)
        s4 = np.asarray(sup).reshape(d, d, d, d)
        self.r = np.einsum(expr, s4, self._t()).reshape(self.dtot, self.dtot)

    def apply_chain_super(self, sup):
        """sup: D^2 x D^2 superoperator on all sites jointly."""
        dd = int(np.prod(self.site_dims))
        rest = self.dtot // dd
        s4 = np.asarray(sup).reshape(dd, dd, dd, dd)
        x = self.r.reshape(dd, rest, dd, rest)
        self.r = np.einsum('ijkl,kblc->ibjc', s4, x).reshape(self.dtot,
                                                            self.dtot)

    def apply_env(self, site):
        env = self.envs[site]
        if env is None:
            return
        pos = self.n + self.env_sites.index(site)
        d, e = self.site_dims[site], env.e
        lab, m = self._labels()
        r0 = self.r
        new = np.zeros_like(r0)
        for k in env.kraus:
            k4 = k.reshape(d, e, d, e)
            t = r0.reshape(self.dims + self.dims)
            out = list(lab)
            out[site], out[pos] = "Y", "Z"
            t = np.einsum("YZ" + lab[site] + lab[pos] + "," + "".join(lab)
                          + "->" + "".join(out), k4, t)
            out2 = list(lab)
            out2[m + site], out2[m + pos] = "Y", "Z"
            t = np.einsum("YZ" + lab[m + site] + lab[m + pos] + ","
                          + "".join(lab) + "->" + "".join(out2), k4.conj(), t)
            new = new + t.reshape(self.dtot, self.dtot)
        self.r = new

    def reduced(self, sites):
        """Reduced density matrix of the listed sites (ascending order)."""
        return models.partial_trace(self.r, self.dims, list(sites))

    def trace(self):
        return np.trace(self.r)


def chain_dynamics(site_dims, envs, rhos, nsteps, chain_liou, dt, record,
                   pre=None, post=None):
    """States of the recorded site subsets at steps 0..N.
    Per step (as PT-TEBD): post controls(k) -> exp(L dt/2) -> environments ->
    exp(L dt/2) -> pre controls(k+1) -> record.
    pre/post: dict step -> list of (site, superoperator) in order of action."""
    jt = ChainJoint(site_dims, envs, rhos)
    half = expm(chain_liou * dt / 2)
    pre = pre or {}
    post = post or {}
    out = {s: [] for s in record}
    norms = []
    for site, sup in pre.get(0, []):
        jt.apply_site_super(site, sup)

    def rec():
        norms.append(jt.trace())
        for s in record:
            key = [s] if isinstance(s, int) else list(s)
            out[s].append(jt.reduced(key))
    rec()
    for k in range(nsteps):
        for site, sup in post.get(k, []):
            jt.apply_site_super(site, sup)
        jt.apply_chain_super(half)
        for j in range(len(site_dims)):
            jt.apply_env(j)
        jt.apply_chain_super(half)
        for site, sup in pre.get(k + 1, []):
            jt.apply_site_super(site, sup)
        rec()
    return {s: np.array(v) for s, v in out.items()}, np.array(norms)
