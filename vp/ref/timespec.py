"""R8: what a time specification denotes (independent of the library's
parser): Python semantics of int / slice / list on range(N+1); a float is the
nearest step relative to start_time; a pair of floats is the inclusive range of
steps between the two nearest steps, in either direction."""
import itertools

import numpy as np


def interpret(spec, nmax, dt, start):
    """Returns list of step indices, or raises LookupError if the spec is
    out of range."""
    grid = list(range(nmax + 1))
    if isinstance(spec, bool):
        raise TypeError
    if isinstance(spec, int):
        if spec < 0 or spec > nmax:
            raise LookupError
        return [spec]
    if isinstance(spec, slice):
        return grid[spec]
    if isinstance(spec, list):
        out = []
        for s in spec:
            if s < -(nmax + 1) or s > nmax:
                raise LookupError
            out.append(grid[s])
        return out
    if isinstance(spec, float):
        k = round_half(spec, dt, start)
        if k < 0 or k > nmax:
            raise LookupError
        return [k]
    if isinstance(spec, tuple):
        a = round_half(spec[0], dt, start)
        b = round_half(spec[1], dt, start)
        if min(a, b) < 0 or max(a, b) > nmax:
            raise LookupError
        return list(range(a, b + 1)) if a <= b else list(range(a, b - 1, -1))
    raise TypeError


def round_half(t, dt, start):
    from fractions import Fraction
    q = (Fraction(t) - Fraction(start)) / Fraction(dt)
    k = round(q)          # exact rational rounding (ties are never generated)
    return int(k)


def all_specs(nmax, dt, start, rng=None):
    """The specification space over a grid of nmax steps."""
    specs = []
    for k in range(nmax + 1):
        specs.append(("int", k))
    vals = [None] + list(range(-nmax - 1, nmax + 2))
    for a in vals:
        for b in vals:
            for c in (None, 1, -1, 2, -2):
                specs.append(("slice", slice(a, b, c)))
    idx = list(range(nmax + 1))
    for r in (1, 2, 3):
        for sub in itertools.permutations(idx, r):
            specs.append(("list", list(sub)))
    # lists with negative entries (Python / numpy indexing on the grid)
    for sub in ([-1], [-1, 0], [0, -2], [-nmax - 1, nmax], [-1, 1, -nmax],
                [2 % (nmax + 1), -1, 0], [-2, -1], [-1, -2, 0]):
        specs.append(("list", list(sub)))
    for k in range(nmax + 1):
        for off in (-0.3, 0.0, 0.3):
            specs.append(("float", float(start + (k + off) * dt)))
    for a in range(nmax + 1):
        for b in range(nmax + 1):
            for oa, ob in ((0.0, 0.0), (0.27, -0.31), (-0.2, 0.4)):
                specs.append(("interval", (float(start + (a + oa) * dt),
                                           float(start + (b + ob) * dt))))
    return specs
