"""R1: bath integrals written from the textbook definitions (no oqupy code).

J(w) = 2 alpha w^zeta wc^(1-zeta) X(w/wc)
C(t) = int J [coth(w/2T) cos wt - i sin wt] dw
eta(t) = int J/w^2 [coth(w/2T)(1-cos wt) + i (sin wt - wt)] dw
        = int_0^t dt' int_0^t' dt'' C(t'-t'')
"""
import math

import numpy as np
from scipy import integrate, special

QUAD = dict(limit=800, epsabs=1e-14, epsrel=1e-12)


def cutoff_fn(ctype, wc):
    if ctype == "hard":
        return lambda w: 1.0 if w < wc else 0.0
    if ctype == "exponential":
        return lambda w: math.exp(-w / wc)
    if ctype == "gaussian":
        return lambda w: math.exp(-(w / wc) ** 2)
    raise ValueError(ctype)


def spectral_density(p):
    a, z, wc = p["alpha"], p["zeta"], p["cutoff"]
    x = cutoff_fn(p["cutoff_type"], wc)
    jf = p.get("j")
    if jf is not None:
        return lambda w: jf(w) * x(w)
    return lambda w: 2.0 * a * w ** z * wc ** (1.0 - z) * x(w)


def coth_half(w, temp):
    """coth(w/2T) with T=0 -> 1, overflow safe."""
    if temp == 0.0:
        return 1.0
    x = w / temp
    if x > 700.0:
        return 1.0
    return 1.0 + 2.0 / math.expm1(x)


class RefUnreliable(Exception):
    """The reference quadrature failed its own self-test."""


def _quad_checked(f, a, b, scale_hint=0.0):
    import warnings
    with warnings.catch_warnings():
        warnings.simplefilter("ignore")
        val, err = integrate.quad(f, a, b, **QUAD)
    return val, err


def _integrate(f, p, self_test=True):
    """int_0^inf f(w) dw for integrands that behave like w^(zeta-1) or
    smoother at 0: on [0, wc] substitute w = wc x^m with m = ceil(2/zeta)+1 so
    that the integrand is smooth in x; self-test with m+1 (two different
    quadrature grids must agree) and with quad's own error estimates."""
    wc = p["cutoff"]
    zeta = min(p["zeta"], 1.0)
    m1 = int(math.ceil(2.0 / zeta)) + 1

    def head(m):
        def g(x):
            if x == 0.0:
                return 0.0
            w = wc * x ** m
            return f(w) * wc * m * x ** (m - 1)
        return _quad_checked(g, 0.0, 1.0)

    val, err = head(m1)
    total_err = err
    if self_test:
        val2, err2 = head(m1 + 1)
        total_err = max(total_err, abs(val - val2))
    if p["cutoff_type"] != "hard":
        # finite dyadic pieces up to where the cutoff function is < 1e-27
        # (no infinite-range rule: it is unreliable on oscillating
        # integrands); each piece resolves its own oscillations
        top = 64.0 if p["cutoff_type"] == "exponential" else 8.0
        a = wc
        while a < top * wc:
            b = min(2.0 * a, top * wc)
            v, e = _quad_checked(f, a, b)
            val += v
            total_err += e
            a = b
    if not total_err <= 1e-9 * abs(val) + 1e-13:
        raise RefUnreliable(
            f"reference quadrature error estimate {total_err:.2e} for value "
            f"{val:.3e}")
    return val


def eta(p, t):
    """Independent eta(t) (complex)."""
    if t == 0.0:
        return 0j
    jw = spectral_density(p)
    temp = p["temperature"]

    def fre(w):
        if w == 0.0:
            return 0.0
        # 1 - cos x = 2 sin^2(x/2): no cancellation at small w (matters
        # because of the integrable singularity w^(zeta-1) for zeta < 1)
        return jw(w) / w ** 2 * coth_half(w, temp) \
            * 2.0 * math.sin(0.5 * w * t) ** 2

    def fim(w):
        if w == 0.0:
            return 0.0
        x = w * t
        if abs(x) < 1e-2:
            smx = -x ** 3 / 6.0 + x ** 5 / 120.0 - x ** 7 / 5040.0
        else:
            smx = math.sin(x) - x
        return jw(w) / w ** 2 * smx

    return _integrate(fre, p) + 1j * _integrate(fim, p)


def correlation(p, tau):
    jw = spectral_density(p)
    temp = p["temperature"]

    def fre(w):
        if w == 0.0:
            return 0.0
        return jw(w) * coth_half(w, temp) * math.cos(w * tau)

    def fim(w):
        return -jw(w) * math.sin(w * tau)

    return _integrate(fre, p) + 1j * _integrate(fim, p)


def correlation_closed_T0_exp(p, tau):
    """Power law + exponential cutoff at T=0:
    C = 2 alpha wc^(1-zeta) Gamma(zeta+1) (wc/(1+i wc tau))^(zeta+1)."""
    a, z, wc = p["alpha"], p["zeta"], p["cutoff"]
    return 2 * a * wc ** (1 - z) * special.gamma(z + 1) \
        * (wc / (1 + 1j * wc * tau)) ** (z + 1)


def eta_closed_T0_exp(p, t):
    """Double time integral of the closed form above (zeta != 1, 2... handled
    generically through the antiderivatives):
    C(tau) = K (1+i wc tau)^-(z+1), K = 2 alpha wc^2 Gamma(z+1)
    int_0^t' C = K/( -i wc z) [ (1+i wc t')^-z - 1 ]
    eta(t) = K/(-i wc z) [ ((1+i wc t)^(1-z) - 1)/(i wc (1-z)) - t ]  (z != 1)
    """
    a, z, wc = p["alpha"], p["zeta"], p["cutoff"]
    k = 2 * a * wc ** 2 * special.gamma(z + 1)
    u = 1 + 1j * wc * t
    if abs(z - 1.0) < 1e-12:
        inner = np.log(u) / (1j * wc) - t
    else:
        inner = (u ** (1 - z) - 1) / (1j * wc * (1 - z)) - t
    return k / (-1j * wc * z) * inner


def cell(eta_f, shape, dt, t1, t2=None):
    """Cell integrals expressed through eta (used by R2)."""
    if shape == "upper-triangle":
        return eta_f(t1 + dt) - eta_f(t1)
    if shape == "square":
        return eta_f(t1 + dt) - 2 * eta_f(t1) + eta_f(abs(t1 - dt))
    if shape == "rectangle":
        return eta_f(t2) - eta_f(t1) - eta_f(abs(t2 - dt)) + eta_f(abs(t1 - dt))
    raise ValueError(shape)


def cell_by_weight(corr_f, shape, dt, t1, t2=None, pts=None):
    """Cell integrals from their definition as 2-D integrals of C(t'-t''),
    reduced to a 1-D integral  int w(s) C(s) ds  with the overlap weight
    w(s) = measure{(t',t'') in cell : t'-t'' = s}.

    square    : t' in [t1,t1+dt], t'' in [0,dt]      -> triangle weight on [t1-dt, t1+dt]
    triangle  : t' in [t1,t1+dt], t'' in [0,t'-t1]   -> s in [t1, t1+dt], w = t1+dt-s
    rectangle : t' in [t1,t2],    t'' in [0,dt]      -> trapezoid weight on [t1-dt, t2]
    corr_f must accept s>=0; for s<0 we use C(-s)^*.
    """
    def c(s):
        return corr_f(s) if s >= 0 else np.conj(corr_f(-s))

    if shape == "upper-triangle":
        lo, hi = t1, t1 + dt

        def w(s):
            return t1 + dt - s
        brk = []
    else:
        if shape == "square":
            t2 = t1 + dt
        lo, hi = t1 - dt, t2
        length = t2 - t1

        def w(s):
            # overlap length of [t1,t2] with [s, s+dt]
            return max(0.0, min(t2, s + dt) - max(t1, s))
        brk = sorted({t1, t2 - dt} & set([x for x in (t1, t2 - dt) if lo < x < hi]))
        if lo < 0 < hi:
            brk = sorted(set(brk) | {0.0})
    kw = dict(limit=400, epsabs=1e-13, epsrel=1e-11)
    if brk:
        kw["points"] = brk
    re = integrate.quad(lambda s: w(s) * np.real(c(s)), lo, hi, **kw)[0]
    im = integrate.quad(lambda s: w(s) * np.imag(c(s)), lo, hi, **kw)[0]
    return re + 1j * im


def reorganisation_energy(p):
    """lambda = int J(w)/w dw."""
    jw = spectral_density(p)
    return _integrate(lambda w: 0.0 if w == 0 else jw(w) / w, p)


def finite_mode_correlation(freqs, gs, temps):
    """C(t) = sum g^2 [coth(w/2T) cos wt - i sin wt]."""
    def c(t):
        tot = 0j
        for w, g, temp in zip(freqs, gs, temps):
            tot += g * g * (coth_half(w, temp) * math.cos(w * t)
                            - 1j * math.sin(w * t))
        return tot
    return c


def finite_mode_eta(freqs, gs, temps):
    def e(t):
        tot = 0j
        for w, g, temp in zip(freqs, gs, temps):
            tot += g * g / w ** 2 * (coth_half(w, temp) * (1 - math.cos(w * t))
                                     + 1j * (math.sin(w * t) - w * t))
        return tot
    return e
