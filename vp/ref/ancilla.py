"""R4: exact finite ancilla environments.

An environment is a finite system E (dimension e) with initial state rho_E and
a joint map on S(x)E per time step given by Kraus operators (one unitary, a
CPTP set, or a non-normalised set). From it we build

  * the process tensor MPO tensors  T[B_in, B_out, S_in, S_out]
    (B = (b,b') compound index of E in Liouville space, S = (s,s') of S,
    row-major), the first one contracted with vec(rho_E), caps = vec(1_E);
  * independently, the dense joint evolution on the density *matrix* of
    S (x) E_1 (x) E_2 ... with explicit Kraus sums, system superoperators being
    applied through their (d,d,d,d) reshape.

The second is the oracle for whatever the library computes from the first.
"""
import itertools

import numpy as np
from scipy.linalg import expm

from vp import gen


class Env:
    def __init__(self, d, e, kraus, rho_e):
        self.d, self.e = d, e
        self.kraus = [np.asarray(k, complex) for k in kraus]  # on S(x)E
        self.rho_e = np.asarray(rho_e, complex)

    # ---- process tensor side -------------------------------------------
    def mpo_tensor(self, kraus=None):
        d, e = self.d, self.e
        m = sum(np.kron(k, k.conj()) for k in (kraus or self.kraus))
        m = m.reshape(d, e, d, e, d, e, d, e)   # out(s,b,s',b') in(s,b,s',b')
        t = np.transpose(m, (5, 7, 1, 3, 4, 6, 0, 2))
        return t.reshape(e * e, e * e, d * d, d * d)

    def kraus_at(self, step):
        """Kraus set acting in time step `step` (step_kraus overrides)."""
        return getattr(self, "step_kraus", {}).get(step, self.kraus)

    def tensors(self, nsteps):
        ts = [self.mpo_tensor(self.kraus_at(k)) for k in range(nsteps)]
        first = np.einsum('a,abcd->bcd', self.rho_e.reshape(-1), ts[0])[None]
        return [first] + ts[1:]

    def caps(self, nsteps):
        tr = np.eye(self.e).reshape(-1).astype(complex)
        return [np.array([1.0 + 0j])] + [tr] * nsteps


def random_env(rng, d, e, kind="unitary", strength=0.7):
    """kind: unitary | channel | nontp | dephasing (controlled unitary,
    diagonal in the system basis -> rank-3 representable)."""
    n = d * e
    if kind == "unitary":
        h = gen.rand_herm(rng, n)
        ks = [expm(-1j * strength * h)]
    elif kind == "channel":
        ks = gen.rand_channel_kraus(rng, n, 2)
    elif kind == "nontp":
        ks = [0.8 * k for k in gen.rand_channel_kraus(rng, n, 2)]
        ks[0] = ks[0] @ np.diag(rng.uniform(0.7, 1.0, size=n))
    elif kind == "dephasing":
        k = np.zeros((n, n), complex)
        for s in range(d):
            v = expm(-1j * strength * gen.rand_herm(rng, e))
            k[s * e:(s + 1) * e, s * e:(s + 1) * e] = v
        ks = [k]
    else:
        raise ValueError(kind)
    rho_e = gen.rand_state(rng, e, "mixed")
    return Env(d, e, ks, rho_e)


def rotated_dephasing_env(rng, d, e, strength=0.7):
    """A dephasing-type environment written in a rotated system basis: the
    situation PT-TEMPO produces for non-diagonal coupling operators. Returns
    (env in the lab basis for the dense oracle, diagonal env whose rank-3
    tensors are stored, transform_in, transform_out)."""
    diag_env = random_env(rng, d, e, "dephasing", strength)
    u = gen.haar_unitary(rng, d)
    big = np.kron(u, np.eye(e))
    rot = Env(d, e, [big @ k @ big.conj().T for k in diag_env.kraus],
              diag_env.rho_e)
    r = np.kron(u.conj().T, u.T)        # vec(U^dag rho U) = r vec(rho)
    tin = r.T
    tout = np.linalg.inv(r).T
    return rot, diag_env, tin, tout


def rank3_tensors(env, nsteps):
    """For a 'dephasing' env the MPO tensor is diagonal in (S_in,S_out)."""
    d2 = env.d ** 2
    out = []
    for k in range(nsteps):
        t = env.mpo_tensor(env.kraus_at(k))
        diag = np.stack([t[:, :, s, s] for s in range(d2)], axis=-1)
        off = t.copy()
        for s in range(d2):
            off[:, :, s, s] = 0
        assert np.abs(off).max() < 1e-12
        out.append(diag)
    out[0] = np.einsum('a,abc->bc', env.rho_e.reshape(-1), out[0])[None]
    return out


def apply_gauge(rng, tens, caps=None):
    """A PT-MPO is defined up to an invertible matrix per bond (a scalar on a
    bond of dimension 1): tens[k-1] -> tens[k-1] G_k, tens[k] -> G_k^-1
    tens[k], cap_k -> G_k^-1 cap_k. Every contraction is unchanged. Returns
    new lists."""
    tens = [np.array(t, dtype=complex) for t in tens]
    caps = None if caps is None else [np.array(c, dtype=complex)
                                      for c in caps]
    n = len(tens)
    for k in range(1, n + 1):      # bond 0 is the open left end
        dim = tens[k].shape[0] if k < n else tens[n - 1].shape[1]
        if k == n and caps is None and dim == 1:
            # the library's compute_caps() closes the last bond with 1.0
            continue
        if k == n and caps is None:
            continue
        g = gen.cplx(rng, (dim, dim), 0.4) + np.eye(dim) * \
            (1.5 if rng.random() < 0.5 else 0.4)
        ginv = np.linalg.inv(g)
        if k >= 1:
            tens[k - 1] = np.moveaxis(
                np.tensordot(tens[k - 1], g, axes=([1], [0])), -1, 1)
        if k < n:
            tens[k] = np.tensordot(ginv, tens[k], axes=([1], [0]))
        if caps is not None:
            caps[k] = ginv @ caps[k]
    return tens, caps


def build_process_tensor(env, nsteps, dt=None, rank3=False, transform=None,
                         caps="explicit", name=None, description=None,
                         feed="copy", gauge=None):
    """SimpleProcessTensor for the environment. transform=(tin, tout) stores
    the tensors in a rotated basis such that the transformed tensors are the
    original ones."""
    import oqupy
    d = env.d
    tens = rank3_tensors(env, nsteps) if rank3 else env.tensors(nsteps)
    kw = {}
    if transform is not None:
        tin, tout = transform          # either may be None (one-sided)
        d2 = d * d
        kw = {}
        if tin is not None:
            kw["transform_in"] = tin
        if tout is not None:
            kw["transform_out"] = tout
        tin_inv = np.linalg.inv(tin) if tin is not None else np.eye(d2)
        tout_inv = np.linalg.inv(tout) if tout is not None else np.eye(d2)
        # T[a,b,i,o] = sum_jp tin[i,j] T'[a,b,j,p] tout[p,o]
        if not rank3:
            tens = [np.einsum('ij,abjp,po->abio', tin_inv, t, tout_inv)
                    for t in tens]
        # rank-3 tensors are stored as they are: the caller supplies
        # transforms such that tin . delta(T') . tout is the lab-frame tensor
    cap_list = env.caps(nsteps)
    if gauge is not None:
        tens, cap_list = apply_gauge(gauge, tens, cap_list)
    pt = oqupy.SimpleProcessTensor(d, dt=dt, name=name,
                                   description=description, **kw)
    # how the caller hands the tensors over: fresh arrays, Fortran-ordered
    # arrays, or ONE work buffer that is refilled for every step (the process
    # tensor must hold the values at the time of each call)
    buf = {}
    for k, t in enumerate(tens):
        if feed == "fortran":
            pt.set_mpo_tensor(k, np.asfortranarray(t))
        elif feed == "buffer":
            b = buf.setdefault(t.shape, np.empty(t.shape, dtype=complex))
            b[...] = t
            pt.set_mpo_tensor(k, b)
        else:
            pt.set_mpo_tensor(k, t)
    for b in buf.values():
        b[...] = 9.9
    if caps == "explicit":
        for k, c in enumerate(cap_list):
            pt.set_cap_tensor(k, c)
    elif caps == "compute":
        pt.compute_caps()
    return pt


class Joint:
    """Dense joint density matrix of S (x) E_1 (x) ... (x) E_m."""

    def __init__(self, d, envs, rho0):
        self.d = d
        self.envs = envs
        self.dims = [d] + [en.e for en in envs]
        r = np.asarray(rho0, complex)
        for en in envs:
            r = np.kron(r, en.rho_e)
        self.n = int(np.prod(self.dims))
        self.r = r

    def _tensor(self):
        return self.r.reshape(self.dims + self.dims)

    def apply_system_super(self, sup):
        """sup acts on row-major vec(rho_S): rho'_ij = sum_kl sup[(i,j),(k,l)]
        rho_kl."""
        if sup is None:
            return
        d = self.d
        m = len(self.dims)
        letters = "abcdefghijklmnopqrstuvw"
        lab = list(letters[:2 * m])
        out = list(lab)
        out[0], out[m] = "x", "y"
        expr = "xy" + lab[0] + lab[m] + "," + "".join(lab) + "->" + "".join(out)
        s4 = np.asarray(sup).reshape(d, d, d, d)
        self.r = np.einsum(expr, s4, self._tensor()).reshape(self.n, self.n)

    def _apply_op(self, k4, j, conj_side):
        """Multiply operator K (as K4[s_out,b_out,s_in,b_in]) on S(x)E_j from
        the left (conj_side False: acts on unprimed axes) or K^dagger from the
        right (conj_side True: K.conj() acts on primed axes)."""
        m = len(self.dims)
        letters = "abcdefghijklmnopqrstuvw"
        lab = list(letters[:2 * m])
        off = m if conj_side else 0
        s_in, b_in = lab[off], lab[off + j + 1]
        out = list(lab)
        out[off], out[off + j + 1] = "x", "y"
        k = k4.conj() if conj_side else k4
        expr = "xy" + s_in + b_in + "," + "".join(lab) + "->" + "".join(out)
        t = np.einsum(expr, k, self._tensor())
        self.r = t.reshape(self.n, self.n)

    def apply_env(self, j, step=None):
        d, e = self.d, self.envs[j].e
        r0 = self.r
        new = np.zeros_like(r0)
        for k in self.envs[j].kraus_at(step):
            self.r = r0
            k4 = k.reshape(d, e, d, e)
            self._apply_op(k4, j, False)
            self._apply_op(k4, j, True)
            new = new + self.r
        self.r = new

    def left_mult(self, a):
        af = np.kron(a, np.eye(self.n // self.d))
        self.r = af @ self.r

    def right_mult(self, a):
        af = np.kron(a, np.eye(self.n // self.d))
        self.r = self.r @ af

    def reduced(self):
        d = self.d
        rest = self.n // d
        return np.einsum('ibjb->ij', self.r.reshape(d, rest, d, rest))


def dense_dynamics(d, envs, rho0, nsteps, halfprops, pre=None, post=None,
                   order=None):
    """States at steps 0..N.
    halfprops(k) -> (P1, P2) system superoperators (row-major vec) or None.
    pre/post: dict step -> list of system superoperators applied in list order.
    order: order in which the environments act within a step (default list
    order)."""
    jt = Joint(d, envs, rho0)
    order = list(range(len(envs))) if order is None else order
    pre = pre or {}
    post = post or {}
    states = []
    for k in range(nsteps + 1):
        for c in pre.get(k, []):
            jt.apply_system_super(c)
        states.append(jt.reduced())
        if k == nsteps:
            break
        for c in post.get(k, []):
            jt.apply_system_super(c)
        p1, p2 = halfprops(k)
        jt.apply_system_super(p1)
        for j in order:
            jt.apply_env(j, k)
        jt.apply_system_super(p2)
    return np.array(states)


def dense_correlation_table(d, envs, rho0, nsteps, halfprops, ops, sides):
    """Exact n-time correlation  for all index tuples (i_1<=...<=i_n):
    operators ops[0..n-2] are inserted at steps i_1..i_{n-1} as left/right
    multiplications (before the measurement of that step), the last operator's
    expectation value is taken at step i_n.  Returns dict tuple->complex."""
    n = len(ops)
    table = {}
    for first in itertools.combinations_with_replacement(range(nsteps + 1),
                                                         n - 1):
        jt = Joint(d, envs, rho0)
        ins = {}
        for idx, step in enumerate(first):
            ins.setdefault(step, []).append(idx)
        for k in range(nsteps + 1):
            for idx in ins.get(k, []):
                if sides[idx] == "left":
                    jt.left_mult(ops[idx])
                else:
                    jt.right_mult(ops[idx])
            if k >= first[-1]:
                table[tuple(first) + (k,)] = np.trace(ops[-1] @ jt.reduced())
            if k == nsteps:
                break
            p1, p2 = halfprops(k)
            jt.apply_system_super(p1)
            for j in range(len(envs)):
                jt.apply_env(j)
            jt.apply_system_super(p2)
    return table


def const_halfprops(h, gammas, lops, dt):
    liou = gen.lindblad_super(h, gammas, lops)
    p = expm(liou * dt / 2)
    return lambda k: (p, p)


def sampled_halfprops(liou_t, dt, start_time):
    """subdiv_limit=None semantics: the Liouvillian is sampled at
    t_k + dt/4 and t_k + 3dt/4."""
    def f(k):
        t = start_time + k * dt
        return (expm(liou_t(t + dt / 4) * dt / 2),
                expm(liou_t(t + 3 * dt / 4) * dt / 2))
    return f
