"""R1 extensions used by C12 (written from the definitions, no oqupy code):

* eta_prime(p, t) = d eta/dt = int_0^t C(u) du
* imaginary-time (Matsubara) correlation and its double integral
    C_M(tau) = C(-i tau) = int J (a + b)/(1 - ab) dw,
        a = e^{-w tau}, b = e^{-w(beta - tau)}, 0 <= tau <= beta
    eta_M(tau) = eta(-i tau) = - int_0^tau (tau - v) C_M(v) dv
               = int J/w^2 [ (1-a)(1-b)/(1-ab) - w tau ] dw
* the part of those two integrands that is lost if, above a frequency w_g,
  the thermal integrand is replaced by the zero-temperature one J e^{-w tau}
  (only used to *classify* an observed deviation, never to excuse one)
* analytic double integrals of C(t) = sum_j a_j e^{-z_j t} (t >= 0)
"""
import math

import numpy as np
from scipy import integrate

from vp.ref import bath as rb


def ext(f):
    """Extension of eta (or any F with F'' = C, C(-s) = C(s)^*) to negative
    arguments: F(-t) = conj F(t); memoised."""
    memo = {}

    def g(t):
        t = float(t)
        key = abs(t)
        if key not in memo:
            memo[key] = complex(f(key)) if key != 0.0 else 0j
        v = memo[key]
        return v if t >= 0 else v.conjugate()
    g.memo = memo
    return g


QUAD = dict(limit=1000, epsabs=0.0, epsrel=1e-12)
W_TINY = 1e-280


def tail_pieces(p, start=None):
    """Finite pieces covering [wc, W]: beyond W the cutoff function times any
    power w^zeta (zeta <= 4.5) is < 1e-19 of its maximum, so the tail is
    truncated instead of handed to an infinite-range rule (which can converge
    falsely on oscillating integrands)."""
    wc = p["cutoff"]
    top = {"exponential": 64.0, "gaussian": 8.0}[p["cutoff_type"]] * wc
    edges = [wc * k for k in (1.0, 2.0, 4.0, 8.0, 16.0, 32.0, 64.0)
             if wc * k <= top]
    if start is not None:
        edges = [start] + [e for e in edges if e > start]
        if len(edges) == 1:
            return []
    return list(zip(edges[:-1], edges[1:]))


def integrate_err(f, p):
    """int_0^inf f(w) dw (up to wc for the hard cutoff) for integrands that
    behave like w^(zeta-1) or smoother at 0.  Same method as R1
    (vp.ref.bath._integrate): on [0, wc] substitute w = wc x^m so that the
    integrand is smooth in x, two different m must agree; tails split at
    8 wc.  Returns (value, error estimate) instead of raising, so that the
    caller can judge the error against the modulus of a complex result."""
    import warnings
    wc = p["cutoff"]
    zeta = min(p["zeta"], 1.0)
    m1 = int(math.ceil(2.0 / zeta)) + 1

    def head(m):
        def g(x):
            if x <= 0.0:
                return 0.0
            w = wc * x ** m
            if w < W_TINY:
                return 0.0
            return f(w) * wc * m * x ** (m - 1)
        with warnings.catch_warnings():
            warnings.simplefilter("ignore")
            return integrate.quad(g, 0.0, 1.0, **QUAD)

    val, err = head(m1)
    val2, _ = head(m1 + 1)
    err = max(err, abs(val - val2))
    if p["cutoff_type"] != "hard":
        with warnings.catch_warnings():
            warnings.simplefilter("ignore")
            for a, b in tail_pieces(p):
                v, e = integrate.quad(f, a, b, **QUAD)
                val += v
                err += e
    if not (math.isfinite(val) and math.isfinite(err)):
        raise rb.RefUnreliable(f"reference quadrature not finite: {val} {err}")
    return val, err


def cquad(fre, fim, p, floor=0.0, rel=1e-9):
    """Complex integral with the self-test: the summed error estimates must
    be <= rel*|value| + floor, else RefUnreliable (case skipped)."""
    re, ere = integrate_err(fre, p)
    im, eim = (0.0, 0.0) if fim is None else integrate_err(fim, p)
    val = complex(re, im)
    if not ere + eim <= rel * abs(val) + floor + 1e-300:
        raise rb.RefUnreliable(
            f"reference quadrature error estimate {ere + eim:.2e} for value "
            f"{val:.3e} (floor {floor:.1e})")
    return val


def _sinc(x):
    return 1.0 - x * x / 6.0 if abs(x) < 1e-4 else math.sin(x) / x


def _g3(x):
    """(sin x - x)/x^3."""
    if abs(x) < 1e-2:
        x2 = x * x
        return -1.0 / 6.0 + x2 / 120.0 - x2 * x2 / 5040.0
    return (math.sin(x) - x) / x ** 3


def _jcoth(p):
    jw = rb.spectral_density(p)
    temp = p["temperature"]
    return jw, (lambda w: jw(w) * rb.coth_half(w, temp))


def eta(p, t, floor=0.0):
    """eta(t) = int J/w^2 [coth(w/2T)(1-cos wt) + i(sin wt - wt)] dw, written
    without 1/w^2 (no overflow / cancellation for w -> 0)."""
    if t == 0.0:
        return 0j
    jw, jc = _jcoth(p)

    def fre(w):
        return jc(w) * 0.5 * t * t * _sinc(0.5 * w * t) ** 2

    def fim(w):
        return jw(w) * w * t ** 3 * _g3(w * t)
    return cquad(fre, fim, p, floor)


def correlation(p, tau, floor=0.0):
    jw, jc = _jcoth(p)

    def fre(w):
        return jc(w) * math.cos(w * tau)

    def fim(w):
        return -jw(w) * math.sin(w * tau)
    return cquad(fre, fim, p, floor)


def eta_prime(p, t, floor=0.0):
    """int_0^t C(u) du = int J/w [coth(w/2T) sin wt + i (cos wt - 1)] dw."""
    if t == 0.0:
        return 0j
    jw, jc = _jcoth(p)

    def fre(w):
        return jc(w) * t * _sinc(w * t)

    def fim(w):
        return -jw(w) * w * 0.5 * t * t * _sinc(0.5 * w * t) ** 2
    return cquad(fre, fim, p, floor)


def _abq(w, tau, beta):
    """(1-a), (1-b), (1-ab) without cancellation."""
    oma = -math.expm1(-w * tau)
    omb = -math.expm1(-w * (beta - tau))
    omab = -math.expm1(-w * beta)
    return oma, omb, omab


def matsubara_correlation(p, tau, floor=0.0):
    temp = p["temperature"]
    beta = 1.0 / temp
    jw = rb.spectral_density(p)

    def f(w):
        return jw(w) * (math.exp(-w * tau) + math.exp(-w * (beta - tau))) \
            / (-math.expm1(-w * beta))
    return cquad(f, None, p, floor).real


def matsubara_eta(p, tau, floor=0.0):
    """int J/w^2 [ (1-a)(1-b)/(1-ab) - w tau ] dw.  The bracket tends to
    -w tau^2/beta for w beta -> 0; (1-a)(1-b)/(1-ab) is evaluated through
    expm1 (relative accuracy), the subtraction of w tau loses at most
    log10(beta/tau) digits (tau >= beta/20 in C12)."""
    if tau == 0.0:
        return 0.0
    temp = p["temperature"]
    beta = 1.0 / temp
    jw = rb.spectral_density(p)

    def f(w):
        oma, omb, omab = _abq(w, tau, beta)
        return (jw(w) / w) * ((oma * omb / omab - w * tau) / w)
    return cquad(f, None, p, floor).real


def _tail_integral(f, p, w_g):
    """int_{w_g}^{upper} f(w) dw, upper = wc for the hard cutoff, else the
    truncation frequency of tail_pieces."""
    import warnings
    wc = p["cutoff"]
    tot = 0.0
    with warnings.catch_warnings():
        warnings.simplefilter("ignore")
        if p["cutoff_type"] == "hard":
            if w_g >= wc:
                return 0.0
            return integrate.quad(f, w_g, wc, **QUAD)[0]
        if w_g < wc:
            tot += integrate.quad(f, w_g, wc, **QUAD)[0]
            w_g = None
        for a, b in tail_pieces(p, w_g):
            tot += integrate.quad(f, a, b, **QUAD)[0]
    return tot


def guard_frequency(temp):
    """w above which exp(-w/T) <= machine epsilon."""
    return -temp * math.log(np.finfo(float).eps)


def matsubara_correlation_dropped(p, tau):
    """int_{w>w_g} J [ (a+b)/(1-ab) - a ] dw."""
    temp = p["temperature"]
    beta = 1.0 / temp
    jw = rb.spectral_density(p)

    def f(w):
        a = math.exp(-w * tau)
        b = math.exp(-w * (beta - tau))
        return jw(w) * b * (1.0 + a * a) / (-math.expm1(-w * beta))
    return _tail_integral(f, p, guard_frequency(temp))


def matsubara_eta_dropped(p, tau):
    """int_{w>w_g} J/w^2 [ (1-a)(1-b)/(1-ab) - (1-a) ] dw
       = - int J/w^2 (1-a)^2 b/(1-ab) dw."""
    temp = p["temperature"]
    beta = 1.0 / temp
    jw = rb.spectral_density(p)

    def f(w):
        oma, omb, omab = _abq(w, tau, beta)
        b = math.exp(-w * (beta - tau))
        return -(jw(w) / w) * (oma * oma * b / omab / w)
    return _tail_integral(f, p, guard_frequency(temp))


# --- analytic cells for sums of exponentials --------------------------------

def _phi(x):
    """(e^{-x} - 1 + x)/x^2 for complex x, series for small |x|."""
    if abs(x) < 1e-2:
        return 0.5 - x / 6.0 + x * x / 24.0 - x ** 3 / 120.0 + x ** 4 / 720.0
    return (np.exp(-x) - 1.0 + x) / (x * x)


def _psi(x):
    """(1 - e^{-x})/x."""
    if abs(x) < 1e-2:
        return 1.0 - x / 2.0 + x * x / 6.0 - x ** 3 / 24.0 + x ** 4 / 120.0
    return (1.0 - np.exp(-x)) / x


def exp_family(amps, zs):
    """C(t) = sum a_j e^{-z_j t} for t >= 0 (Re z_j >= 0), C(-t) = C(t)^*.
    Returns (C, F, F') with F(t) = int_0^t (t-u) C(u) du for t >= 0."""
    amps = [complex(a) for a in amps]
    zs = [complex(z) for z in zs]

    def c(t):
        t = float(t)
        if t >= 0:
            return sum(a * np.exp(-z * t) for a, z in zip(amps, zs))
        return np.conj(sum(a * np.exp(z * t) for a, z in zip(amps, zs)))

    def f(t):
        return sum(a * t * t * _phi(z * t) for a, z in zip(amps, zs))

    def fp(t):
        return sum(a * t * _psi(z * t) for a, z in zip(amps, zs))
    return c, f, fp


def finite_mode_eta_prime(freqs, gs, temps):
    def e(t):
        tot = 0j
        for w, g, temp in zip(freqs, gs, temps):
            tot += g * g / w * (rb.coth_half(w, temp) * math.sin(w * t)
                                + 1j * (math.cos(w * t) - 1.0))
        return tot
    return e


def cell_terms(shape, dt, t1, t2=None):
    """The cell as a linear combination of F at (signed) times:
    list of (coefficient, time); the offset triangle additionally needs
    -dt F'(t1) (returned as third element of the tuple)."""
    if shape == "upper-triangle":
        return [(1.0, t1 + dt), (-1.0, t1)], (-dt, t1)
    if shape == "square":
        return [(1.0, t1 + dt), (-2.0, t1), (1.0, t1 - dt)], None
    if shape == "rectangle":
        return [(1.0, t2), (-1.0, t1), (-1.0, t2 - dt), (1.0, t1 - dt)], None
    raise ValueError(shape)
